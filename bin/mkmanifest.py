#!/usr/bin/env python3
"""Regenerates MANIFEST.json from the table below (single source of truth for what is claimed)."""
import json, os
ROOT = os.path.dirname(os.path.dirname(os.path.abspath(__file__)))

CHECKS = {
 "C19": dict(
  level="model_checking", design="§4 C19, spec/GenDir.tla",
  technique="TLA+ model of goag.go Generate (MC_GenDir) enumerated by TLC; every history replayed on the real generator; directories judged by TLC (Trace_GenDir)",
  text="TLC enumerates every history of invocations (<=3 over the 8 invocations of the property, plus every history of <=2 (thorough: <=3) over the 16 invocations that also switch the DO NOT EDIT header option between runs; thorough: length 4, failing invocations, user edits and deletions) of a step-level model of Generate and checks DirMatchesLast / UserUntouched / Idempotent on it; every enumerated history is then executed with the real generator and the recorded directory contents after each run are validated by TLC against the Prop layer (RunOKPost / RunErrPost) - exhaustive at the stated bound on both model and code. The directory holds two user files from the start, one of them a real Go source file of the package that binds log / fmt / strings to a package of its own (owned files must not depend on it).",
  note="Trusts sha256 for file equality, the measured Fresh(inv) (one run of each invocation into an empty directory), TLC and the harness's directory listing. Flags other than client/api-handler are fixed; the five spec kinds are fixed texts in harness/internal/checks/c19.go."),
}

CHECKS["C13"] = dict(
  level="model_checking", design="§4 C13, spec/Embed.tla, spec/Pipeline.tla (SpecHit)",
  technique="TLA+ model of encodeRawFileAsString and of Go's string-literal lexer (MC_Embed) checked exhaustively by TLC; every enumerated content embedded by the real generator, constant evaluated with go/types and judged by TLC (Trace_Embed); served half judged by Trace_Embed / Trace_Pipeline on compiled packages",
  text="Exhaustive on model and code for all contents up to length 4 over the 11-token alphabet of Go-literal-relevant bytes (thorough: length 6 over the 8-token core alphabet), plus seeded random contents and real spec files in several surface forms (one-line JSON, CRLF, no trailing newline, BOM); the served half requests <base>/<spec name> through compiled generated packages with 0-3 middlewares, with and without SpecFileHandler; the served texts contain format verbs and template actions (100%, %d, %%, {{ .Name }}, ${HOME}).",
  note="The compiled constant is computed by go/parser + go/types constant folding (same semantics as the compiler). Bytes outside the token alphabet are ordinary characters for Go's literal syntax. TLC, the tokenizer and the driver are trusted.")
CHECKS["C03"] = dict(
  level="model_checking", design="§4 C03, spec/Router.tla, spec/Pipeline.tla",
  technique="TLA+ model of the generated route tree walk checked against OpenAPI path matching by TLC (MC_Router); TLC-enumerated template sets compiled and every request path up to the bound served by the real router; dispatch events judged by TLC (Trace_Pipeline)",
  text="Design check: every set of <=2 (thorough: also <=3) non-equivalent templates x method assignments x every request path up to depth 3-5 over {a,b,z,empty} - the model of the generated route functions always returns an admissible dispatch. Conformance: a seeded sample of those sets is generated, compiled and served EVERY request path up to depth 4 (thorough 5) x methods, packed under literal prefixes and unpacked at the root under 9 base-path forms, with base-path near misses; which handler ran, not-found, spec route and the reported template are validated by TLC against the Prop layer.",
  note="Reading of DESIGN §11 (non-dominated candidates admissible, variables match any segment). Requests are served in-process with arbitrary URL.Path. Template sets are sampled (seeded), request paths are exhaustive for each sampled set. TLC, the renderer and the reflective driver are trusted.")

PIPE_NOTE = "Observation points are the user call-backs of the generated API (middlewares, authenticators, handlers, NotFound/SpecFile/CORS handlers, ResponseWriter), recorded by a reflective driver that replicates no goag naming rule; TLC, the ASpec renderer and the driver are trusted. Requests are served in-process through API.ServeHTTP."
CHECKS["C11"] = dict(
  level="model_checking", design="§4 C11, spec/Security.tla, spec/MC_Pipeline.tla, spec/Trace_Pipeline.tla",
  technique="TLA+ step model of ServeHTTP + authMiddlewareOr (MC_Pipeline) checked by TLC over every small security configuration; the same configurations generated, compiled and requested with every credential assignment; Auth/Handler/401 events judged by TLC (Trace_Pipeline)",
  text="Design check: global in {none,[A],[A,B],[C]} x per-operation requirement (9 choices: inherit, [], [A], [B], alternatives, AND, unsupported kinds) for two operations sharing a path item x credentials {valid,invalid,absent}^3 x nil authenticators x middleware stacks - NoMore/NoLess/Only401/NoPanic/MwAround/SingleWrite hold outside the two named deviations (known findings). Conformance: all 324 configurations are generated for 2 (thorough 4) scheme-kind assignments, every operation is requested with all 27 credential assignments (thorough: also with each authenticator nil), and TLC validates that the handler runs iff the operation's own effective requirement is met, with the accepting authenticator's request.",
  note=PIPE_NOTE + " Reading of DESIGN §11 for AND-requirements and unsupported kinds; two open findings (c11-and-alt, c11-unsupported) are listed in known_findings.txt and attributed by TLA+ selectors in Trace_Pipeline.")
CHECKS["C16"] = dict(
  level="model_checking", design="§4 C16, spec/MC_Pipeline.tla, spec/Trace_Pipeline.tla",
  technique="TLA+ step model of ServeHTTP with middleware stacks checked by TLC (MC_Pipeline: MwAround, SingleWrite); recorded MwEnter/MwLeave/Auth/Handler/NotFound/Cors/Spec events of real generated packages judged by TLC (Trace_Pipeline)",
  text="Every request of a kitchen-sink spec (public, bearer, apiKey header/query, alternatives, declared OPTIONS, CORS) and of TLC-enumerated router template sets is served under API configurations mw 0..4 x NotFoundHandler x SpecFileHandler x CORSHandler; TLC validates that each middleware is entered and left exactly once in declared order for dispatched operations only, outside the security check, with the operation's template visible, and that not-found, CORS and spec-file requests bypass them.",
  note=PIPE_NOTE)
CHECKS["C17"] = dict(
  level="model_checking", design="§4 C17, spec/Pipeline.tla (CorsMethods, CorsHeaders, Outcomes), spec/Trace_Pipeline.tla",
  technique="CORS as a synthetic OPTIONS operation in the TLA+ dispatch model (Pipeline.Outcomes); factory arguments recorded from real generated packages judged by TLC (Trace_Pipeline) against CorsMethods/CorsHeaders",
  text="Path items cycle through all 15 non-empty method subsets of {GET,POST,PUT,OPTIONS} with seeded header parameters (case variants, path/operation level), per-operation security and overlapping templates, under three global requirements, cors flag on/off and CORSHandler set/nil; every path and near miss is sent OPTIONS; TLC checks methods and headers as duplicate-free sets, that declared OPTIONS operations are not shadowed and that a nil handler yields not-found.",
  note=PIPE_NOTE + " Header names canonicalised by http.CanonicalHeaderKey (trusted).")

CHECKS["C04"] = dict(
  level="model_checking", design="§4 C04, spec/Params.tla, spec/MC_Params.tla, spec/Trace_Params.tla",
  technique="TLA+ model of the generated parameter parse order checked against set-valued admissible outcomes by TLC (MC_Params); the TLC-enumerated declaration matrix generated, compiled and requested with every lexeme-class supply; Parse() results judged by TLC (Trace_Params)",
  text="Design check: every pair of declarations (location x type x array x required) x every supply of <= 2 lexeme classes - the generated order (query, header; required -> cardinality -> lexical parse; first error wins) always yields an outcome the Prop layer admits. Conformance: the 48 base declarations x {inline, schema $ref, component parameter} x {operation, path-item, overridden by the operation, declared by the path item while two sibling operations re-declare it differently} levels (plus two-parameter operations) are pre-flighted, packed and requested with absent / every class / every pair of classes (thorough: triples); TLC validates ok/error, the named parameter, typed tokens and unset optionals.",
  note="Lexeme classes are defined by strconv / time.Parse on uncontroversial representatives (DESIGN §11, A.5). Header arrays, nullable and non-primitive parameters are outside the matrix. Struct fields are bound to parameters by normalised name. TLC and the reflective driver are trusted.")
CHECKS["C05"] = dict(
  level="model_checking", design="§4 C05, spec/MC_PathParams.tla, spec/Params.tla, spec/Trace_Params.tla",
  technique="TLA+ model of the alternating constant-prefix / variable path extractors checked against 'segment at the template position' by TLC (MC_PathParams); typed templates from TLC-enumerated sets served through the real router under all base-path forms; Parse() results judged by TLC (Trace_Params)",
  text="Design check: every template of depth <= 3 with a variable x every type assignment x base-path length x every dispatched request - the extractors recover exactly the segment at each variable position and fail iff one is empty or outside its type. Conformance: TLC-enumerated template sets with seeded variable types (incl. $ref) under 9 base-path forms; each variable position is filled with every lexeme of its type, requests go through API.ServeHTTP, and for the operation that ran TLC validates the typed values / the named failing path parameter.",
  note="Only dispatched requests are judged (routing itself is C03). The expected segment is computed from the operation that ran and the request path beneath the normalised base. Lexical spaces are defined by strconv / time.Parse. TLC and the reflective driver are trusted.")

CHECKS["C01"] = dict(
  level="exploration", design="§4 C01, §12, spec/Dialect.tla, spec/Trace_Gen.tla",
  technique="TLC enumerates the feature matrix of the dialect (MC_Dialect); every cell generated by the real generator; go/parser + gofmt + go/types observe the output; the result protocol and known-finding selectors are TLA+ (Trace_Gen, Dialect.KFCell)",
  text="All 3304 well-formed cells of schema kind (28) x position (14) x required x nullable x ref form are generated with client on and, in rotation, with the other flag sets and 9 base-path forms, plus name-shape (18 names x 8 sites), free-text-shape (11 texts x 9 sites) and configuration specs; each output is parsed, gofmt-checked and type-checked against the standard library; TLC applies the protocol 'success => well-formed output, error => message, never a swallowed goimports error'. Go's static semantics are observed, not modelled (exploration).",
  note="go/types with the source importer stands for 'compiles'. Ten open root causes are listed in known_findings.txt with TLA+ selectors on the abstract cell; three were repaired. Custom Go types and custom Maybe/Nullable are outside the dialect.")

CHECKS["C15"] = dict(
  level="exploration", design="§4 C15, §12, spec/Dialect.tla (ResultOK, KFCell), spec/Trace_Gen.tla",
  technique="structural mutation of carrier specs at every JSON-pointer site; real generator in worker processes under recover() and a time limit, plus the real CLI; result protocol (no panic, error non-empty and located, exit status agrees) judged by TLC (Trace_Gen)",
  text="Every mutation operator (delete key, null, type swaps, empty object/array, unsupported type/format, dangling / wrong-section / cyclic $ref, content parameters, cookie parameters, partial / undeclared / slash-less path templates, non-string server-variable defaults) is applied at every site of two carrier specs (quick: all keyed operators and a seeded third of the generic ones; thorough: all); loader-rejected mutants are skipped; each remaining mutant is generated under recover() in a worker process (a dead or hung worker is a crash), a sample and all crashing mutants also through the CLI; TLC applies the protocol. Absence of panics is observed, not modelled (exploration).",
  note="'Located' = the message contains a specific name on the pointer path to the fault (or, for faults inside components, the path key where the component is used). Two open findings (unlocated template errors, self-referencing schema overflows the stack) carry TLA+ selectors; three defects were repaired.")

CHECKS["C12"] = dict(
  level="exploration", design="§4 C12, §12, spec/Determinism.tla, spec/Trace_Determinism.tla",
  technique="TLA+ site table (sorted / ranged x contribution) checked over all permutations by TLC (MC_Determinism); map-fat and corpus specs generated repeatedly in one process and in separate processes; equality of results and file hashes judged by TLC (Trace_Determinism)",
  text="Design check: for every site of the site table and every permutation of 4 keys the emitted sequence is schedule independent (it is not for the pinned tree's three ranged sites, cfg v0). Code: a map-fat spec with >= 4 entries in every map-typed construct, the kitchen and carrier specs and a seeded sample of matrix cells are each generated 24 (thorough 96) times across separate processes; every run of one input must give the same result (or the same error text) and identical sha256 per file. Schedules of Go's map iteration are sampled, not enumerated (exploration).",
  note="Also: in every other process another invocation (other spec, CORS on, no header, a base path) runs before each run of the spec under test, an extension-fat spec carries the x- keys goag reads next to other generators' spellings, and `goag --dir` is model-checked (spec/Batch.tla: Independent, FailsAtFirst, PrefixDone) and all 84 batches of MC_Batch are generated by the real GenerateDir in fresh processes and judged by Trace_Batch. With k >= 4 entries and a first-key-wins or whole-order site, a pair of runs differs with probability >= 3/4, so 24 runs miss an influencing site with probability <= 4^-23. The site table is a model; unlisted ranged sites would still be caught by the hash comparison if the corpus exercises them.")

STREAM_NOTE = " Bodies reach the generated code through a reader that replays, scaled to the body, every complete behaviour of the source of spec/Stream.tla (short / empty reads, end announced with or after the last bytes, failure after Close): 162 behaviours (thorough 1458), design-checked by MC_Stream (Complete, NoUseAfterClose, Conserved, Terminates)."
CODEC_NOTE = "Besides the enumerated universe of MC_Codec every run takes 150 (thorough: 1200) seeded random schema compositions nested to depth 3 over all constructs (randschema.go). Values are compared by projection (nil = empty collections, times as instants). JSON leaves are tokenised by strconv / time.Parse (trusted). Struct fields are bound to properties by normalised name. Schemas whose generated code does not build are excluded by the pre-flight and counted (C01 owns them). One open finding (named date-time component) carries a TLA+ selector."
CHECKS["C06"] = dict(
  level="model_checking", design="§4 C06, spec/Codec.tla (VEq, NoDupDeep, writer machine), spec/MC_Codec.tla, spec/Trace_Codec.tla",
  technique="TLA+ model of the generated object writer's comma protocol checked by TLC (MC_Codec); TLC-enumerated schema universe generated and compiled; seeded boundary values and values decoded from schema-derived documents round-tripped through the real MarshalJSON/UnmarshalJSON; validity, duplicate keys and value equality judged by TLC (Trace_Codec)",
  text="Schema universe: all scalars and arrays of scalars x nullable, objects with <= 2 properties x required x nullable x additionalProperties {silent,true,string,int64}, allOf of two members in every inline/$ref order, oneOf with/without discriminator, nested objects and arrays (932 schemas; quick samples two-property objects). For each building schema 10 (thorough 60) seeded boundary-biased values plus every value obtained from a schema-derived document: json.Marshal -> json.Valid, no duplicate keys at any depth -> json.Unmarshal -> projected value equal to the original.",
  note=CODEC_NOTE)
CHECKS["C07"] = dict(
  level="model_checking", design="§4 C07, spec/Codec.tla (Valid, Match), spec/Trace_Codec.tla",
  technique="independent validator written in TLA+ (Codec.Valid) and the value/encoding correspondence (Codec.Match) evaluated by TLC on the token tree of the real bytes",
  text="Same executions as C06; the judge is not goag's decoder: Valid(schema, tree) checks required present, null only where nullable, names exactly the declared ones (or map keys), JSON types and formats (int32 range, RFC 3339), oneOf exactly one variant; Match additionally checks unset optionals omitted, null nullables written as null, allOf merged into one object and map entries under their own keys with the value's own leaf tokens.",
  note=CODEC_NOTE + " Response bodies and client request bodies on the wire are judged with the same operators by the C02/C09/C10 checks.")
CHECKS["C08"] = dict(
  level="model_checking", design="§4 C08, §17.6, spec/Codec.tla (JEquiv), spec/Trace_Codec.tla, spec/Reader.tla, spec/MC_Reader.tla, spec/Trace_Reader.tla",
  technique="documents and single-fault mutants generated from the schema (not from goag's encoder); real UnmarshalJSON + re-encoding; losslessness (Codec.JEquiv) and strictness judged by TLC (Trace_Codec); plus the reader walk: the step-level TLA+ model of unmarshalJSONInnerBody (Reader.tla) is model-checked against its Prop layer and every object of its universe x documents over its keys is replayed on the real generated code and judged by TLC (Trace_Reader)",
  text="For every building schema of the C06 universe: seeded valid documents (optional subsets, null where allowed, additional properties, undeclared extras on silent schemas, discriminator set to the variant's tag) must decode and re-encode to an equivalent document (key order ignored, extras kept under explicit additionalProperties); every mutant that drops one required key or swaps one declared property to another JSON type must be rejected with an error naming the property. Reader walk: for every object of MC_Reader's universe (own properties required / optional / nullable, allOf members inline / embedded / nested, typed additionalProperties) and documents giving every key the status absent / value / null / wrong type, the real decoder's outcome (accepted or not, the key the error names, which fields hold the value / null / the zero value, which keys land in AdditionalProperties) must equal what the reader machine computes.",
  note=CODEC_NOTE + " null for a non-nullable property is not judged by the Prop layer (C08 is silent); the reader machine records what the code does with it (zero value) and the walk checks that too. Type swaps are between distinct JSON types only." + STREAM_NOTE)

WIRE_NOTE = "Domain restrictions of DESIGN §4 C09 / §11 (path values non-empty and '/'-free, arrays non-empty, header values visible ASCII, times as instants, finite floats). The client is NewClient(origin + normalised base path, HTTPClient); the HTTPClient records the wire request and serves a fresh server-side copy through API.ServeHTTP in-process. Operations whose generated code does not build are excluded by the pre-flight and counted. Lexical spaces by strconv / time.Parse; TLC and the reflective driver are trusted."
CHECKS["C09"] = dict(
  level="model_checking", design="§4 C09, §17.7, spec/Wire.tla (WireValid), spec/Params.tla, spec/Codec.tla, spec/Trace_Wire.tla, spec/Client.tla, spec/MC_Client.tla, spec/Trace_Client.tla",
  technique="calls through the real generated Client against the real generated server; the wire request validated by a TLA+ request validator (Wire.WireValid = Router.Match + Params.Failing + Codec.Valid) and parsed = sent judged by TLC (Trace_Wire)",
  text="Seeded operations (typed path parameters, query parameters incl. arrays, header parameters, JSON / raw / no body; rotating base-path forms) are called with seeded boundary values: reserved URL and header characters, extreme numbers, zoned times, empty optional strings, multi-element arrays. TLC checks that the request on the wire is valid for the operation (method, template match beneath the base path, required parameters present, every lexeme in its type's space, no undeclared query keys, body valid for its schema) and that the handler's Parse() value equals the value sent, field by field, unset staying unset. Client walk: the composed client / server machines of Client.tla are model-checked (round trip inside the domain, every domain restriction necessary); all 168 operation shapes of that model are generated and called with values of every kind inside and outside the domain; inside the domain the round trip must hold, outside it the outcome is compared with the model (drift only). The same calls also go through API.LocalClient().",
  note=WIRE_NOTE + STREAM_NOTE)
CHECKS["C10"] = dict(
  level="model_checking", design="§4 C10, spec/Wire.tla (ClientOutcome), spec/MC_Wire.tla, spec/Trace_Wire.tla",
  technique="TLA+ model of the client's status dispatch checked by TLC (MC_Wire); seeded response values returned by the real handler and reconstructed by the real client; equality and the default/error rule judged by TLC (Trace_Wire)",
  text="For every operation of the response matrix (1-4 responses from {200,201,404,default}, inline / component / alias, typed required and optional headers incl. arrays, JSON / raw / no body) the handler returns a seeded value of a seeded documented response type; the client's return value must be of the same type with equal code, headers and body. Every undocumented status among {200,201,202,302,404,418,500} reaches the client through a real default response carrying that code (must come back as the default type with that code) or, when no default is declared, as an injected response (must be an error).",
  note=WIRE_NOTE + " Default status codes are drawn from 200..499." + STREAM_NOTE)
CHECKS["C02"] = dict(
  level="model_checking", design="§4 C02, spec/Wire.tla (WriteOK, Documented), spec/Trace_Wire.tla",
  technique="static half: reflection over every package-level named type against each operation's response interface; dynamic half: what the real Write put on the wire (status, Content-Type, header names and values, body) judged by TLC (Trace_Wire.ServerDone with Wire.WriteOK and Codec.Valid)",
  text="Static: for every operation of every generated package the number of distinct concrete types implementing its response interface equals the number of response identities the spec documents for it (inline per status, component responses through alias chains, a shared component counted once) - nothing else satisfies the interface. Dynamic: every seeded response value returned by a handler is written with a documented status (the caller's code for default), the documented Content-Type, exactly the declared header names with required ones present, every header value as often as the response value says (a scalar once when set, an array once per element, an unset optional not at all) and denoting the Go value in the lexical space of its declared type, and a body valid for the declared schema; raw bodies are declared with varying media types (octet-stream, problem+json, text/plain, json with parameters, merge-patch+json) and must carry exactly that Content-Type.",
  note=WIRE_NOTE + " Response identity by behaviour and type identity; Bodies are compared for equality by C10; each event of a call is judged on its own (a rejected write does not hide the caller-side judgement of C10).")

CHECKS["C14"] = dict(
  level="exploration", design="§4 C14, §12, spec/Pipeline.tla (no Panic action, SingleWrite), spec/MC_Pipeline.tla, spec/Trace_Answer.tla",
  technique="structured near-miss mutation of valid requests plus seeded byte-level random requests against compiled generated packages; recover() around ServeHTTP and Parse(), counting ResponseWriter; NoPanic / SingleWrite judged by TLC (Trace_Answer); step model of ServeHTTP checked by TLC (MC_Pipeline: NoPanic, SingleWrite)",
  text="For every pre-flighted operation of the wire universe (typed path / query / header parameters, JSON, raw and component request bodies, security on every fifth, rotating base-path forms) a valid request is mutated structurally: every truncation of the path, doubled / missing slashes, base-path near misses, empty path, '*', a 6000-character path, odd methods, empty / duplicated / malformed / huge query strings and headers, twelve classes of broken JSON bodies, documents generated from the body schema (optional properties present / absent, 0-2 additional properties, explicit nulls) and their single-fault mutants, a ResponseWriter whose writes fail and a cancelled context; plus 50 000 (thorough 750 000) seeded random requests near the declared shapes incl. a kitchen-sink spec with security, CORS and spec file; every handler calls Parse(). Absence of panics is observed on explored inputs, not proven (exploration).",
  note="Requests are http.Request values served in-process (arbitrary URL.Path, RawQuery, headers, body). Go's coverage-guided fuzzer is not used in this build; the random part is seeded generation. The driver summarises random batches (counts + first offenders), structured cases are judged one by one.")
CHECKS["C18"] = dict(
  level="model_checking", design="§4 C18, spec/Refs.tla, spec/MC_Refs.tla, spec/Trace_Refs.tla",
  technique="TLA+ rewrite model (category of reference sites -> keep / inline / hoist) enumerated by TLC (MC_Refs); original and rewritten specs generated, compiled and driven with the same client calls and raw requests; paired observations judged by TLC (Trace_Refs: WireEquiv, RawEquiv, build outcome)",
  text="Packs of wire operations whose schemas, parameters, request bodies, responses and headers are partly inline and partly $ref / alias are rewritten inline-all, hoist-all, hoist-props and by seeded variants out of the 243 TLC enumerates; each pair of packages gets identical seeds for client calls and identical raw near-miss requests; TLC requires equal build outcome, equal wire request, equal parse outcome (value or named error), equal written response and equal returned value (values compared after merging embedded allOf members).",
  note="A wire pair is compared when both clients were given equal request values. oneOf variants stay references. Three open findings (hoisted non-object property schemas, array headers in components.headers, component request bodies with inline object schema) carry TLA+ selectors; one defect (component request body dropping JSON methods) was repaired.")
CHECKS["C20"] = dict(
  level="model_checking", design="§4 C20, spec/Concurrent.tla, spec/Trace_Concurrent.tla",
  technique="TLA+ model of N interleaved request machines (Call -> Chain -> Auth -> Parse -> Respond -> Return; switches for shared scratch values and for appending to the shared Middlewares slice) checked by TLC over all interleavings of 4 requests (Isolated, SharedReadOnly); the linearized event log of 16-64 goroutines driving one API and one Client validated by TLC (Trace_Concurrent) as a behaviour of that model; Go race detector on the same executions",
  text="Rounds of 16-64 goroutines x 4 calls (GOMAXPROCS 1/4/16, yields in every call-back) go through one generated Client into one generated API (packed wire operations: parameters, JSON and raw bodies, a third each secured by a bearer scheme / an apiKey-in-header scheme / nothing with per-request unique credentials, 2 or 3 middlewares registered by append so that API.Middlewares has spare capacity); every leaf of every request and response is unique to its call; next to every client call a raw GET matching no operation (unrouted path, with a NotFoundHandler in half of the rounds, or the spec-file route) is served and must be answered on its own (404 / the spec file); events are appended under one mutex with a global sequence number. TLC checks that every event is a step of its own request's machine, that the template visible to middlewares and handler is the request's own, that the authenticator that runs is the one of the request's operation and sees the request's own credential, parsed = sent and returned = responded per request. The binaries are built with -race; any report is a violation.",
  note="Goroutine schedules are sampled, not enumerated; the model enumerates the interleavings of 4 abstract requests. 'No unsynchronised access' is decided by the race detector, outside TLA+.")

NOT_YET = {}

def main():
    props = [json.loads(l) for l in open(os.path.join(ROOT, "properties.jsonl"))]
    checks, na = [], []
    for p in props:
        pid = p["id"]
        if pid in CHECKS:
            c = CHECKS[pid]
            checks.append({
                "property_id": pid,
                "quick_cmd": f"bash bin/check {pid} quick",
                "thorough_cmd": f"bash bin/check {pid} thorough",
                "evidence_file": f"/verif/evidence/{pid}.json",
                "replay_cmd_template": "bash bin/check replay {path}",
                "engine": "verifctl",
                "level_claimed": {"category": c["level"], "text": c["text"], "design_ref": c["design"]},
                "level_note": c["note"],
                "technique": c["technique"],
            })
        else:
            na.append({"property_id": pid, "reason": NOT_YET.get(pid, "check not built yet in this tree (planned with the TLA+ module named in DESIGN.md §4); not claimed until it runs")})
    m = {
        "version": 1,
        "setup_cmd": "bash bin/setup",
        "hooks": {
            "guard": "verif",
            "enable": "go build -tags verif (bin/check builds harness/cmd/verifctl with -tags verif against /repo via a replace directive)",
            "baseline_off_cmd": "cd /repo && go test -vet=off -count=1 ./...",
            "source_commits": ["8b62518"],
            "add_only": True,
        },
        "engines": [{"name": "verifctl", "path": "harness/cmd/verifctl", "serves_properties": sorted(CHECKS),
                     "kind_free_text": "Go orchestrator: TLC design check + case generation (spec/MC_*.tla), execution against goag built from /repo, TLC trace judge (spec/Trace_*.tla)"}],
        "checks": checks,
        "not_applicable": na,
        "notes": "All verdicts come from behaviour of the real code that no behaviour of the TLA+ Prop layer explains; see DESIGN.md.",
    }
    json.dump(m, open(os.path.join(ROOT, "MANIFEST.json"), "w"), indent=1)
    print("claimed:", sorted(CHECKS), "not_applicable:", [x["property_id"] for x in na])

main()
