package driver

import (
	"bytes"
	"context"
	"fmt"
	"io"
	"net/http"
	"net/url"
	"runtime/debug"
)

// ReqCase is one HTTP request to serve through the generated API.
type ReqCase struct {
	ID         string              `json:"id"`
	Method     string              `json:"method"`
	Path       string              `json:"path"`
	RawPath    string              `json:"rawPath"` // optional: another valid percent-encoding of Path (what a client put on the wire)
	RawQuery   string              `json:"rawQuery"`
	Headers    map[string][]string `json:"headers"`
	Body       string              `json:"body"` // base64 when BodyB64
	BodyB64    bool                `json:"bodyB64"`
	HasBody    bool                `json:"hasBody"`
	Script     Script              `json:"script"`
	Abs        map[string]any      `json:"abs"`                  // the harness's abstract description, echoed in the Req event
	FailWrites bool                `json:"failWrites"`           // the ResponseWriter's Write fails (client went away)
	Cancelled  bool                `json:"cancelled"`            // the request context is already cancelled
	Chunked    bool                `json:"chunked"`              // the body arrives with unknown length (Transfer-Encoding: chunked): ContentLength -1, as a server sees it
	Reads      *ReadPlan           `json:"reads,omitempty"`      // how the body arrives: one behaviour of Stream.tla's source
	CredPrefix string              `json:"credPrefix,omitempty"` // spelling of this case's valid credentials (see caseCtx)
}

// countingWriter observes how a response is written.
type countingWriter struct {
	hdr     http.Header
	status  int
	writes  int // number of WriteHeader calls (an implicit one counts)
	body    bytes.Buffer
	wrote   bool
	snapHdr http.Header
	fail    bool
}

func (w *countingWriter) Header() http.Header { return w.hdr }
func (w *countingWriter) WriteHeader(code int) {
	w.writes++
	if !w.wrote {
		w.wrote = true
		w.status = code
		w.snapHdr = w.hdr.Clone()
	}
}
func (w *countingWriter) Write(bs []byte) (int, error) {
	if !w.wrote {
		w.WriteHeader(200)
	}
	if w.fail {
		return 0, fmt.Errorf("write: broken pipe")
	}
	return w.body.Write(bs)
}

// Serve runs one request and records Req … Done.
func Serve(h http.Handler, rec *Recorder, c ReqCase) {
	ev := Event{"ev": "Req", "case": c.ID, "method": c.Method, "path": c.Path, "rawQuery": c.RawQuery}
	for k, v := range c.Abs {
		ev[k] = v
	}
	rec.Emit(ev)
	var body io.ReadCloser = http.NoBody
	var bodyLen int64
	if c.HasBody {
		bs := []byte(c.Body)
		if c.BodyB64 {
			bs = unb64(c.Body)
		}
		body = newPlannedBody(bs, "request", c.Reads)
		bodyLen = int64(len(bs))
	}
	r := &http.Request{
		Method: c.Method, URL: &url.URL{Path: c.Path, RawPath: c.RawPath, RawQuery: c.RawQuery}, Proto: "HTTP/1.1", ProtoMajor: 1, ProtoMinor: 1,
		Header: http.Header{}, Body: body, Host: "example.test", RequestURI: c.Path,
	}
	// what a net/http server hands to the handler: the announced length, or -1 for a chunked body
	r.ContentLength = bodyLen
	if c.Chunked && c.HasBody {
		r.ContentLength = -1
		r.TransferEncoding = []string{"chunked"}
	}
	for k, vs := range c.Headers {
		for _, v := range vs {
			r.Header.Add(k, v)
		}
	}
	ctx := context.WithValue(context.Background(), keyCase, &caseCtx{id: c.ID, script: c.Script, credPrefix: c.CredPrefix, api: h})
	if c.Cancelled {
		cctx, cancel := context.WithCancel(ctx)
		cancel()
		ctx = cctx
	}
	r = r.WithContext(ctx)
	w := &countingWriter{hdr: http.Header{}, fail: c.FailWrites}
	done := Event{"ev": "Done", "case": c.ID}
	func() {
		defer func() {
			if p := recover(); p != nil {
				done["panic"] = fmt.Sprintf("%v\n%s", p, debug.Stack())
			}
		}()
		h.ServeHTTP(w, r)
	}()
	if _, ok := done["panic"]; !ok {
		done["panic"] = ""
	}
	done["status"] = w.status
	done["writes"] = w.writes
	hdr := w.snapHdr
	if hdr == nil {
		hdr = http.Header{}
	}
	done["hdr"] = map[string][]string(hdr)
	done["ctype"] = hdr.Get("Content-Type")
	done["body"] = b64(w.body.Bytes())
	rec.Emit(done)
}
