package driver

import (
	"encoding/base64"
	"math/rand"
)

func unb64(s string) []byte {
	bs, err := base64.StdEncoding.DecodeString(s)
	if err != nil {
		return []byte(s)
	}
	return bs
}

func newRng(seed int64) *rand.Rand { return rand.New(rand.NewSource(seed)) }
