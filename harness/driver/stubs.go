package driver

type WireCase struct{}
type ConcurrentConfig struct{}

func RunIface(reg Registry, rec *Recorder)               {}
func RunWire(reg Registry, rec *Recorder, g Group)       {}
func RunConcurrent(reg Registry, rec *Recorder, g Group) {}
