package driver

type CodecCase struct{}
type WireCase struct{}
type ConcurrentConfig struct{}

func RunIface(reg Registry, rec *Recorder)                 {}
func RunCodec(reg Registry, rec *Recorder, cs []CodecCase) {}
func RunWire(reg Registry, rec *Recorder, g Group)         {}
func RunConcurrent(reg Registry, rec *Recorder, g Group)   {}
