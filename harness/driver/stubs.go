package driver

// RunIface reports, per operation, the distinct concrete package types implementing its response interface.
func RunIface(reg Registry, rec *Recorder) {
	ops, err := Ops(reg)
	if err != nil {
		rec.Emit(Event{"ev": "DriverError", "err": err.Error()})
		return
	}
	for _, op := range ops {
		seen := map[string]bool{}
		var names []string
		for _, n := range Implementers(reg, op.RespType) {
			t := reg.Types[n]
			key := t.PkgPath() + "." + t.Name() // aliases share one reflect.Type
			if !seen[key] {
				seen[key] = true
				names = append(names, t.Name())
			}
		}
		if names == nil {
			names = []string{}
		}
		rec.Emit(Event{"ev": "Iface", "op": op.ID(), "implementers": names})
	}
}
