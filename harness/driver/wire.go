package driver

import (
	"bytes"
	"context"
	"encoding/json"
	"fmt"
	"io"
	"math/rand"
	"net/http"
	"net/url"
	"reflect"
	"runtime/debug"
	"strings"
)

// WireCase is one call through the generated Client against the generated API (in-process).
type WireCase struct {
	ID           string `json:"id"`
	Op           string `json:"op"`   // "<METHOD> <template>"
	Seed         int64  `json:"seed"` // request values
	RespSeed     int64  `json:"respSeed"`
	RespType     string `json:"respType"`     // response type the handler returns ("" = seeded choice among implementers)
	InjectStatus int    `json:"injectStatus"` // > 0: the HTTP client answers with this status and an empty body, the server is not involved
	DefaultCode  int    `json:"defaultCode"`  // > 0: the handler returns the default response with this status code
	// Fill: the request value, spelled out (an abstract value of the <Op>Params type); no random fill, no domain fix.
	Fill json.RawMessage `json:"fill,omitempty"`
	// FailWrite: the server-side ResponseWriter's Write fails for this call (the client went away); what matters is
	// what the *following* calls on the same API value put on the wire
	FailWrite bool `json:"failWrite,omitempty"`
	// Reads: how the request body reaches the server and the response body the client (a behaviour of Stream.tla's source)
	Reads *ReadPlan `json:"reads,omitempty"`

	byStatus bool
}

var pathStrings = []string{"abc", "a b", "x&y=z", "50%", "q?r#s", "é☃", "+plus+", "a;b,c", "~tilde", "0", "-", "..x", "colon:semi", "@at", "$d", "(p)", "*star", "'q'", "%2F", "a%20b", ".", "..", "...", ".hidden"}
var headerStrings = []string{"abc", "a b", "with;semi=colon", "comma,separated", "\"quoted\"", "tab-free value", "x", "0", "UPPER lower", "key=value; other=1", "~!@#$%^&*()_+",
	// values in the syntax of other layers, which are just text here: MIME encoded-words, percent-escapes, a quoted-printable tail
	"=?utf-8?q?caf=C3=A9?= (raw subject)", "=?UTF-8?B?0J/RgNC40LLQtdGC?=", "=?utf-8?q?a?= =?utf-8?q?b?=", "100%25 a%20b", "W/\"etag\"", "a=3D=20"}
var queryStrings = []string{"", "abc", "a b", "a&b=c", "50%", "q?r#s", "é☃\U0001F600", "+plus+", "a;b", "new\nline", "\"quoted\"", "a/b/c", "%2F", "a,b", "Doe, John", ","}

// fixDomain brings a random Params value into the domain of C09 (DESIGN §11): path values non-empty,
// '/'-free and not "." / ".."; header values visible ASCII with inner spaces only; arrays non-empty.
func fixDomain(v reflect.Value, loc string, r *rand.Rand) {
	t := v.Type()
	if t == tTime || t == tRawMessage {
		return
	}
	if k := wrapperKind(t); k != "" {
		if v.Field(0).Bool() {
			fixDomain(v.Field(1), loc, r)
		}
		return
	}
	switch t.Kind() {
	case reflect.String:
		switch loc {
		case "path":
			v.SetString(pathStrings[r.Intn(len(pathStrings))])
		case "headers":
			v.SetString(headerStrings[r.Intn(len(headerStrings))])
		case "query":
			v.SetString(queryStrings[r.Intn(len(queryStrings))])
		}
	case reflect.Slice:
		if loc == "query" || loc == "headers" || loc == "path" {
			if v.Len() == 0 {
				s := reflect.MakeSlice(t, 1+r.Intn(2), 3)
				for i := 0; i < s.Len(); i++ {
					RandomFill(s.Index(i), r, 2)
				}
				v.Set(s)
			}
			for i := 0; i < v.Len(); i++ {
				fixDomain(v.Index(i), loc, r)
			}
			if loc == "query" && t.Elem().Kind() == reflect.String && r.Intn(5) == 0 {
				// a list of ONE string that holds list separators (the pools have grown: this shape must not thin out)
				s := reflect.MakeSlice(t, 1, 1)
				s.Index(0).SetString([]string{"a,b", "Doe, John", ",", "red,green", "1,2,3"}[r.Intn(5)])
				v.Set(s)
			}
		}
	case reflect.Struct:
		for i := 0; i < t.NumField(); i++ {
			if !t.Field(i).IsExported() {
				continue
			}
			l := loc
			if loc == "" {
				l = norm(t.Field(i).Name)
				if l == "body" {
					continue
				}
			}
			fixDomain(v.Field(i), l, r)
		}
	}
}

type wireCtx struct {
	rec       *Recorder
	caseID    string
	api       http.Handler
	inject    int
	failWrite bool
	reads     *ReadPlan
}

func RunWire(reg Registry, rec *Recorder, g Group) {
	api, err := NewAPI(reg, g.API, rec)
	if err != nil {
		rec.Emit(Event{"ev": "DriverError", "err": err.Error()})
		return
	}
	ops, _ := Ops(reg)
	clientT, ok := reg.Types["Client"]
	if !ok {
		rec.Emit(Event{"ev": "DriverError", "err": "no Client type (generate with client on)"})
		return
	}
	newClient := reflect.ValueOf(reg.Funcs["NewClient"])
	fnT, ok := reg.Types["HTTPClientFunc"]
	if !newClient.IsValid() || !ok {
		rec.Emit(Event{"ev": "DriverError", "err": "no NewClient / HTTPClientFunc"})
		return
	}
	cur := &wireCtx{rec: rec, api: api}
	doer := reflect.MakeFunc(fnT, func(args []reflect.Value) []reflect.Value {
		req := args[0].Interface().(*http.Request)
		resp, err := cur.do(req)
		errV := reflect.Zero(tError)
		if err != nil {
			errV = reflect.ValueOf(&err).Elem()
		}
		return []reflect.Value{reflect.ValueOf(resp), errV}
	})
	// (the base URL a caller hands over is a URL: a base path with characters that need escaping is given escaped)
	client := newClient.Call([]reflect.Value{reflect.ValueOf("http://example.test" + (&url.URL{Path: g.Base}).EscapedPath()), doer})[0]
	if g.Local {
		// the pairing the generated package itself offers: API.LocalClient() (no recording transport in between)
		m := reflect.ValueOf(api).MethodByName("LocalClient")
		if !m.IsValid() || m.Type().NumIn() != 0 || m.Type().NumOut() != 1 {
			rec.Emit(Event{"ev": "DriverError", "err": "no API.LocalClient()"})
			return
		}
		client = m.Call(nil)[0]
	}
	_ = clientT
	if g.ByStatus {
		ProbeStatuses(reg, api, g.Base, rec)
	}
	for _, wc := range g.Wire {
		wc.byStatus = g.ByStatus
		runWireCase(reg, rec, ops, client, cur, wc)
	}
}

func (w *wireCtx) do(req *http.Request) (*http.Response, error) {
	var body []byte
	if req.Body != nil {
		body, _ = io.ReadAll(req.Body)
		req.Body.Close()
	}
	w.rec.Emit(Event{"ev": "Wire", "case": w.caseID, "method": req.Method, "path": req.URL.Path, "escapedPath": req.URL.EscapedPath(), "rawQuery": req.URL.RawQuery,
		"host": req.URL.Host, "hdr": map[string][]string(req.Header), "body": b64(body), "hasBody": req.Body != nil && req.Body != http.NoBody})
	if w.inject > 0 {
		return &http.Response{StatusCode: w.inject, Status: fmt.Sprint(w.inject), Header: http.Header{}, Body: http.NoBody, Request: req}, nil
	}
	// what a server would see: a fresh request with the same line, headers and body
	sreq := req.Clone(req.Context())
	sreq.Body = newPlannedBody(body, "request", w.reads)
	sreq.RequestURI = req.URL.RequestURI()
	if req.ContentLength == 0 && len(body) > 0 {
		// the client did not know the length: it goes out chunked and a server sees -1
		sreq.ContentLength = -1
		sreq.TransferEncoding = []string{"chunked"}
	}
	cw := &countingWriter{hdr: http.Header{}, fail: w.failWrite}
	var pan any
	func() {
		defer func() {
			if p := recover(); p != nil {
				pan = fmt.Sprintf("%v\n%s", p, debug.Stack())
			}
		}()
		w.api.ServeHTTP(cw, sreq)
	}()
	if pan != nil {
		w.rec.Emit(Event{"ev": "ServerPanic", "case": w.caseID, "panic": pan})
		return nil, fmt.Errorf("server panicked: %s", strings.SplitN(fmt.Sprint(pan), "\n", 2)[0])
	}
	hdr := cw.snapHdr
	if hdr == nil {
		hdr = http.Header{}
	}
	status := cw.status
	if !cw.wrote {
		status = 200
	}
	w.rec.Emit(Event{"ev": "ServerDone", "case": w.caseID, "status": status, "writes": cw.writes, "hdr": map[string][]string(hdr), "body": b64(cw.body.Bytes())})
	rb := newPlannedBody(cw.body.Bytes(), "response", w.reads)
	rb.ctx = req.Context()
	return &http.Response{StatusCode: status, Status: fmt.Sprint(status), Header: hdr, Body: rb, Request: req,
		ContentLength: int64(cw.body.Len())}, nil
}

func runWireCase(reg Registry, rec *Recorder, ops []OpInfo, client reflect.Value, cur *wireCtx, wc WireCase) {
	var op *OpInfo
	for i := range ops {
		if ops[i].ID() == wc.Op {
			op = &ops[i]
		}
	}
	if op == nil {
		rec.Emit(Event{"ev": "DriverError", "err": "unknown operation " + wc.Op})
		return
	}
	// the client method of this operation: the one whose result type is the operation's response interface
	var method reflect.Value
	ct := client.Type()
	for i := 0; i < ct.NumMethod(); i++ {
		mt := ct.Method(i).Type
		if mt.NumIn() == 3 && mt.NumOut() == 2 && mt.Out(0) == op.RespType {
			method = client.Method(i)
		}
	}
	if !method.IsValid() {
		rec.Emit(Event{"ev": "DriverError", "err": "no client method for " + wc.Op})
		return
	}
	paramsT := method.Type().In(1)
	params := reflect.New(paramsT).Elem()
	r := newRng(wc.Seed)
	if len(wc.Fill) > 0 && string(wc.Fill) != "null" {
		var av AVal
		if err := json.Unmarshal(wc.Fill, &av); err != nil {
			rec.Emit(Event{"ev": "DriverError", "err": "bad fill: " + err.Error()})
			return
		}
		if err := Build(params, av); err != nil {
			rec.Emit(Event{"ev": "DriverError", "err": "cannot build " + wc.Op + ": " + err.Error()})
			return
		}
	} else {
		RandomFill(params, r, 0)
		fixDomain(params, "", r)
	}
	// a raw body: make it re-readable so that it can be projected without being consumed
	if f := params.FieldByName("Body"); f.IsValid() && f.Kind() == reflect.Interface {
		bs := []byte(queryStrings[r.Intn(len(queryStrings))] + "\x00\xffraw")
		rd := io.Reader(bytes.NewReader(bs))
		if r.Intn(2) == 0 {
			rd = &opaqueReader{r: bytes.NewReader(bs)} // a reader of unknown length (a pipe, a file, a MultiReader ...)
		}
		if reflect.TypeOf(&rd).Elem().AssignableTo(f.Type()) || reflect.TypeOf(rd).AssignableTo(f.Type()) {
			f.Set(reflect.ValueOf(rd))
		} else {
			rc := io.NopCloser(bytes.NewReader(bs))
			if reflect.TypeOf(rc).AssignableTo(f.Type()) {
				f.Set(reflect.ValueOf(rc))
			}
		}
	}
	rec.Emit(Event{"ev": "Call", "case": wc.ID, "op": wc.Op, "sent": ProjectParams(params, false), "inject": wc.InjectStatus})
	cur.caseID = wc.ID
	cur.inject = wc.InjectStatus
	cur.failWrite = wc.FailWrite
	cur.reads = wc.Reads
	script := Script{Parse: true, ReadBody: true, Resp: wc.RespType, Random: true, Seed: wc.RespSeed, Code: 210 + int(wc.RespSeed%80), ByStatus: wc.byStatus} // never a documented status of the universe (200, 201, 404)
	if wc.DefaultCode > 0 {
		script.Default, script.Code = true, wc.DefaultCode
	}
	ctx := context.WithValue(context.Background(), keyCase, &caseCtx{id: wc.ID, script: script})
	ret := Event{"ev": "Return", "case": wc.ID, "panic": ""}
	func() {
		defer func() {
			if p := recover(); p != nil {
				ret["panic"] = fmt.Sprintf("%v\n%s", p, debug.Stack())
			}
		}()
		outs := method.Call([]reflect.Value{reflect.ValueOf(ctx), params})
		if !outs[1].IsNil() {
			ret["ok"] = false
			ret["err"] = outs[1].Interface().(error).Error()
			return
		}
		ret["ok"] = true
		rv := outs[0]
		if rv.Kind() == reflect.Interface && !rv.IsNil() {
			rv = rv.Elem()
		}
		ret["type"] = rv.Type().Name()
		ret["value"] = projectResponse(rv)
	}()
	rec.Emit(ret)
}

type httpRequest = http.Request

// setReader puts a re-readable byte reader into an io.Reader / io.ReadCloser field.
func setReader(f reflect.Value, bs []byte) {
	rd := io.Reader(bytes.NewReader(bs))
	if reflect.TypeOf(&rd).Elem().AssignableTo(f.Type()) || reflect.TypeOf(rd).AssignableTo(f.Type()) {
		f.Set(reflect.ValueOf(rd))
		return
	}
	rc := io.NopCloser(bytes.NewReader(bs))
	if reflect.TypeOf(rc).AssignableTo(f.Type()) {
		f.Set(reflect.ValueOf(rc))
	}
}

// projectResponse projects a response value, reading a raw body so that it can be compared.
func projectResponse(rv reflect.Value) AVal {
	if rv.Kind() == reflect.Struct {
		if f := rv.FieldByName("Body"); f.IsValid() && f.Kind() == reflect.Interface && !f.IsNil() {
			if rd, ok := f.Interface().(io.Reader); ok {
				bs, rerr := io.ReadAll(rd)
				cp := reflect.New(rv.Type()).Elem()
				cp.Set(rv)
				rc := io.NopCloser(bytes.NewReader(bs))
				if reflect.TypeOf(rc).AssignableTo(f.Type()) {
					cp.FieldByName("Body").Set(reflect.ValueOf(rc))
				}
				a := Project(cp)
				for i := range a.F {
					if a.F[i].N == "body" {
						a.F[i].V = AVal{T: "leaf", S: "r:" + b64(bs)}
						if rerr != nil {
							// the body the client handed over cannot be read (closed before it was returned)
							a.F[i].V = AVal{T: "leaf", S: "r:!" + rerr.Error()}
						}
					}
				}
				return a
			}
		}
	}
	return Project(rv)
}

var _ = strings.Contains
