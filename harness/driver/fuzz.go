package driver

import (
	"context"
	"fmt"
	"math/rand"
	"net/http"
	"net/url"
	"runtime/debug"
	"strings"
)

// FuzzConfig: n seeded byte-level random requests near the declared shapes of the package's operations.
type FuzzConfig struct {
	Seed int64    `json:"seed"`
	N    int      `json:"n"`
	Base string   `json:"base"`
	Tag  string   `json:"tag"`
	Seen []string `json:"seen"` // query / header names worth trying (declared parameter names)
}

var fuzzMethods = []string{"GET", "POST", "PUT", "DELETE", "PATCH", "OPTIONS", "HEAD", "TRACE", "CONNECT", "", "get", "BREW", "G ET"}
var fuzzSegs = []string{"", "a", "%", "%2F", "%zz", "..", ".", "é", "\x00", "\xff\xfe", " ", "{x}", "*", strings.Repeat("a", 4096), "0", "-1", "true", "1e309", "2024-01-02T03:04:05Z", "null", "9223372036854775808", "a b", "+", ";", "?", "#"}
var fuzzBodies = []string{"", "{", "}", "[", "null", "true", "0", "\"s\"", "[]", "{}", "{\"a\":}", "{\"a\":1}garbage", "[1,2", strings.Repeat("[", 2000), strings.Repeat("{\"a\":", 500) + "1" + strings.Repeat("}", 500),
	"{\"id\":\"x\",\"name\":7,\"tags\":{},\"at\":1}", "{\"id\":1e400}", "{\"count\":2147483648}", "\xff\xfe\x00", "{\"id\":1,\"id\":2}", "{\"a\":\"\\ud800\"}", " \n\t", "1 2", "{\"count\":1,\"note\":null,\"x\":{}}"}

// RunFuzz serves n random requests and emits one summary event (plus the first offenders).
func RunFuzz(reg Registry, rec *Recorder, g Group) {
	cfg := g.Fuzz
	h, err := NewAPI(reg, g.API, &Recorder{}) // call-back events are not needed here
	if err != nil {
		rec.Emit(Event{"ev": "DriverError", "err": err.Error()})
		return
	}
	ops, _ := Ops(reg)
	r := rand.New(rand.NewSource(cfg.Seed))
	panics, badWrites, parsePanics, handlerRuns := 0, 0, 0, 0
	var offenders []map[string]any
	inner := &Recorder{}
	h, _ = NewAPI(reg, g.API, inner)
	for i := 0; i < cfg.N; i++ {
		// start from a declared operation's template most of the time
		method := fuzzMethods[r.Intn(len(fuzzMethods))]
		path := cfg.Base
		if len(ops) > 0 && r.Intn(8) != 0 {
			op := ops[r.Intn(len(ops))]
			if r.Intn(3) != 0 {
				method = op.Method
			}
			for _, seg := range strings.Split(strings.TrimPrefix(op.Path, "/"), "/") {
				switch {
				case strings.HasPrefix(seg, "{") || r.Intn(6) == 0:
					path += "/" + fuzzSegs[r.Intn(len(fuzzSegs))]
				default:
					path += "/" + seg
				}
				if r.Intn(12) == 0 {
					break
				}
				if r.Intn(15) == 0 {
					path += "/"
				}
			}
		} else {
			for n := r.Intn(5); n > 0; n-- {
				path += "/" + fuzzSegs[r.Intn(len(fuzzSegs))]
			}
		}
		if r.Intn(10) == 0 {
			path = strings.TrimPrefix(path, "/")
		}
		q := url.Values{}
		hdr := http.Header{}
		for _, name := range cfg.Seen {
			if r.Intn(2) == 0 {
				for k := r.Intn(3); k >= 0; k-- {
					q.Add(name, fuzzSegs[r.Intn(len(fuzzSegs))])
				}
			}
			if r.Intn(2) == 0 {
				for k := r.Intn(2); k >= 0; k-- {
					hdr.Add(name, fuzzSegs[r.Intn(len(fuzzSegs))])
				}
			}
		}
		rawQuery := q.Encode()
		if r.Intn(10) == 0 {
			rawQuery += "&%zz=%&=&;;&a=%f"
		}
		if r.Intn(4) == 0 {
			hdr.Set("Authorization", []string{"Bearer valid-A", "Bearer", "", "Basic !!!", "Bearer  x"}[r.Intn(5)])
		}
		if r.Intn(4) == 0 {
			hdr.Set("Content-Type", []string{"application/json", "text/plain", "", "application/json; charset=x"}[r.Intn(4)])
		}
		body := fuzzBodies[r.Intn(len(fuzzBodies))]
		req := &http.Request{Method: method, URL: &url.URL{Path: path, RawQuery: rawQuery}, Proto: "HTTP/1.1", ProtoMajor: 1, ProtoMinor: 1, Header: hdr, Host: "example.test",
			Body: newNetBody([]byte(body), "request")}
		if r.Intn(20) == 0 {
			req.Body = http.NoBody
		}
		id := fmt.Sprintf("%s-f%d", cfg.Tag, i)
		req = req.WithContext(context.WithValue(context.Background(), keyCase, &caseCtx{id: id, script: Script{Parse: true, ReadBody: true}}))
		w := &countingWriter{hdr: http.Header{}}
		pan := ""
		func() {
			defer func() {
				if p := recover(); p != nil {
					pan = fmt.Sprintf("%v\n%s", p, debug.Stack())
				}
			}()
			h.ServeHTTP(w, req)
		}()
		bad := false
		if pan != "" {
			panics++
			bad = true
		} else if w.writes != 1 {
			badWrites++
			bad = true
		}
		for _, e := range inner.Take() {
			if e["ev"] == "Handler" {
				handlerRuns++
			}
			if e["ev"] == "Parse" {
				if p, _ := e["panic"].(string); p != "" {
					parsePanics++
					bad = true
					pan = p
				}
			}
		}
		if bad && len(offenders) < 5 {
			offenders = append(offenders, map[string]any{"method": method, "path": path, "rawQuery": rawQuery, "headers": map[string][]string(hdr), "body": b64([]byte(body)), "writes": w.writes, "panic": pan})
		}
	}
	rec.Emit(Event{"ev": "Fuzz", "case": cfg.Tag, "n": cfg.N, "panics": panics, "badWrites": badWrites, "parsePanics": parsePanics, "handlerRuns": handlerRuns, "offenders": offenders})
}
