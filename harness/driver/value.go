package driver

import (
	"bytes"
	"context"
	"encoding/json"
	"fmt"
	"io"
	"math"
	"math/rand"
	"reflect"
	"sort"
	"strconv"
	"strings"
	"time"
)

// AVal is the abstract form of a generated Go value (and what the TLA+ judge sees).
//
//	leaf     S = token: i:<int> f:<float64> g:<float32> s:<text> b:<bool> t:<sec>.<nsec> j:<canonical json> r:<base64 bytes>
//	maybe    Set, M (inner when set)      – Maybe[T]
//	nullable Set, M                        – Nullable[T]
//	struct   F = fields in declaration order, names normalised (lower-case alphanumerics); an
//	         embedded struct (allOf $ref member) appears as a field whose Emb is true
//	list     L (nil and empty identified)
//	map      KV sorted by key (nil and empty identified)
type AVal struct {
	T   string   `json:"t"`
	S   string   `json:"s,omitempty"`
	Set bool     `json:"set,omitempty"`
	M   *AVal    `json:"m,omitempty"`
	F   []AField `json:"f,omitempty"`
	L   []AVal   `json:"l,omitempty"`
	KV  []AKV    `json:"kv,omitempty"`
}

type AField struct {
	N   string `json:"n"`
	Go  string `json:"go,omitempty"`
	Emb bool   `json:"emb,omitempty"`
	V   AVal   `json:"v"`
}

type AKV struct {
	K string `json:"k"`
	V AVal   `json:"v"`
}

var (
	tTime       = reflect.TypeOf(time.Time{})
	tRawMessage = reflect.TypeOf(json.RawMessage{})
	tReader     = reflect.TypeOf((*io.Reader)(nil)).Elem()
)

// Norm is the name normalisation shared by the harness and the model: lower-case alphanumerics.
func Norm(s string) string { return norm(s) }

func wrapperKind(t reflect.Type) string {
	if t.Kind() != reflect.Struct || t.NumField() != 2 {
		return ""
	}
	if t.Field(0).Name != "IsSet" || t.Field(0).Type.Kind() != reflect.Bool || t.Field(1).Name != "Value" {
		return ""
	}
	n := t.Name()
	switch {
	case strings.HasPrefix(n, "Maybe["):
		return "maybe"
	case strings.HasPrefix(n, "Nullable["):
		return "nullable"
	}
	return ""
}

func canonJSON(v any) string {
	bs, err := json.Marshal(v)
	if err != nil {
		return "!" + err.Error()
	}
	return string(bs)
}

// Project maps a Go value of a generated type to its abstract form.
func Project(v reflect.Value) AVal {
	t := v.Type()
	if t != tTime && t.Kind() == reflect.Struct && t.ConvertibleTo(tTime) {
		return Project(v.Convert(tTime)) // a named type whose underlying type is time.Time
	}
	if t == tTime {
		tm := v.Interface().(time.Time)
		return AVal{T: "leaf", S: fmt.Sprintf("t:%d.%09d", tm.Unix(), tm.Nanosecond())}
	}
	if t == tRawMessage {
		var x any
		if err := json.Unmarshal(v.Bytes(), &x); err != nil {
			return AVal{T: "leaf", S: "j:!invalid:" + string(v.Bytes())}
		}
		return AVal{T: "leaf", S: "j:" + canonJSON(x)}
	}
	if k := wrapperKind(t); k != "" {
		if !v.Field(0).Bool() {
			return AVal{T: k, Set: false}
		}
		m := Project(v.Field(1))
		return AVal{T: k, Set: true, M: &m}
	}
	switch t.Kind() {
	case reflect.Bool:
		return AVal{T: "leaf", S: "b:" + strconv.FormatBool(v.Bool())}
	case reflect.Int, reflect.Int8, reflect.Int16, reflect.Int32, reflect.Int64:
		return AVal{T: "leaf", S: "i:" + strconv.FormatInt(v.Int(), 10)}
	case reflect.Uint, reflect.Uint8, reflect.Uint16, reflect.Uint32, reflect.Uint64:
		return AVal{T: "leaf", S: "i:" + strconv.FormatUint(v.Uint(), 10)}
	case reflect.Float64:
		return AVal{T: "leaf", S: "f:" + strconv.FormatFloat(v.Float(), 'g', -1, 64)}
	case reflect.Float32:
		return AVal{T: "leaf", S: "g:" + strconv.FormatFloat(v.Float(), 'g', -1, 32)}
	case reflect.String:
		return AVal{T: "leaf", S: "s:" + v.String()}
	case reflect.Slice, reflect.Array:
		out := AVal{T: "list", L: []AVal{}}
		for i := 0; i < v.Len(); i++ {
			out.L = append(out.L, Project(v.Index(i)))
		}
		return out
	case reflect.Map:
		out := AVal{T: "map", KV: []AKV{}}
		keys := v.MapKeys()
		sort.Slice(keys, func(i, j int) bool { return fmt.Sprint(keys[i].Interface()) < fmt.Sprint(keys[j].Interface()) })
		for _, k := range keys {
			out.KV = append(out.KV, AKV{K: fmt.Sprint(k.Interface()), V: Project(v.MapIndex(k))})
		}
		return out
	case reflect.Struct:
		out := AVal{T: "struct", F: []AField{}}
		for i := 0; i < t.NumField(); i++ {
			f := t.Field(i)
			if !f.IsExported() {
				continue
			}
			out.F = append(out.F, AField{N: norm(f.Name), Go: f.Name, Emb: f.Anonymous, V: Project(v.Field(i))})
		}
		return out
	case reflect.Ptr:
		if v.IsNil() {
			return AVal{T: "leaf", S: "nil"}
		}
		return Project(v.Elem())
	case reflect.Interface:
		if v.IsNil() {
			return AVal{T: "leaf", S: "j:null"}
		}
		if t.Implements(tReader) || v.Elem().Type().Implements(tReader) {
			if rd, ok := v.Interface().(io.Reader); ok {
				if or, ok := rd.(*opaqueReader); ok {
					rd = or.r
				}
				if br, ok := rd.(*bytes.Reader); ok {
					// do not consume
					bs := make([]byte, br.Len())
					br.ReadAt(bs, br.Size()-int64(br.Len()))
					return AVal{T: "leaf", S: "r:" + b64(bs)}
				}
				return AVal{T: "leaf", S: "r:?"}
			}
		}
		return AVal{T: "leaf", S: "j:" + canonJSON(v.Interface())}
	}
	return AVal{T: "leaf", S: "?" + t.String()}
}

// ProjectParams projects an <Op>Params value; a raw (io.Reader) body is read when readBody is set.
func ProjectParams(v reflect.Value, readBody bool) AVal {
	if v.Kind() == reflect.Struct {
		if f := v.FieldByName("Body"); f.IsValid() && f.Kind() == reflect.Interface && !f.IsNil() && readBody {
			if rd, ok := f.Interface().(io.Reader); ok {
				bs, _ := io.ReadAll(rd)
				cp := reflect.New(v.Type()).Elem()
				cp.Set(v)
				cp.FieldByName("Body").Set(reflect.ValueOf(io.Reader(bytes.NewReader(bs))))
				return Project(cp)
			}
		}
	}
	return Project(v)
}

// Build sets v (addressable) from the abstract value.
func Build(v reflect.Value, a AVal) error {
	t := v.Type()
	if t != tTime && t.Kind() == reflect.Struct && t.ConvertibleTo(tTime) {
		tv := reflect.New(tTime).Elem()
		if err := Build(tv, a); err != nil {
			return err
		}
		v.Set(tv.Convert(t))
		return nil
	}
	if t == tTime {
		var sec, nsec int64
		if _, err := fmt.Sscanf(strings.TrimPrefix(a.S, "t:"), "%d.%d", &sec, &nsec); err != nil {
			return fmt.Errorf("bad time token %q", a.S)
		}
		// zone token: t:<sec>.<nsec>@<offset seconds>
		tm := time.Unix(sec, nsec).UTC()
		if i := strings.Index(a.S, "@"); i >= 0 {
			off, _ := strconv.Atoi(a.S[i+1:])
			tm = tm.In(time.FixedZone("", off))
		}
		v.Set(reflect.ValueOf(tm))
		return nil
	}
	if t == tRawMessage {
		v.SetBytes([]byte(strings.TrimPrefix(a.S, "j:")))
		return nil
	}
	if k := wrapperKind(t); k != "" {
		if a.T != k {
			return fmt.Errorf("want %s for %s, got %s", k, t, a.T)
		}
		v.Field(0).SetBool(a.Set)
		if a.Set && a.M != nil {
			return Build(v.Field(1), *a.M)
		}
		return nil
	}
	tok := a.S
	body := tok
	if i := strings.Index(tok, ":"); i >= 0 {
		body = tok[i+1:]
	}
	switch t.Kind() {
	case reflect.Bool:
		v.SetBool(body == "true")
	case reflect.Int, reflect.Int8, reflect.Int16, reflect.Int32, reflect.Int64:
		n, err := strconv.ParseInt(body, 10, 64)
		if err != nil {
			return err
		}
		v.SetInt(n)
	case reflect.Uint, reflect.Uint8, reflect.Uint16, reflect.Uint32, reflect.Uint64:
		n, err := strconv.ParseUint(body, 10, 64)
		if err != nil {
			return err
		}
		v.SetUint(n)
	case reflect.Float32, reflect.Float64:
		f, err := strconv.ParseFloat(body, 64)
		if err != nil {
			return err
		}
		v.SetFloat(f)
	case reflect.String:
		v.SetString(body)
	case reflect.Slice:
		s := reflect.MakeSlice(t, len(a.L), len(a.L))
		for i := range a.L {
			if err := Build(s.Index(i), a.L[i]); err != nil {
				return err
			}
		}
		if len(a.L) == 0 && a.S == "nil" {
			s = reflect.Zero(t)
		}
		v.Set(s)
	case reflect.Map:
		if len(a.KV) == 0 && a.S == "nil" {
			v.Set(reflect.Zero(t))
			return nil
		}
		m := reflect.MakeMapWithSize(t, len(a.KV))
		for _, kv := range a.KV {
			e := reflect.New(t.Elem()).Elem()
			if err := Build(e, kv.V); err != nil {
				return err
			}
			m.SetMapIndex(reflect.ValueOf(kv.K).Convert(t.Key()), e)
		}
		v.Set(m)
	case reflect.Struct:
		for _, f := range a.F {
			var fv reflect.Value
			for i := 0; i < t.NumField(); i++ {
				if norm(t.Field(i).Name) == f.N && t.Field(i).IsExported() {
					fv = v.Field(i)
					break
				}
			}
			if !fv.IsValid() {
				return fmt.Errorf("no field %q in %s", f.N, t)
			}
			if err := Build(fv, f.V); err != nil {
				return fmt.Errorf("%s: %w", f.N, err)
			}
		}
	case reflect.Interface:
		switch {
		case strings.HasPrefix(tok, "r:"):
			rc := io.NopCloser(bytes.NewReader(unb64(body)))
			if reflect.TypeOf(rc).AssignableTo(t) {
				v.Set(reflect.ValueOf(rc))
			} else {
				return fmt.Errorf("cannot assign reader to %s", t)
			}
		case strings.HasPrefix(tok, "j:"):
			var x any
			if err := json.Unmarshal([]byte(body), &x); err != nil {
				return err
			}
			if x == nil {
				v.Set(reflect.Zero(t))
			} else {
				v.Set(reflect.ValueOf(x))
			}
		default:
			return fmt.Errorf("cannot build interface from %q", tok)
		}
	default:
		return fmt.Errorf("cannot build %s", t)
	}
	return nil
}

// ---- seeded random values -------------------------------------------------

var mustEscapeStrings = []string{"with \"quote\"", "back\\slash", "new\nline", "tab\t", "\u0001ctl", "\u0000", "\u001f\u007f", "\r\n", "\b\f", "\"", "\\"}
var trickyStrings = []string{"", "a", "abc", "a b", "with \"quote\"", "back\\slash", "new\nline", "tab\t", "\u0001ctl", "é☃", "\U0001F600", "</script>&<>", "null", "true", "0", "{}", "a/b?c=d&e#f", "100%", "+plus+", "ключ", "a,b", "Doe, John", ",", "x;y=1",
	// text that looks like an escape of some layer but is just text: JSON \u escapes and short escapes spelled out,
	// percent-escapes, HTML entities, a Go format verb
	"C:\\users\\u0026", "write \\u003c to get <", "\\n is not a newline", "\\\"", "%5Cu0026 %26 %%", "&amp; &lt; &#38;", "%d %s %v", "\\", "\\\\u0041"}
var trickyKeys = []string{"k", "key2", "x-y", "with space", "quo\"te", "sl\\ash", "é", "a.b", "0"}
var trickyInt64 = []int64{0, 1, -1, 42, math.MaxInt32, math.MinInt32, math.MaxInt64, math.MinInt64, 1 << 53, -(1 << 53) - 1}
var trickyInt32 = []int64{0, 1, -1, 42, math.MaxInt32, math.MinInt32, 65536}
var trickyF64 = []float64{0, 1.5, -2.25, 1e21, 1e-7, math.MaxFloat64, math.SmallestNonzeroFloat64, 123456789.125, -0.0, 3}
var trickyF32 = []float64{0, 1.5, -2.25, math.MaxFloat32, math.SmallestNonzeroFloat32, 16777217, 3}
var trickyAny = []string{`null`, `1`, `"s"`, `true`, `{"a":1,"b":[1,2,{"c":null}]}`, `[1,"x",null]`, `1.5`, `{}`, `[]`, `"quo\"te"`}

func trickyTime(r *rand.Rand) time.Time {
	switch r.Intn(6) {
	case 0:
		return time.Date(2024, 1, 2, 3, 4, 5, 0, time.UTC)
	case 1:
		return time.Date(2024, 2, 29, 23, 59, 59, 123456789, time.FixedZone("", 2*3600))
	case 2:
		return time.Date(1969, 12, 31, 23, 59, 59, 999000000, time.FixedZone("", -5*3600-1800))
	case 3:
		return time.Date(9999, 12, 31, 23, 59, 59, 0, time.UTC)
	case 4:
		return time.Date(1, 1, 1, 0, 0, 0, 0, time.UTC)
	}
	return time.Unix(r.Int63n(4e9), r.Int63n(1e9)).UTC()
}

// RandomFill sets v to a seeded random value, biased towards boundary leaves.  A struct
// whose exported fields are all Maybe[...] and that has unmarshalJSON_* style behaviour
// (a oneOf) cannot be recognised by shape alone; callers that need oneOf values pass an
// explicit Fill instead.
func RandomFill(v reflect.Value, r *rand.Rand, depth int) {
	t := v.Type()
	if t != tTime && t.Kind() == reflect.Struct && t.ConvertibleTo(tTime) {
		v.Set(reflect.ValueOf(trickyTime(r)).Convert(t))
		return
	}
	if t == tTime {
		v.Set(reflect.ValueOf(trickyTime(r)))
		return
	}
	if t == tRawMessage {
		v.SetBytes([]byte(trickyAny[r.Intn(len(trickyAny))]))
		return
	}
	if k := wrapperKind(t); k != "" {
		if r.Intn(3) > 0 {
			v.Field(0).SetBool(true)
			RandomFill(v.Field(1), r, depth+1)
		}
		return
	}
	switch t.Kind() {
	case reflect.Bool:
		v.SetBool(r.Intn(2) == 0)
	case reflect.Int32:
		v.SetInt(trickyInt32[r.Intn(len(trickyInt32))])
	case reflect.Int, reflect.Int64:
		v.SetInt(trickyInt64[r.Intn(len(trickyInt64))])
	case reflect.Float64:
		v.SetFloat(trickyF64[r.Intn(len(trickyF64))])
	case reflect.Float32:
		v.SetFloat(trickyF32[r.Intn(len(trickyF32))])
	case reflect.String:
		if r.Intn(60) == 0 {
			// a long value: bodies that do not fit any fixed-size buffer (6 000 characters)
			v.SetString(strings.Repeat("long-", 1200))
			return
		}
		if r.Intn(4) == 0 {
			// (a quarter of the strings need escaping in JSON: the pool has grown, these must not thin out)
			v.SetString(mustEscapeStrings[r.Intn(len(mustEscapeStrings))])
		} else {
			v.SetString(trickyStrings[r.Intn(len(trickyStrings))])
		}
	case reflect.Slice:
		n := r.Intn(4) - 1 // -1: leave the slice nil (the zero value a handler that never appended returns)
		if depth <= 1 && r.Intn(80) == 0 {
			n = 150 // a long list
		}
		if depth > 3 {
			n = 0
		}
		if n < 0 {
			v.Set(reflect.Zero(t))
			return
		}
		s := reflect.MakeSlice(t, n, n)
		for i := 0; i < n; i++ {
			RandomFill(s.Index(i), r, depth+1)
		}
		if t.Elem().Kind() == reflect.String && r.Intn(6) == 0 {
			// (a list of ONE string that holds list separators: the pool has grown, this shape must not thin out)
			s = reflect.MakeSlice(t, 1, 1)
			s.Index(0).SetString([]string{"a,b", "Doe, John", ",", "x;y", "a|b c", "1,2,3"}[r.Intn(6)])
		}
		v.Set(s)
	case reflect.Map:
		n := r.Intn(4) - 1
		if depth > 3 {
			n = 0
		}
		if n < 0 {
			v.Set(reflect.Zero(t))
			return
		}
		m := reflect.MakeMap(t)
		for i := 0; i < n; i++ {
			e := reflect.New(t.Elem()).Elem()
			RandomFill(e, r, depth+1)
			m.SetMapIndex(reflect.ValueOf(trickyKeys[r.Intn(len(trickyKeys))]).Convert(t.Key()), e)
		}
		v.Set(m)
	case reflect.Struct:
		if isOneOfShape(t) {
			i := r.Intn(t.NumField())
			v.Field(i).Field(0).SetBool(true)
			RandomFill(v.Field(i).Field(1), r, depth+1)
			return
		}
		for i := 0; i < t.NumField(); i++ {
			if t.Field(i).IsExported() {
				RandomFill(v.Field(i), r, depth+1)
			}
		}
	case reflect.Interface:
		if t.NumMethod() == 0 {
			var x any
			json.Unmarshal([]byte(trickyAny[r.Intn(len(trickyAny))]), &x)
			if x != nil {
				v.Set(reflect.ValueOf(x))
			}
		} else {
			rc := io.NopCloser(bytes.NewReader([]byte(trickyStrings[r.Intn(len(trickyStrings))])))
			if reflect.TypeOf(rc).AssignableTo(t) {
				v.Set(reflect.ValueOf(rc))
			}
		}
	}
}

// isOneOfShape: a generated oneOf type is a struct all of whose fields are Maybe[...] and which
// has a constructor-independent marker: its pointer type has an unmarshalJSON_<Field> method per field.
func isOneOfShape(t reflect.Type) bool {
	if t.NumField() == 0 {
		return false
	}
	for i := 0; i < t.NumField(); i++ {
		if wrapperKind(t.Field(i).Type) != "maybe" {
			return false
		}
	}
	// unexported methods are not visible to reflect; use the error text of an all-unset marshal
	z := reflect.New(t)
	if m, ok := z.Interface().(json.Marshaler); ok {
		_, err := m.MarshalJSON()
		return err != nil && strings.Contains(err.Error(), "oneOf")
	}
	return false
}

// opaqueReader is a body reader whose length http.NewRequest cannot know (anything but *bytes.Reader, *bytes.Buffer,
// *strings.Reader): the request then says "length unknown" (ContentLength 0 with a body on the client side, -1 on the
// server side).  The projection still looks inside.
type opaqueReader struct{ r *bytes.Reader }

func (o *opaqueReader) Read(p []byte) (int, error) { return o.r.Read(p) }

// ReadStep is one answer of a body source (spec/Stream.tla): hand over N units, announce the end or not.
type ReadStep struct {
	N   int  `json:"n"`
	End bool `json:"end"`
}

// ReadPlan is a complete behaviour of a body source over a body of Units units (emitted by MC_Stream).
type ReadPlan struct {
	Units int        `json:"units"`
	Reads []ReadStep `json:"reads"`
}

// netBody behaves like a body that arrives over a connection (http.Response.Body from a transport, http.Request.Body
// in a server): Read hands out what has arrived so far and fails once the body was closed, as net/http's bodies do.
// With a plan the answers are those of one behaviour of Stream.tla's source, scaled to the length of the body;
// without one they are short pieces of changing length, which the io.Reader contract allows at any time.
type netBody struct {
	r      *bytes.Reader
	n      int
	closed bool
	what   string
	plan   []ReadStep
	unit   int
	left   int             // bytes of the current step not handed over yet (-1: step not started)
	ctx    context.Context // response bodies: the context of the request, which governs reading the body as well
}

func newNetBody(bs []byte, what string) *netBody {
	return &netBody{r: bytes.NewReader(bs), what: what, left: -1}
}

func newPlannedBody(bs []byte, what string, p *ReadPlan) *netBody {
	b := newNetBody(bs, what)
	if p != nil && p.Units > 0 && len(p.Reads) > 0 {
		b.plan = append([]ReadStep{}, p.Reads...)
		b.unit = (len(bs) + p.Units - 1) / p.Units
	}
	return b
}

func (b *netBody) Read(p []byte) (int, error) {
	if b.closed {
		return 0, fmt.Errorf("http: read on closed %s body", b.what)
	}
	if b.ctx != nil && b.ctx.Err() != nil {
		return 0, b.ctx.Err()
	}
	if len(p) == 0 {
		return 0, nil
	}
	if len(b.plan) > 0 {
		st := b.plan[0]
		if b.left < 0 {
			b.left = st.N * b.unit
			if st.End || b.left > b.r.Len() {
				b.left = b.r.Len() // the end is announced with (or after) the last unit
			}
		}
		n := b.left
		if n > len(p) {
			// the consumer offers less room than the step hands over: the rest of the step stays for the next Read
			n = len(p)
		}
		got, _ := b.r.Read(p[:n])
		b.left -= got
		if b.left > 0 {
			return got, nil
		}
		b.plan, b.left = b.plan[1:], -1
		if st.End {
			b.plan = nil
			if b.r.Len() == 0 {
				return got, io.EOF
			}
		}
		return got, nil
	}
	b.n++
	max := 1 + (b.n*37)%509
	if len(p) > max {
		p = p[:max]
	}
	return b.r.Read(p)
}

func (b *netBody) Close() error { b.closed = true; return nil }
