package driver

import (
	"bufio"
	"encoding/json"
	"fmt"
	"os"
)

// Group is a batch of cases against one generated package under one API configuration.
type Group struct {
	Pkg      string            `json:"pkg"`
	Kind     string            `json:"kind"` // pipeline | iface | codec | wire | concurrent
	API      APIConfig         `json:"api"`
	Cases    []ReqCase         `json:"cases"`
	Codec    []CodecCase       `json:"codec"`
	Wire     []WireCase        `json:"wire"`
	Conc     *ConcurrentConfig `json:"conc"`
	Fuzz     FuzzConfig        `json:"fuzz"`
	Tag      string            `json:"tag"`
	Base     string            `json:"base"`     // base URL path of the spec (normal form), for the client
	ByStatus bool              `json:"byStatus"` // wire: scripted handlers choose the response by the status it writes (see ProbeStatuses)
	Local    bool              `json:"local"`    // wire: obtain the client from API.LocalClient() instead of NewClient(origin + base, ...)
}

// Main is called by the generated main.go of a scratch module: driver <jobs.json> <events.ndjson>
func Main(regs map[string]Registry) {
	if len(os.Args) < 3 {
		fmt.Fprintln(os.Stderr, "usage: driver jobs.json events.ndjson")
		os.Exit(2)
	}
	bs, err := os.ReadFile(os.Args[1])
	if err != nil {
		fmt.Fprintln(os.Stderr, err)
		os.Exit(2)
	}
	var groups []Group
	if err := json.Unmarshal(bs, &groups); err != nil {
		fmt.Fprintln(os.Stderr, "bad jobs file:", err)
		os.Exit(2)
	}
	out, err := os.Create(os.Args[2])
	if err != nil {
		fmt.Fprintln(os.Stderr, err)
		os.Exit(2)
	}
	w := bufio.NewWriterSize(out, 1<<20)
	enc := json.NewEncoder(w)
	enc.SetEscapeHTML(false)
	emit := func(evs []Event) {
		for _, e := range evs {
			if err := enc.Encode(e); err != nil {
				enc.Encode(Event{"ev": "DriverError", "err": "cannot encode event: " + err.Error()})
			}
		}
	}
	for gi, g := range groups {
		reg, ok := regs[g.Pkg]
		if !ok {
			emit([]Event{{"ev": "DriverError", "group": gi, "err": "unknown package " + g.Pkg}})
			continue
		}
		emit([]Event{{"ev": "Group", "group": gi, "pkg": g.Pkg, "kind": g.Kind, "tag": g.Tag}})
		rec := &Recorder{}
		func() {
			defer func() {
				if p := recover(); p != nil {
					rec.Emit(Event{"ev": "DriverError", "group": gi, "err": fmt.Sprint(p)})
				}
			}()
			switch g.Kind {
			case "pipeline":
				h, err := NewAPI(reg, g.API, rec)
				if err != nil {
					rec.Emit(Event{"ev": "DriverError", "group": gi, "err": err.Error()})
					return
				}
				for _, c := range g.Cases {
					Serve(h, rec, c)
				}
			case "iface":
				RunIface(reg, rec)
			case "codec":
				RunCodec(reg, rec, g.Codec)
			case "wire":
				RunWire(reg, rec, g)
			case "fuzz":
				RunFuzz(reg, rec, g)
			case "concurrent":
				RunConcurrent(reg, rec, g)
			default:
				rec.Emit(Event{"ev": "DriverError", "group": gi, "err": "unknown kind " + g.Kind})
			}
		}()
		emit(rec.Take())
	}
	w.Flush()
	out.Close()
}
