package driver

import (
	"context"
	"fmt"
	"net/http"
	"net/url"
	"reflect"
	"runtime"
	"runtime/debug"
	"strings"
	"sync"
	"time"
)

// ConcurrentConfig: Goroutines x Calls client calls against one API value through one Client value.
type ConcurrentConfig struct {
	Goroutines int   `json:"goroutines"`
	Calls      int   `json:"calls"`
	Procs      int   `json:"procs"`
	Seed       int64 `json:"seed"`
	Round      int   `json:"round"`
	// Creds: credentials every request carries (header -> value prefix); the request's case id is appended
	// after '#', so that a credential is unique to its request.
	Creds map[string]string `json:"creds,omitempty"`
	// RawPaths: after each client call the goroutine also hands one raw GET of these paths (unrouted paths, the
	// spec-file route) straight to API.ServeHTTP: requests that match no operation are served concurrently too.
	RawPaths []string `json:"rawPaths,omitempty"`
	// Preflights: each goroutine also sends OPTIONS requests to these paths (declared paths of a package generated
	// with CORS on, CORSHandler installed): concurrent preflights, among them the first ones for their path
	Preflights []string `json:"preflights,omitempty"`
}

// uniqueFill overwrites the leaves of v with values unique to tag (strings, integers, times), so that a
// value leaking from one request into another is visible.
func uniqueFill(v reflect.Value, tag int, loc string, n *int) {
	t := v.Type()
	if t == tTime || (t.Kind() == reflect.Struct && t.ConvertibleTo(tTime)) {
		*n++
		tm := time.Unix(int64(1_000_000_000+tag*1000+*n), 0).UTC()
		v.Set(reflect.ValueOf(tm).Convert(t))
		return
	}
	if t == tRawMessage {
		*n++
		v.SetBytes([]byte(fmt.Sprintf("\"any-%d-%d\"", tag, *n)))
		return
	}
	if k := wrapperKind(t); k != "" {
		if v.Field(0).Bool() {
			uniqueFill(v.Field(1), tag, loc, n)
		}
		return
	}
	switch t.Kind() {
	case reflect.String:
		*n++
		v.SetString(fmt.Sprintf("t%d-%d", tag, *n))
	case reflect.Int, reflect.Int64:
		*n++
		v.SetInt(int64(tag)*1000 + int64(*n))
	case reflect.Int32:
		*n++
		v.SetInt(int64(tag%2_000_000)*1000 + int64(*n))
	case reflect.Float64, reflect.Float32:
		*n++
		v.SetFloat(float64(tag%8000)*1000 + float64(*n))
	case reflect.Slice:
		for i := 0; i < v.Len(); i++ {
			uniqueFill(v.Index(i), tag, loc, n)
		}
	case reflect.Map:
		for _, k := range v.MapKeys() {
			e := reflect.New(t.Elem()).Elem()
			e.Set(v.MapIndex(k))
			uniqueFill(e, tag, loc, n)
			v.SetMapIndex(k, e)
		}
	case reflect.Struct:
		for i := 0; i < t.NumField(); i++ {
			if t.Field(i).IsExported() && t.Field(i).Name != "Code" {
				uniqueFill(v.Field(i), tag, loc, n)
			}
		}
	case reflect.Interface:
		if t.NumMethod() == 0 && !v.IsNil() {
			*n++
			v.Set(reflect.ValueOf(fmt.Sprintf("any-%d-%d", tag, *n)))
		}
	}
}

type concCall struct {
	id     string
	tag    int
	op     OpInfo
	method reflect.Value
}

// RunConcurrent drives one API value and one Client value from many goroutines at once.
func RunConcurrent(reg Registry, rec *Recorder, g Group) {
	cfg := g.Conc
	if cfg == nil {
		rec.Emit(Event{"ev": "DriverError", "err": "no concurrent config"})
		return
	}
	if cfg.Procs > 0 {
		defer runtime.GOMAXPROCS(runtime.GOMAXPROCS(cfg.Procs))
	}
	api, err := NewAPI(reg, g.API, rec)
	if err != nil {
		rec.Emit(Event{"ev": "DriverError", "err": err.Error()})
		return
	}
	ops, _ := Ops(reg)
	newClient := reflect.ValueOf(reg.Funcs["NewClient"])
	fnT, ok := reg.Types["HTTPClientFunc"]
	if !newClient.IsValid() || !ok {
		rec.Emit(Event{"ev": "DriverError", "err": "no NewClient / HTTPClientFunc"})
		return
	}
	// one doer for all goroutines: the case travels in the request context
	doer := reflect.MakeFunc(fnT, func(args []reflect.Value) []reflect.Value {
		req := args[0].Interface().(*httpRequest)
		cid := caseOf(req)
		w := &wireCtx{rec: &Recorder{}, caseID: cid, api: api} // wire-level events are not part of the isolation log
		for h, prefix := range cfg.Creds {
			if req.Header.Get(h) == "" { // (a scheme's header that is part of the operation's Params travels from there)
				req.Header.Set(h, prefix+"#"+cid)
			}
		}
		runtime.Gosched()
		resp, err := w.do(req)
		errV := reflect.Zero(tError)
		if err != nil {
			errV = reflect.ValueOf(&err).Elem()
		}
		return []reflect.Value{reflect.ValueOf(resp), errV}
	})
	client := newClient.Call([]reflect.Value{reflect.ValueOf("http://example.test" + (&url.URL{Path: g.Base}).EscapedPath()), doer})[0]
	ct := client.Type()
	var callable []concCall
	for _, op := range ops {
		for i := 0; i < ct.NumMethod(); i++ {
			mt := ct.Method(i).Type
			if mt.NumIn() == 3 && mt.NumOut() == 2 && mt.Out(0) == op.RespType {
				callable = append(callable, concCall{op: op, method: client.Method(i)})
			}
		}
	}
	if len(callable) == 0 {
		rec.Emit(Event{"ev": "DriverError", "err": "no callable operations"})
		return
	}
	var ids []string
	type job struct {
		id  string
		tag int
		c   concCall
	}
	var sharedCalls []concCall
	for _, c := range callable {
		if strings.Contains(c.op.ID(), "/shared/") {
			sharedCalls = append(sharedCalls, c)
		}
	}
	sharedResp = sync.Map{} // a fresh store per round
	var jobs [][]job
	n := 0
	r := newRng(cfg.Seed)
	for gi := 0; gi < cfg.Goroutines; gi++ {
		var js []job
		for k := 0; k < cfg.Calls; k++ {
			n++
			id := fmt.Sprintf("r%dg%dk%d", cfg.Round, gi, k)
			ids = append(ids, id)
			if len(cfg.RawPaths) > 0 {
				ids = append(ids, id+"x")
			}
			if len(cfg.Preflights) > 0 {
				ids = append(ids, id+"p")
			}
			cc := callable[r.Intn(len(callable))]
			if k == 0 && len(sharedCalls) > 0 {
				// every goroutine starts with an operation that answers from one stored value: they all encode it at once
				cc = sharedCalls[gi%len(sharedCalls)]
			}
			js = append(js, job{id: id, tag: cfg.Round*100000 + n, c: cc})
		}
		jobs = append(jobs, js)
	}
	rec.Emit(Event{"ev": "Cases", "ids": ids, "case": ""})
	var wg sync.WaitGroup
	start := make(chan struct{})
	for gi := range jobs {
		wg.Add(1)
		go func(js []job) {
			defer wg.Done()
			<-start
			for _, j := range js {
				paramsT := j.c.method.Type().In(1)
				params := reflect.New(paramsT).Elem()
				rr := newRng(int64(j.tag))
				RandomFill(params, rr, 0)
				fixDomain(params, "", rr)
				cnt := 0
				uniqueFill(params, j.tag, "", &cnt)
				applyCreds(params, cfg.Creds, j.id)
				if f := params.FieldByName("Body"); f.IsValid() && f.Kind() == reflect.Interface {
					setReader(f, []byte(fmt.Sprintf("raw-body-%d", j.tag)))
				}
				rec.Emit(Event{"ev": "Call", "case": j.id, "op": j.c.op.ID(), "sent": ProjectParams(params, false)})
				script := Script{Parse: true, ReadBody: true, Random: true, Seed: int64(j.tag), Code: 210 + j.tag%80, Unique: j.tag, Yield: true}
				if strings.Contains(j.c.op.ID(), "/shared/") {
					// operations under /shared/ answer every request from one stored value
					script.Shared = true
				}
				ctx := context.WithValue(context.Background(), keyCase, &caseCtx{id: j.id, script: script})
				ret := Event{"ev": "Return", "case": j.id, "panic": ""}
				func() {
					defer func() {
						if p := recover(); p != nil {
							ret["panic"] = fmt.Sprintf("%v\n%s", p, debug.Stack())
						}
					}()
					outs := j.c.method.Call([]reflect.Value{reflect.ValueOf(ctx), params})
					if !outs[1].IsNil() {
						ret["ok"] = false
						ret["err"] = outs[1].Interface().(error).Error()
						return
					}
					ret["ok"] = true
					rv := outs[0]
					if rv.Kind() == reflect.Interface && !rv.IsNil() {
						rv = rv.Elem()
					}
					ret["type"] = rv.Type().Name()
					ret["value"] = projectResponse(rv)
				}()
				if _, ok := ret["ok"]; !ok {
					ret["ok"] = false
				}
				rec.Emit(ret)
				if len(cfg.RawPaths) > 0 {
					path := cfg.RawPaths[j.tag%len(cfg.RawPaths)]
					raw := Event{"ev": "Raw", "case": j.id + "x", "path": path, "panic": ""}
					func() {
						defer func() {
							if p := recover(); p != nil {
								raw["panic"] = fmt.Sprintf("%v", p)
							}
						}()
						cw := &countingWriter{hdr: http.Header{}}
						rctx := context.WithValue(context.Background(), keyCase, &caseCtx{id: j.id + "x"})
						rq := (&http.Request{Method: "GET", URL: &url.URL{Path: path}, Proto: "HTTP/1.1", ProtoMajor: 1, ProtoMinor: 1, Header: http.Header{}, Body: http.NoBody, Host: "example.test"}).WithContext(rctx)
						runtime.Gosched()
						api.ServeHTTP(cw, rq)
						st := cw.status
						if !cw.wrote {
							st = 200
						}
						raw["status"], raw["writes"], raw["bodyLen"] = st, cw.writes, cw.body.Len()
					}()
					rec.Emit(raw)
				}
				if len(cfg.Preflights) > 0 {
					path := cfg.Preflights[j.tag%len(cfg.Preflights)]
					pre := Event{"ev": "Raw", "case": j.id + "p", "path": path, "pre": true, "panic": ""}
					func() {
						defer func() {
							if p := recover(); p != nil {
								pre["panic"] = fmt.Sprintf("%v", p)
							}
						}()
						cw := &countingWriter{hdr: http.Header{}}
						rctx := context.WithValue(context.Background(), keyCase, &caseCtx{id: j.id + "p"})
						rq := (&http.Request{Method: "OPTIONS", URL: &url.URL{Path: path}, Proto: "HTTP/1.1", ProtoMajor: 1, ProtoMinor: 1, Header: http.Header{"Origin": {"https://example.test"}, "Access-Control-Request-Method": {"GET"}}, Body: http.NoBody, Host: "example.test"}).WithContext(rctx)
						runtime.Gosched()
						api.ServeHTTP(cw, rq)
						st := cw.status
						if !cw.wrote {
							st = 200
						}
						pre["status"], pre["writes"], pre["bodyLen"] = st, cw.writes, cw.body.Len()
					}()
					rec.Emit(pre)
				}
			}
		}(jobs[gi])
	}
	close(start)
	wg.Wait()
}

// applyCreds: the generated Params of a secured operation carry the scheme's header as a field; give it the
// request's credential.
func applyCreds(params reflect.Value, creds map[string]string, cid string) {
	hs := params.FieldByName("Headers")
	if !hs.IsValid() || hs.Kind() != reflect.Struct {
		return
	}
	for h, prefix := range creds {
		for i := 0; i < hs.NumField(); i++ {
			if norm(hs.Type().Field(i).Name) != norm(h) {
				continue
			}
			f := hs.Field(i)
			if wrapperKind(f.Type()) != "" {
				f.Field(0).SetBool(true)
				f = f.Field(1)
			}
			if f.Kind() == reflect.String {
				f.SetString(prefix + "#" + cid)
			}
		}
	}
}
