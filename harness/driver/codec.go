package driver

import (
	"encoding/json"
	"fmt"
	"reflect"
	"runtime/debug"
)

// CodecCase exercises the JSON codec of one generated type.
//
//	Op "roundtrip": build a value (Fill, or seeded random), marshal, validate, unmarshal into a fresh value
//	Op "decode":    unmarshal Doc into a fresh value; on success marshal it again
type CodecCase struct {
	ID   string          `json:"id"`
	Type string          `json:"type"`
	Op   string          `json:"op"`
	Seed int64           `json:"seed"`
	Fill json.RawMessage `json:"fill"`
	Doc  string          `json:"doc"` // base64
	// Disc / Tags: the value is a top-level discriminated oneOf; after the random fill the chosen variant's
	// discriminator property is set to one of the values the specification declares for that variant
	// (Tags is keyed by the normalised variant type name).
	Disc string              `json:"disc,omitempty"`
	Tags map[string][]string `json:"tags,omitempty"`
}

func RunCodec(reg Registry, rec *Recorder, cs []CodecCase) {
	for _, c := range cs {
		ev := Event{"ev": "Codec", "case": c.ID, "type": c.Type, "op": c.Op, "panic": ""}
		func() {
			defer func() {
				if p := recover(); p != nil {
					ev["panic"] = fmt.Sprintf("%v\n%s", p, debug.Stack())
				}
			}()
			t, ok := reg.Types[c.Type]
			if !ok {
				ev["driverError"] = "unknown type " + c.Type
				return
			}
			switch c.Op {
			case "roundtrip":
				v := reflect.New(t)
				if len(c.Fill) > 0 && string(c.Fill) != "null" {
					var av AVal
					if err := json.Unmarshal(c.Fill, &av); err != nil {
						ev["driverError"] = "bad fill: " + err.Error()
						return
					}
					if err := Build(v.Elem(), av); err != nil {
						ev["driverError"] = "cannot build: " + err.Error()
						return
					}
				} else {
					rng := newRng(c.Seed)
					RandomFill(v.Elem(), rng, 0)
					if c.Disc != "" {
						if err := setDiscriminator(v.Elem(), c.Disc, c.Tags, rng); err != nil {
							ev["driverError"] = err.Error()
							return
						}
					}
				}
				ev["v"] = Project(v.Elem())
				bs, err := json.Marshal(v.Interface())
				if err != nil {
					ev["encOK"] = false
					ev["encErr"] = err.Error()
					return
				}
				ev["encOK"] = true
				ev["bytes"] = b64(bs)
				ev["valid"] = json.Valid(bs)
				v2 := reflect.New(t)
				if err := json.Unmarshal(bs, v2.Interface()); err != nil {
					ev["decOK"] = false
					ev["decErr"] = err.Error()
					return
				}
				ev["decOK"] = true
				ev["v2"] = Project(v2.Elem())
			case "docroundtrip":
				// a value obtained by decoding a valid document, then the ordinary round trip on it
				v := reflect.New(t)
				if err := json.Unmarshal(unb64(c.Doc), v.Interface()); err != nil {
					ev["skipped"] = "document does not decode: " + err.Error()
					return
				}
				ev["v"] = Project(v.Elem())
				bs, err := json.Marshal(v.Interface())
				if err != nil {
					ev["encOK"] = false
					ev["encErr"] = err.Error()
					return
				}
				ev["encOK"] = true
				ev["bytes"] = b64(bs)
				ev["valid"] = json.Valid(bs)
				v2 := reflect.New(t)
				if err := json.Unmarshal(bs, v2.Interface()); err != nil {
					ev["decOK"] = false
					ev["decErr"] = err.Error()
					return
				}
				ev["decOK"] = true
				ev["v2"] = Project(v2.Elem())
			case "decode":
				doc := unb64(c.Doc)
				v := reflect.New(t)
				if err := json.Unmarshal(doc, v.Interface()); err != nil {
					ev["decOK"] = false
					ev["decErr"] = err.Error()
					return
				}
				ev["decOK"] = true
				ev["v"] = Project(v.Elem())
				bs, err := json.Marshal(v.Interface())
				if err != nil {
					ev["encOK"] = false
					ev["encErr"] = err.Error()
					return
				}
				ev["encOK"] = true
				ev["bytes"] = b64(bs)
			default:
				ev["driverError"] = "unknown op " + c.Op
			}
		}()
		rec.Emit(ev)
	}
}

// setDiscriminator gives the set variant of a oneOf value one of its declared discriminator values.
func setDiscriminator(v reflect.Value, disc string, tags map[string][]string, rng interface{ Intn(int) int }) error {
	if v.Kind() != reflect.Struct || !isOneOfShape(v.Type()) {
		return fmt.Errorf("setDiscriminator: %s is not a oneOf", v.Type())
	}
	for i := 0; i < v.NumField(); i++ {
		if !v.Field(i).Field(0).Bool() {
			continue
		}
		inner := v.Field(i).Field(1)
		tg := tags[Norm(inner.Type().Name())]
		if len(tg) == 0 {
			return fmt.Errorf("setDiscriminator: no tags for variant %s", inner.Type().Name())
		}
		for k := 0; k < inner.NumField(); k++ {
			if Norm(inner.Type().Field(k).Name) == Norm(disc) && inner.Field(k).Kind() == reflect.String {
				inner.Field(k).SetString(tg[rng.Intn(len(tg))])
				return nil
			}
		}
		return fmt.Errorf("setDiscriminator: variant %s has no string field %q", inner.Type().Name(), disc)
	}
	return fmt.Errorf("setDiscriminator: no variant set")
}
