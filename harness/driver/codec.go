package driver

import (
	"encoding/json"
	"fmt"
	"reflect"
	"runtime/debug"
)

// CodecCase exercises the JSON codec of one generated type.
//
//	Op "roundtrip": build a value (Fill, or seeded random), marshal, validate, unmarshal into a fresh value
//	Op "decode":    unmarshal Doc into a fresh value; on success marshal it again
type CodecCase struct {
	ID   string          `json:"id"`
	Type string          `json:"type"`
	Op   string          `json:"op"`
	Seed int64           `json:"seed"`
	Fill json.RawMessage `json:"fill"`
	Doc  string          `json:"doc"` // base64
}

func RunCodec(reg Registry, rec *Recorder, cs []CodecCase) {
	for _, c := range cs {
		ev := Event{"ev": "Codec", "case": c.ID, "type": c.Type, "op": c.Op, "panic": ""}
		func() {
			defer func() {
				if p := recover(); p != nil {
					ev["panic"] = fmt.Sprintf("%v\n%s", p, debug.Stack())
				}
			}()
			t, ok := reg.Types[c.Type]
			if !ok {
				ev["driverError"] = "unknown type " + c.Type
				return
			}
			switch c.Op {
			case "roundtrip":
				v := reflect.New(t)
				if len(c.Fill) > 0 && string(c.Fill) != "null" {
					var av AVal
					if err := json.Unmarshal(c.Fill, &av); err != nil {
						ev["driverError"] = "bad fill: " + err.Error()
						return
					}
					if err := Build(v.Elem(), av); err != nil {
						ev["driverError"] = "cannot build: " + err.Error()
						return
					}
				} else {
					RandomFill(v.Elem(), newRng(c.Seed), 0)
				}
				ev["v"] = Project(v.Elem())
				bs, err := json.Marshal(v.Interface())
				if err != nil {
					ev["encOK"] = false
					ev["encErr"] = err.Error()
					return
				}
				ev["encOK"] = true
				ev["bytes"] = b64(bs)
				ev["valid"] = json.Valid(bs)
				v2 := reflect.New(t)
				if err := json.Unmarshal(bs, v2.Interface()); err != nil {
					ev["decOK"] = false
					ev["decErr"] = err.Error()
					return
				}
				ev["decOK"] = true
				ev["v2"] = Project(v2.Elem())
			case "docroundtrip":
				// a value obtained by decoding a valid document, then the ordinary round trip on it
				v := reflect.New(t)
				if err := json.Unmarshal(unb64(c.Doc), v.Interface()); err != nil {
					ev["skipped"] = "document does not decode: " + err.Error()
					return
				}
				ev["v"] = Project(v.Elem())
				bs, err := json.Marshal(v.Interface())
				if err != nil {
					ev["encOK"] = false
					ev["encErr"] = err.Error()
					return
				}
				ev["encOK"] = true
				ev["bytes"] = b64(bs)
				ev["valid"] = json.Valid(bs)
				v2 := reflect.New(t)
				if err := json.Unmarshal(bs, v2.Interface()); err != nil {
					ev["decOK"] = false
					ev["decErr"] = err.Error()
					return
				}
				ev["decOK"] = true
				ev["v2"] = Project(v2.Elem())
			case "decode":
				doc := unb64(c.Doc)
				v := reflect.New(t)
				if err := json.Unmarshal(doc, v.Interface()); err != nil {
					ev["decOK"] = false
					ev["decErr"] = err.Error()
					return
				}
				ev["decOK"] = true
				ev["v"] = Project(v.Elem())
				bs, err := json.Marshal(v.Interface())
				if err != nil {
					ev["encOK"] = false
					ev["encErr"] = err.Error()
					return
				}
				ev["encOK"] = true
				ev["bytes"] = b64(bs)
			default:
				ev["driverError"] = "unknown op " + c.Op
			}
		}()
		rec.Emit(ev)
	}
}
