// Package driver is copied next to generated packages and drives them reflectively.
// It knows the public surface of a goag-generated package (API struct, handler
// func types with Path()/Method(), Request.Parse(), response interfaces, NewClient)
// but none of goag's naming rules: everything else is discovered through the
// registry maps written by the harness (registry_verif.go).
package driver

import (
	"bytes"
	"context"
	"encoding/base64"
	"encoding/json"
	"fmt"
	"io"
	"net/http"
	"net/url"
	"reflect"
	"runtime"
	"runtime/debug"
	"sort"
	"strings"
	"sync"
	"unicode"
)

type Registry struct {
	Types  map[string]reflect.Type
	Funcs  map[string]any
	Consts map[string]any
	Vars   map[string]any
}

// Event is one observation.  Fields are free-form; "ev" names the kind.
type Event map[string]any

type Recorder struct {
	mu  sync.Mutex
	evs []Event
	seq int
}

func (r *Recorder) Emit(e Event) {
	r.mu.Lock()
	r.seq++
	e["seq"] = r.seq
	r.evs = append(r.evs, e)
	r.mu.Unlock()
}

func (r *Recorder) Take() []Event {
	r.mu.Lock()
	defer r.mu.Unlock()
	out := r.evs
	r.evs = nil
	return out
}

// APIConfig says which user call-backs are installed on the API value.
type APIConfig struct {
	Mw       int             `json:"mw"`
	NotFound bool            `json:"notFound"`
	Spec     bool            `json:"spec"`
	Cors     bool            `json:"cors"`
	Auth     map[string]bool `json:"auth"`    // scheme key -> authenticator installed
	Schemes  []SchemeInfo    `json:"schemes"` // how to recognise the API field of each scheme
}

type SchemeInfo struct {
	Key  string `json:"key"`  // name in components.securitySchemes
	Kind string `json:"kind"` // bearer | apiKeyHeader | apiKeyQuery | ...
	Name string `json:"name"` // header / query parameter name (apiKey)
}

type ctxKey string

const (
	keyCase ctxKey = "verif-case"
	keyTag  ctxKey = "verif-tag"
)

// Script tells the scripted handler what to do for one request.
type Script struct {
	Parse    bool            `json:"parse"`    // call Parse() and record the projected result
	Shared   bool            `json:"shared"`   // answer with ONE value per response type, built once and handed (by struct copy, so with shared backing arrays and maps) to every request: what a handler serving from an in-memory store does
	Forward  string          `json:"forward"`  // the handler dispatches GET <Forward> through the same API value before it answers (an internal forward: the request context already carries what the first dispatch put there)
	Reparse  bool            `json:"reparse"`  // call Parse() a second time on the same request (operations without a body): the step is stateless in the model, so the second outcome is judged like the first
	Resp     string          `json:"resp"`     // name of the response type to return ("" = first implementer)
	Code     int             `json:"code"`     // status for default responses
	Fill     json.RawMessage `json:"fill"`     // abstract value to build the response from (see value.go), optional
	Seed     int64           `json:"seed"`     // seed for random response values when Fill is absent and Random is set
	Random   bool            `json:"random"`   // fill the response with seeded random values
	ReadBody bool            `json:"readBody"` // read a raw request body and record it
	Default  bool            `json:"default"`  // return the operation's default response (the implementer with a Code field)
	Unique   int             `json:"unique"`   // > 0: overwrite the response's leaves with values unique to this tag
	Yield    bool            `json:"yield"`    // call runtime.Gosched() at every call-back (C20)
	ByStatus bool            `json:"byStatus"` // choose among the implementers ordered by the status each writes (ProbeStatuses), not by type name
}

type caseCtx struct {
	id     string
	script Script
	// credPrefix: how this case spells its valid credentials ("" or "Bearer "): the authenticators accept the
	// scheme's valid credential in exactly that spelling
	credPrefix string
	api        http.Handler // the API value serving this case (for internal forwards)
	nested     bool
}

var (
	tHTTPHandler = reflect.TypeOf((*http.Handler)(nil)).Elem()
	tRequestPtr  = reflect.TypeOf((*http.Request)(nil))
	tContext     = reflect.TypeOf((*context.Context)(nil)).Elem()
	tError       = reflect.TypeOf((*error)(nil)).Elem()
)

// OpInfo describes one operation discovered on the API struct.
type OpInfo struct {
	Field    string
	Method   string
	Path     string
	FuncType reflect.Type
	ReqType  reflect.Type // the <Op>Request interface
	RespType reflect.Type // the <Op>Response interface
}

func (o OpInfo) ID() string { return o.Method + " " + o.Path }

// Ops lists the operations of the package by inspecting the handler fields of API.
func Ops(reg Registry) ([]OpInfo, error) {
	apiT, ok := reg.Types["API"]
	if !ok {
		return nil, fmt.Errorf("no API type in registry")
	}
	var out []OpInfo
	for i := 0; i < apiT.NumField(); i++ {
		f := apiT.Field(i)
		ft := f.Type
		if ft.Kind() != reflect.Func || !ft.Implements(tHTTPHandler) {
			continue
		}
		mp, ok1 := ft.MethodByName("Path")
		mm, ok2 := ft.MethodByName("Method")
		if !ok1 || !ok2 || ft.NumIn() != 2 || ft.NumOut() != 1 {
			continue
		}
		zero := reflect.Zero(ft)
		p := mp.Func.Call([]reflect.Value{zero})[0].String()
		m := mm.Func.Call([]reflect.Value{zero})[0].String()
		out = append(out, OpInfo{Field: f.Name, Method: m, Path: p, FuncType: ft, ReqType: ft.In(1), RespType: ft.Out(0)})
	}
	return out, nil
}

func norm(s string) string {
	var b strings.Builder
	for _, r := range s {
		if unicode.IsLetter(r) || unicode.IsDigit(r) {
			b.WriteRune(unicode.ToLower(r))
		}
	}
	return b.String()
}

// Implementers returns the names of the package's concrete types that satisfy the interface.
func Implementers(reg Registry, iface reflect.Type) []string {
	var out []string
	for n, t := range reg.Types {
		if t.Kind() == reflect.Interface {
			continue
		}
		if t.Implements(iface) {
			out = append(out, n)
		}
	}
	sort.Strings(out)
	return out
}

// One table of instrumented middlewares for every API value this process builds: each API value gets a prefix of it
// (API{Middlewares: table[:n]}), as a program with a public and an admin API would slice one table. The elements
// past a prefix belong to the longer views; whoever writes there (an append on the caller's slice) changes another
// API value's stack. The call-backs report to the recorder of the group that is running.
var (
	mwTable  []func(http.Handler) http.Handler
	mwRec    *Recorder
	mwReg    Registry
	mwTableN = 8
)

func sharedMws(n int, reg Registry, rec *Recorder) []func(http.Handler) http.Handler {
	mwRec, mwReg = rec, reg
	if n > mwTableN {
		mwTableN, mwTable = n, nil
	}
	if mwTable == nil {
		mwTable = make([]func(http.Handler) http.Handler, mwTableN)
		for i := 1; i <= mwTableN; i++ {
			i := i
			mwTable[i-1] = func(next http.Handler) http.Handler {
				return http.HandlerFunc(func(w http.ResponseWriter, r *http.Request) {
					rec := mwRec
					tmpl, has := schemaPath(mwReg, r)
					rec.Emit(Event{"ev": "MwEnter", "i": i, "tmpl": tmpl, "has": has, "case": caseOf(r)})
					next.ServeHTTP(w, r)
					rec.Emit(Event{"ev": "MwLeave", "i": i, "case": caseOf(r)})
				})
			}
		}
	}
	return mwTable[:n]
}

// NewAPI builds an API value with recording call-backs.
func NewAPI(reg Registry, cfg APIConfig, rec *Recorder) (http.Handler, error) {
	apiT, ok := reg.Types["API"]
	if !ok {
		return nil, fmt.Errorf("no API type")
	}
	ops, err := Ops(reg)
	if err != nil {
		return nil, err
	}
	apiV := reflect.New(apiT)
	api := apiV.Elem()
	for _, op := range ops {
		op := op
		fn := reflect.MakeFunc(op.FuncType, func(args []reflect.Value) []reflect.Value {
			return []reflect.Value{handle(reg, rec, op, args[0], args[1])}
		})
		api.FieldByName(op.Field).Set(fn)
	}
	if f := api.FieldByName("NotFoundHandler"); f.IsValid() && cfg.NotFound {
		f.Set(reflect.ValueOf(http.Handler(http.HandlerFunc(func(w http.ResponseWriter, r *http.Request) {
			rec.Emit(Event{"ev": "NotFound", "custom": true, "case": caseOf(r)})
			w.WriteHeader(404)
		}))))
	}
	if f := api.FieldByName("SpecFileHandler"); f.IsValid() && cfg.Spec {
		mk, ok := reg.Funcs["SpecFileHandler"].(func() http.Handler)
		if !ok {
			return nil, fmt.Errorf("no SpecFileHandler() func")
		}
		inner := mk()
		f.Set(reflect.ValueOf(http.Handler(http.HandlerFunc(func(w http.ResponseWriter, r *http.Request) {
			rec.Emit(Event{"ev": "Spec", "case": caseOf(r)})
			inner.ServeHTTP(w, r)
		}))))
	}
	if f := api.FieldByName("CORSHandler"); f.IsValid() && cfg.Cors {
		ft := f.Type()
		if ft.Kind() != reflect.Func || ft.NumIn() != 2 || ft.NumOut() != 1 {
			return nil, fmt.Errorf("unexpected CORSHandler type %s", ft)
		}
		f.Set(reflect.MakeFunc(ft, func(args []reflect.Value) []reflect.Value {
			methods, _ := args[0].Interface().([]string)
			headers, _ := args[1].Interface().([]string)
			h := http.Handler(http.HandlerFunc(func(w http.ResponseWriter, r *http.Request) {
				rec.Emit(Event{"ev": "Cors", "case": caseOf(r), "methods": nn(methods), "headers": nn(headers)})
				w.WriteHeader(204)
			}))
			return []reflect.Value{reflect.ValueOf(&h).Elem()}
		}))
	}
	if f := api.FieldByName("Middlewares"); f.IsValid() && cfg.Mw > 0 {
		f.Set(reflect.ValueOf(sharedMws(cfg.Mw, reg, rec)))
	}
	// authenticators
	for _, s := range cfg.Schemes {
		if !cfg.Auth[s.Key] {
			continue
		}
		fname := ""
		for i := 0; i < apiT.NumField(); i++ {
			f := apiT.Field(i)
			if !strings.HasPrefix(f.Name, "Security") || f.Type.Kind() != reflect.Func {
				continue
			}
			switch s.Kind {
			case "bearer":
				if f.Name == "SecurityBearerAuth" {
					fname = f.Name
				}
			case "apiKeyHeader", "apiKeyQuery":
				if strings.HasPrefix(f.Name, "SecurityAPIKeyAuth") && norm(strings.TrimPrefix(f.Name, "SecurityAPIKeyAuth")) == norm(s.Name) {
					fname = f.Name
				}
			}
		}
		if fname == "" {
			continue // the generated API has no hook for this scheme (unsupported kind or unused)
		}
		s := s
		f := api.FieldByName(fname)
		ft := f.Type()
		if ft.NumIn() != 2 || ft.NumOut() != 2 || ft.In(0) != tRequestPtr {
			return nil, fmt.Errorf("unexpected authenticator type %s", ft)
		}
		prev := f
		_ = prev
		f.Set(reflect.MakeFunc(ft, func(args []reflect.Value) []reflect.Value {
			r := args[0].Interface().(*http.Request)
			tok := args[1].String()
			// the scheme's valid credential, in the spelling this case presents it in
			want := "valid-" + s.Key
			if c, has := r.Context().Value(keyCase).(*caseCtx); has {
				want = c.credPrefix + want
			}
			ok := tok == want || strings.HasPrefix(tok, want+"#")
			rec.Emit(Event{"ev": "Auth", "s": s.Key, "field": fname, "tok": tok, "ok": ok, "case": caseOf(r)})
			if !ok {
				return []reflect.Value{reflect.Zero(tRequestPtr), reflect.ValueOf(false)}
			}
			r2 := r.WithContext(context.WithValue(r.Context(), keyTag, s.Key+"|"+tok))
			return []reflect.Value{reflect.ValueOf(r2), reflect.ValueOf(true)}
		}))
	}
	h, ok := apiV.Interface().(http.Handler)
	if !ok {
		return nil, fmt.Errorf("*API is not an http.Handler")
	}
	return h, nil
}

func nn(s []string) []string {
	if s == nil {
		return []string{}
	}
	return s
}

func schemaPath(reg Registry, r *http.Request) (string, bool) {
	f, ok := reg.Funcs["SchemaPath"].(func(*http.Request) (string, bool))
	if !ok {
		return "?", false
	}
	return f(r)
}

func caseOf(r *http.Request) string {
	if c, ok := r.Context().Value(keyCase).(*caseCtx); ok {
		return c.id
	}
	return ""
}

// handle is the scripted handler behind every operation.
func handle(reg Registry, rec *Recorder, op OpInfo, ctxV, reqV reflect.Value) reflect.Value {
	var hr *http.Request
	if m := reqV.MethodByName("HTTP"); m.IsValid() {
		hr, _ = m.Call(nil)[0].Interface().(*http.Request)
	}
	cc := &caseCtx{}
	tag := ""
	if hr != nil {
		if c, ok := hr.Context().Value(keyCase).(*caseCtx); ok {
			cc = c
		}
		tag, _ = hr.Context().Value(keyTag).(string)
	}
	tmpl, has := "", false
	if hr != nil {
		tmpl, has = schemaPath(reg, hr)
	}
	if cc.script.Yield {
		runtime.Gosched()
	}
	rec.Emit(Event{"ev": "Handler", "op": op.ID(), "tag": tag, "case": cc.id, "tmpl": tmpl, "has": has})
	if cc.script.Yield {
		runtime.Gosched()
	}
	if cc.script.Parse {
		recordParse(rec, cc.id, reqV, cc.script.ReadBody)
		if cc.script.Reparse {
			recordParse(rec, cc.id, reqV, cc.script.ReadBody)
		}
	}
	if cc.script.Forward != "" && cc.api != nil && !cc.nested && hr != nil {
		cc.nested = true
		rec.Emit(Event{"ev": "NestedBegin", "case": cc.id, "path": cc.script.Forward})
		func() {
			defer func() {
				if p := recover(); p != nil {
					rec.Emit(Event{"ev": "NestedPanic", "case": cc.id, "panic": fmt.Sprint(p)})
				}
			}()
			r2 := hr.Clone(hr.Context())
			r2.Method, r2.URL, r2.RequestURI, r2.Body, r2.Header = "GET", &url.URL{Path: cc.script.Forward}, cc.script.Forward, http.NoBody, http.Header{}
			cc.api.ServeHTTP(&countingWriter{hdr: http.Header{}}, r2)
		}()
		rec.Emit(Event{"ev": "NestedEnd", "case": cc.id})
		cc.nested = false
	}
	return buildResponse(reg, rec, op, cc)
}

// recordParse calls Parse() on the request and records the projected outcome.
func recordParse(rec *Recorder, id string, reqV reflect.Value, readBody bool) {
	ev := Event{"ev": "Parse", "case": id}
	func() {
		defer func() {
			if p := recover(); p != nil {
				ev["panic"] = fmt.Sprintf("%v\n%s", p, debug.Stack())
			}
		}()
		outs := reqV.MethodByName("Parse").Call(nil)
		var perr error
		if len(outs) == 2 && !outs[1].IsNil() {
			perr, _ = outs[1].Interface().(error)
		}
		if perr != nil {
			ev["ok"] = false
			ev["err"] = perr.Error()
			in, param := errParam(perr)
			ev["errIn"], ev["errParam"] = in, param
			return
		}
		ev["ok"] = true
		ev["canFail"] = len(outs) == 2
		ev["params"] = ProjectParams(outs[0], readBody)
	}()
	rec.Emit(ev)
}

// errParam finds an ErrParseParam-shaped error (fields In, Parameter) in the chain.
func errParam(err error) (string, string) {
	for e := err; e != nil; {
		v := reflect.ValueOf(e)
		if v.Kind() == reflect.Ptr && !v.IsNil() {
			v = v.Elem()
		}
		if v.Kind() == reflect.Struct {
			fi, fp := v.FieldByName("In"), v.FieldByName("Parameter")
			if fi.IsValid() && fp.IsValid() && fi.Kind() == reflect.String && fp.Kind() == reflect.String {
				return fi.String(), fp.String()
			}
		}
		u, ok := e.(interface{ Unwrap() error })
		if !ok {
			break
		}
		e = u.Unwrap()
	}
	return "", ""
}

func buildResponse(reg Registry, rec *Recorder, op OpInfo, cc *caseCtx) reflect.Value {
	impl := Implementers(reg, op.RespType)
	name := cc.script.Resp
	if name == "" {
		if len(impl) == 0 {
			panic("driver: no response type implements " + op.RespType.String())
		}
		name = impl[0]
		if cc.script.Random {
			if cc.script.ByStatus {
				impl = byProbedStatus(op.ID(), impl)
			}
			name = impl[int(uint64(cc.script.Seed)%uint64(len(impl)))]
		}
	}
	if cc.script.Default {
		for _, n := range impl {
			if f, ok := reg.Types[n].FieldByName("Code"); ok && f.Type.Kind() == reflect.Int {
				name = n
			}
		}
	}
	t, ok := reg.Types[name]
	if !ok {
		panic("driver: unknown response type " + name)
	}
	name = t.Name() // aliases: report the declared name of the type itself
	v := reflect.New(t).Elem()
	code := cc.script.Code
	if code == 0 {
		code = 299
	}
	switch {
	case cc.script.Shared:
		key := t // (the response type itself: packages of one run have types of the same name)
		sv, ok := sharedResp.Load(key)
		if !ok {
			nv := reflect.New(t).Elem()
			RandomFill(nv, newRng(4242), 0)
			if h := nv.FieldByName("Headers"); h.IsValid() {
				fixDomain(h, "headers", newRng(4243))
			}
			shapeShared(nv)
			sv, _ = sharedResp.LoadOrStore(key, nv)
		}
		v.Set(sv.(reflect.Value))
	case len(cc.script.Fill) > 0 && string(cc.script.Fill) != "null":
		var av AVal
		if err := json.Unmarshal(cc.script.Fill, &av); err != nil {
			panic("driver: bad fill: " + err.Error())
		}
		if err := Build(v, av); err != nil {
			panic("driver: cannot build response: " + err.Error())
		}
	case cc.script.Random:
		r := newRng(cc.script.Seed)
		RandomFill(v, r, 0)
		if h := v.FieldByName("Headers"); h.IsValid() {
			fixDomain(h, "headers", r) // header values must survive the wire: visible ASCII, arrays non-empty
		}
	}
	if cc.script.Unique > 0 && !cc.script.Shared {
		cnt := 0
		uniqueFill(v, cc.script.Unique+50_000_000, "", &cnt)
	}
	if f := v.FieldByName("Code"); f.IsValid() && f.Kind() == reflect.Int && (f.Int() == 0 || cc.script.Random) {
		f.SetInt(int64(code))
	}
	var rawBody []byte
	hasRaw := false
	if f := v.FieldByName("Body"); f.IsValid() && f.Kind() == reflect.Interface {
		// io.Reader / io.ReadCloser body: a known byte string, so that it can be compared after it was consumed
		rawBody = []byte(fmt.Sprintf("raw-%d-%d-\x00\xff\n", cc.script.Seed, cc.script.Unique))
		if !cc.script.Random {
			rawBody = []byte{}
		}
		var rc io.ReadCloser = io.NopCloser(bytes.NewReader(rawBody))
		if cc.script.Seed%2 == 1 {
			// a reader that announces the end together with its last bytes (a body with a known length proxied from
			// upstream, a decompressing reader): Stream.tla's source answering (n, end) in one step
			rc = newPlannedBody(rawBody, "handler", &ReadPlan{Units: 2, Reads: []ReadStep{{N: 1}, {N: 1, End: true}}})
		}
		if reflect.TypeOf(rc).AssignableTo(f.Type()) {
			f.Set(reflect.ValueOf(rc))
			hasRaw = true
		}
	}
	pv := Project(v)
	if hasRaw {
		for i := range pv.F {
			if pv.F[i].N == "body" {
				pv.F[i].V = AVal{T: "leaf", S: "r:" + b64(rawBody)}
			}
		}
	}
	rec.Emit(Event{"ev": "Respond", "case": cc.id, "type": name, "value": pv})
	out := reflect.New(op.RespType).Elem()
	out.Set(v)
	return out
}

var sharedResp sync.Map // response type -> reflect.Value

// shapeShared gives every slice of slices three rows: nil, two zero elements, nil (rows a store may well hold).
func shapeShared(v reflect.Value) {
	switch v.Kind() {
	case reflect.Struct:
		for i := 0; i < v.NumField(); i++ {
			if v.Field(i).CanSet() {
				shapeShared(v.Field(i))
			}
		}
	case reflect.Ptr:
		if !v.IsNil() {
			shapeShared(v.Elem())
		}
	case reflect.Slice:
		if v.Type().Elem().Kind() == reflect.Slice {
			rows := reflect.MakeSlice(v.Type(), 3, 3)
			rows.Index(1).Set(reflect.MakeSlice(v.Type().Elem(), 2, 2))
			v.Set(rows)
			return
		}
		for i := 0; i < v.Len(); i++ {
			shapeShared(v.Index(i))
		}
	}
}

func b64(bs []byte) string { return base64.StdEncoding.EncodeToString(bs) }

// statusProbe: per operation, the status each response type writes (learned by ProbeStatuses through the generated
// server itself).  Two packages generated from specifications that differ only in how they refer to things name
// their response types differently; ordering the implementers by what they write makes "the k-th response" the same
// response in both.
var statusProbe = map[string]map[string]int{}

func byProbedStatus(opID string, impl []string) []string {
	// one implementer per distinct status (an alias and its target are two names of one response), ordered by status
	p := statusProbe[opID]
	first := map[int]string{}
	var sts []int
	for _, n := range impl {
		if _, ok := first[p[n]]; !ok {
			first[p[n]] = n
			sts = append(sts, p[n])
		}
	}
	sort.Ints(sts)
	out := make([]string, 0, len(sts))
	for _, st := range sts {
		out = append(out, first[st])
	}
	return out
}

// ProbeStatuses serves one synthetic request per (operation, implementer) whose handler answers with the zero value of
// that type, and records the status written.
func ProbeStatuses(reg Registry, api http.Handler, base string, rec *Recorder) {
	ops, _ := Ops(reg)
	for _, op := range ops {
		id := op.ID()
		method, tmpl, _ := strings.Cut(id, " ")
		path := base
		for _, seg := range strings.Split(strings.TrimPrefix(tmpl, "/"), "/") {
			if strings.HasPrefix(seg, "{") {
				seg = "x"
			}
			path += "/" + seg
		}
		statusProbe[id] = map[string]int{}
		for _, n := range Implementers(reg, op.RespType) {
			cw := &countingWriter{hdr: http.Header{}}
			ctx := context.WithValue(context.Background(), keyCase, &caseCtx{id: "probe", script: Script{Resp: n, Code: 999}})
			rq := (&http.Request{Method: method, URL: &url.URL{Path: path}, Proto: "HTTP/1.1", ProtoMajor: 1, ProtoMinor: 1, Header: http.Header{}, Body: http.NoBody, Host: "example.test"}).WithContext(ctx)
			func() {
				defer func() { recover() }()
				api.ServeHTTP(cw, rq)
			}()
			statusProbe[id][n] = cw.status
		}
		if rec != nil {
			rec.Emit(Event{"ev": "Probe", "op": id, "path": path, "statuses": statusProbe[id]})
		}
	}
}
