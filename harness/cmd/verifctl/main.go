// verifctl runs the checks of /verif against goag built from /repo's working tree.
package main

import (
	"fmt"
	"os"

	"verif/internal/checks"
	"verif/internal/core"
)

func main() {
	if len(os.Args) >= 2 && os.Args[1] == "worker" {
		core.WorkerMain()
		return
	}
	if len(os.Args) < 3 {
		fmt.Println("usage: verifctl check <ID> <quick|thorough> | verifctl replay <file> | verifctl worker")
		os.Exit(2)
	}
	switch os.Args[1] {
	case "check":
		tier := "quick"
		if len(os.Args) > 3 {
			tier = os.Args[3]
		}
		os.Exit(checks.Run(os.Args[2], tier, core.SeedFromEnv()))
	case "replay":
		os.Exit(checks.Replay(os.Args[2]))
	}
	fmt.Println("unknown command")
	os.Exit(2)
}
