package checks

import (
	"encoding/json"
	"fmt"
	"math/rand"
	"os"
	"sort"
	"strings"
	"time"

	"verif/internal/aspec"
	"verif/internal/core"
)

func init() { register("C01", "exploration", checkC01) }

type cell struct {
	Kind     string `json:"kind"`
	Pos      string `json:"pos"`
	Req      bool   `json:"req"`
	Nullable bool   `json:"nullable"`
	Ref      string `json:"ref"`
}

func (c cell) String() string {
	return fmt.Sprintf("%s@%s req=%v nullable=%v %s", c.Kind, c.Pos, c.Req, c.Nullable, c.Ref)
}

func objSchema(props ...aspec.Prop) aspec.Schema { return aspec.Schema{K: "object", Props: props} }

// kindSchema builds the schema of a cell kind; helper components are added to a.
func kindSchema(a *aspec.ASpec, kind string) aspec.Schema {
	str := aspec.Schema{K: "string"}
	i64 := aspec.Schema{K: "int64"}
	member := func(name string, s aspec.Schema) aspec.Schema {
		for _, x := range a.Schemas {
			if x.Name == name {
				return aspec.Schema{K: "ref", To: name}
			}
		}
		a.Schemas = append(a.Schemas, aspec.NamedSchema{Name: name, Schema: s})
		return aspec.Schema{K: "ref", To: name}
	}
	switch kind {
	case "arrayOfString":
		return aspec.Schema{K: "array", Items: &str}
	case "arrayOfInt":
		return aspec.Schema{K: "array", Items: &i64}
	case "arrayOfDatetime":
		return aspec.Schema{K: "array", Items: &aspec.Schema{K: "datetime"}}
	case "arrayOfObject":
		o := objSchema(aspec.Prop{Name: "id", Schema: i64, Req: true}, aspec.Prop{Name: "tag", Schema: str})
		return aspec.Schema{K: "array", Items: &o}
	case "arrayOfArray":
		inner := aspec.Schema{K: "array", Items: &str}
		return aspec.Schema{K: "array", Items: &inner}
	case "object":
		return objSchema(aspec.Prop{Name: "id", Schema: i64, Req: true}, aspec.Prop{Name: "tag", Schema: str})
	case "objectEmpty":
		return objSchema()
	case "objectAddlAny":
		o := objSchema(aspec.Prop{Name: "id", Schema: i64, Req: true})
		o.AddlK = "any"
		return o
	case "objectAddlString":
		o := objSchema(aspec.Prop{Name: "id", Schema: i64})
		o.AddlK, o.Addl = "schema", &str
		return o
	case "allOfInlineRef", "allOfRefInline", "allOfRefRef", "allOfInlineInline":
		m1 := objSchema(aspec.Prop{Name: "name", Schema: str, Req: true}, aspec.Prop{Name: "tag", Schema: str})
		m2 := objSchema(aspec.Prop{Name: "id", Schema: i64, Req: true})
		var of []aspec.Schema
		switch kind {
		case "allOfInlineRef":
			of = []aspec.Schema{m2, member("MemberA", m1)}
		case "allOfRefInline":
			of = []aspec.Schema{member("MemberA", m1), m2}
		case "allOfRefRef":
			of = []aspec.Schema{member("MemberA", m1), member("MemberB", m2)}
		default:
			of = []aspec.Schema{m1, m2}
		}
		return aspec.Schema{K: "allOf", Of: of}
	case "oneOf", "oneOfDisc", "oneOfDiscMap":
		v1 := objSchema(aspec.Prop{Name: "kind", Schema: str, Req: true}, aspec.Prop{Name: "bark", Schema: str, Req: true})
		v2 := objSchema(aspec.Prop{Name: "kind", Schema: str, Req: true}, aspec.Prop{Name: "meow", Schema: i64, Req: true})
		s := aspec.Schema{K: "oneOf", Of: []aspec.Schema{member("VarDog", v1), member("VarCat", v2)}}
		if kind != "oneOf" {
			s.DiscProp = "kind"
		}
		if kind == "oneOfDiscMap" {
			s.DiscMap = []aspec.KV{{K: "dog", V: "VarDog"}, {K: "cat", V: "VarCat"}, {K: "kitten", V: "VarCat"}}
		}
		return s
	}
	return aspec.Schema{K: kind}
}

// cellSpec renders one matrix cell in a canonical carrier spec.
func cellSpec(c cell, flags aspec.Flags, base aspec.Base) *aspec.ASpec {
	a := &aspec.ASpec{Base: base, SpecName: "openapi.yaml", Flags: flags, Security: aspec.Sec{K: "none"}, Title: c.String()}
	s := kindSchema(a, c.Kind)
	if s.K == "allOf" || s.K == "oneOf" {
		// nullable has no place on a composition in this dialect; hoist and mark the reference's carrier instead
		if c.Nullable {
			a.Schemas = append(a.Schemas, aspec.NamedSchema{Name: "Composed", Schema: s})
			s = aspec.Schema{K: "ref", To: "Composed"}
		}
	}
	s.Nullable = c.Nullable && s.K != "ref"
	switch c.Ref {
	case "ref":
		a.Schemas = append(a.Schemas, aspec.NamedSchema{Name: "CellSchema", Schema: s})
		s = aspec.Schema{K: "ref", To: "CellSchema"}
	case "alias":
		a.Schemas = append(a.Schemas, aspec.NamedSchema{Name: "CellTarget", Schema: s}, aspec.NamedSchema{Name: "CellSchema", Schema: aspec.Schema{K: "ref", To: "CellTarget"}})
		s = aspec.Schema{K: "ref", To: "CellSchema"}
	case "aliasBack":
		a.Schemas = append(a.Schemas, aspec.NamedSchema{Name: "CellAaTarget", Schema: s}, aspec.NamedSchema{Name: "CellSchema", Schema: aspec.Schema{K: "ref", To: "CellAaTarget"}})
		s = aspec.Schema{K: "ref", To: "CellSchema"}
	}
	lit := func(x string) []aspec.Seg { return []aspec.Seg{{K: "lit", S: x}} }
	op := simpleOp("GET", lit("cell"))
	okBody := func(sch aspec.Schema) {
		op.Responses = []aspec.RespRef{{Status: "200", R: &aspec.Response{Desc: "ok", Body: aspec.Body{K: "json", Schema: &sch}}}}
	}
	tmpl := lit("cell")
	switch c.Pos {
	case "component":
		if c.Ref == "inline" {
			a.Schemas = append(a.Schemas, aspec.NamedSchema{Name: "CellSchema", Schema: s})
		}
		okBody(aspec.Schema{K: "ref", To: "CellSchema"})
	case "property":
		a.Schemas = append(a.Schemas, aspec.NamedSchema{Name: "Holder", Schema: objSchema(aspec.Prop{Name: "value", Schema: s, Req: c.Req}, aspec.Prop{Name: "other", Schema: aspec.Schema{K: "string"}})})
		okBody(aspec.Schema{K: "ref", To: "Holder"})
	case "items":
		a.Schemas = append(a.Schemas, aspec.NamedSchema{Name: "Holder", Schema: aspec.Schema{K: "array", Items: &s}})
		okBody(aspec.Schema{K: "ref", To: "Holder"})
	case "addl":
		h := objSchema(aspec.Prop{Name: "id", Schema: aspec.Schema{K: "int64"}})
		h.AddlK, h.Addl = "schema", &s
		a.Schemas = append(a.Schemas, aspec.NamedSchema{Name: "Holder", Schema: h})
		okBody(aspec.Schema{K: "ref", To: "Holder"})
	case "query", "header":
		op.Params = append(op.Params, aspec.Param{In: c.Pos, Name: "cell-value", Req: c.Req, Schema: s})
	case "path":
		tmpl = []aspec.Seg{{K: "lit", S: "cell"}, {K: "var", S: "value"}}
		op = simpleOp("GET", tmpl)
		op.Params = []aspec.Param{{In: "path", Name: "value", Req: true, Schema: s}}
	case "requestBody":
		op.Method = "POST"
		op.Body = aspec.Body{K: "json", Schema: &s, Req: true}
	case "responseBody":
		okBody(s)
	case "responseHeader":
		op.Responses = []aspec.RespRef{{Status: "200", R: &aspec.Response{Desc: "ok", Headers: []aspec.Header{{Name: "X-Cell", Req: c.Req, Schema: s}}, Body: aspec.Body{K: "none"}}}}
	case "componentParameter":
		a.Parameters = append(a.Parameters, aspec.NamedParam{Name: "CellParam", Param: aspec.Param{In: "query", Name: "cell-value", Req: c.Req, Schema: s}})
		op.Params = append(op.Params, aspec.Param{Ref: "CellParam", In: "query", Name: "cell-value"})
	case "componentHeader":
		a.Headers = append(a.Headers, aspec.NamedHeader{Name: "CellHeader", Header: aspec.Header{Name: "X-Cell", Req: c.Req, Schema: s}})
		op.Responses = []aspec.RespRef{{Status: "200", R: &aspec.Response{Desc: "ok", Headers: []aspec.Header{{Name: "X-Cell", Ref: "CellHeader"}}, Body: aspec.Body{K: "none"}}}}
	case "componentResponse":
		a.Responses = append(a.Responses, aspec.NamedResponse{Name: "CellResponse", R: &aspec.Response{Desc: "ok", Body: aspec.Body{K: "json", Schema: &s}}})
		op.Responses = []aspec.RespRef{{Status: "200", Ref: "CellResponse"}, {Status: "default", Ref: "CellResponse2"}}
		a.Responses = append(a.Responses, aspec.NamedResponse{Name: "CellResponse2", R: &aspec.Response{Desc: "err", Body: aspec.Body{K: "json", Schema: &s}}})
	case "componentRequestBody":
		a.RequestBodies = append(a.RequestBodies, aspec.NamedBody{Name: "CellBody", Body: aspec.Body{K: "json", Schema: &s, Req: true}})
		op.Method = "POST"
		op.Body = aspec.Body{K: "ref", To: "CellBody"}
	}
	a.Paths = []aspec.PathItem{{Template: tmpl, Ops: []aspec.Op{op}}}
	return a
}

type cellRec struct {
	Kind     string `json:"kind"`
	Pos      string `json:"pos"`
	Req      bool   `json:"req"`
	Nullable bool   `json:"nullable"`
	Ref      string `json:"ref"`
	Shape    string `json:"shape"`
}

type genEvent struct {
	Ev                   string  `json:"ev"`
	Cell                 cellRec `json:"cell"`
	Case                 string  `json:"case"`
	OK                   bool    `json:"ok"`
	Panic                bool    `json:"panic"`
	ErrText              string  `json:"errText"`
	SwallowedFormatError bool    `json:"swallowedFormatError"`
	ParseErrs            int     `json:"parseErrs"`
	FmtDiffs             int     `json:"fmtDiffs"`
	TypeErrs             int     `json:"typeErrs"`
	Located              bool    `json:"located"`
	MustLocate           bool    `json:"mustLocate"`
	ExitOK               bool    `json:"exitOK"`
	Nontrivial           bool    `json:"nontrivial"`
}

func genEventOf(id string, r core.GenResult) genEvent {
	return genEvent{Ev: "Gen", Case: id, OK: r.OK, Panic: r.Panic != "", ErrText: trunc(r.Err, 300),
		SwallowedFormatError: strings.Contains(r.Log, "Error on format go source"),
		ParseErrs:            len(r.ParseErr), FmtDiffs: len(r.FmtDiff), TypeErrs: len(r.TypeErr), ExitOK: true, Nontrivial: r.OK}
}

// extraCell describes a spec of the extra axes ("name:<shape>@<site>", "text:<shape>@<site>", "<axis>:<what>") as a cell record.
func extraCell(name string) cellRec {
	axis, rest, _ := strings.Cut(name, ":")
	shape, site, _ := strings.Cut(rest, "@")
	shape = strings.Map(func(r rune) rune {
		if r > 126 || r < 32 {
			return '?'
		}
		return r
	}, shape)
	switch axis {
	case "wireop", "compose":
		return cellRec{Kind: "extra", Ref: axis, Pos: site, Shape: shape}
	case "name", "text":
		return cellRec{Kind: "extra", Ref: axis, Pos: site, Shape: shape}
	case "kitchen":
		return cellRec{Kind: "extra", Ref: "config", Pos: "flags", Shape: shape}
	}
	return cellRec{Kind: "extra", Ref: "config", Pos: axis, Shape: rest}
}

func checkC01(c *core.Check) {
	c.Assumptions = []string{
		"'type-checks' is decided by go/parser + go/format + go/types with the source importer (standard library only); TLA+ frames the domain and the result protocol, the predicate itself is observed",
		"custom Go types (x-goag-go-type) and custom Maybe/Nullable are outside the dialect (they need user code)",
	}
	thorough := c.Tier == "thorough"
	r, err := core.RunTLC(core.TLCOpts{Module: "MC_Dialect", Workers: 4, Timeout: 10 * time.Minute})
	if err != nil || r.Error != "" {
		c.HarnessError(fmt.Sprintf("MC_Dialect: %v %s", err, r.Error))
		return
	}
	c.AddTLC(r)
	var cells []cell
	for _, j := range r.JSON {
		var v struct {
			Cell cell `json:"cell"`
		}
		if json.Unmarshal(j, &v) == nil && v.Cell.Kind != "" {
			cells = append(cells, v.Cell)
		}
	}
	sort.Slice(cells, func(i, j int) bool { return cells[i].String() < cells[j].String() })
	if len(cells) == 0 {
		c.HarnessError("no cells from TLC")
		return
	}
	namingConformance(c)
	rng := rand.New(rand.NewSource(c.Seed))
	flagSets := []aspec.Flags{{APIHandler: true, DoNotEdit: true, Client: true}, {APIHandler: true, Cors: true}, {APIHandler: true, Client: true, Cors: true, DoNotEdit: true}, {APIHandler: true}}
	bases := baseForms()
	type job struct {
		cell  cell
		flags aspec.Flags
		base  aspec.Base
		spec  *aspec.ASpec
	}
	var jobs []job
	for i, ce := range cells {
		// every cell with client on (the richest output); a second flag/base combination by covering rotation
		jobs = append(jobs, job{cell: ce, flags: flagSets[0], base: bases[0]})
		if thorough || i%3 == 0 {
			jobs = append(jobs, job{cell: ce, flags: flagSets[1+rng.Intn(3)], base: bases[rng.Intn(len(bases))]})
		}
	}
	var gj []core.GenJob
	for i := range jobs {
		jobs[i].spec = cellSpec(jobs[i].cell, jobs[i].flags, jobs[i].base)
		j := jobs[i].spec.Job(fmt.Sprintf("m%d", i))
		j.Package = "gen"
		j.Check = true
		gj = append(gj, j)
	}
	extraSpecs, extraNames := c01ExtraSpecs(c, rng)
	for i, s := range extraSpecs {
		j := s.Job(fmt.Sprintf("x%d", i))
		j.Package = "gen"
		j.Check = true
		gj = append(gj, j)
	}
	t0 := time.Now()
	res := core.RunGenJobs(gj, 0)
	core.Debugf("c01: %d generations in %.1fs", len(gj), time.Since(t0).Seconds())
	var events [][]byte
	info := map[string]any{}
	templates := map[string]bool{}
	nOK, nErr, nBroken := 0, 0, 0
	clusters := map[string]int{}
	kfOf := map[string]string{}
	for i, r := range res {
		if strings.HasPrefix(r.Err, "HARNESS") && r.Panic == "" {
			c.HarnessError("generation: " + r.Err)
			return
		}
		id := gj[i].ID
		ev := genEventOf(id, r)
		if i < len(jobs) {
			ce := jobs[i].cell
			ev.Cell = cellRec{Kind: ce.Kind, Pos: ce.Pos, Req: ce.Req, Nullable: ce.Nullable, Ref: ce.Ref}
		} else {
			ev.Cell = extraCell(extraNames[i-len(jobs)])
		}
		bs, _ := json.Marshal(ev)
		events = append(events, bs)
		for _, t := range r.Templates {
			templates[t] = true
		}
		var desc any
		if i < len(jobs) {
			desc = map[string]any{"cell": jobs[i].cell, "flags": jobs[i].flags, "base": jobs[i].base}

		} else {
			desc = map[string]any{"spec": extraNames[i-len(jobs)]}

		}
		info[id] = map[string]any{"what": desc, "ok": r.OK, "err": trunc(r.Err, 300), "log": trunc(r.Log, 300), "parseErr": r.ParseErr, "fmtDiff": r.FmtDiff, "typeErr": r.TypeErr, "spec": gj[i].Spec}
		switch {
		case !r.OK:
			nErr++
		case r.Builds() && len(r.FmtDiff) == 0:
			nOK++
		default:
			nBroken++
		}
	}
	if p := os.Getenv("VERIF_DUMP"); p != "" {
		bs, _ := json.Marshal(info)
		os.WriteFile(p, bs, 0o644)
	}
	jr, err := core.Judge("Trace_Gen", events, nil)
	if err != nil {
		c.HarnessError(err.Error())
		return
	}
	c.AddTLC(jr.TLC)
	c.Add("evaluations", int64(len(gj)))
	c.Add("programs", int64(nOK))
	c.Add("distinct_nontrivial", int64(jr.Nontriv+len(jr.Rejects)))
	var tl []string
	for t := range templates {
		tl = append(tl, t)
	}
	sort.Strings(tl)
	c.Cov["templates_exercised"] = tl
	c.Cov["outcomes"] = map[string]int{"builds": nOK, "refused_with_error": nErr, "success_but_broken": nBroken}
	c.Cov["rule"] = "TLC (MC_Dialect) enumerates every well-formed cell of the matrix schema kind x position x required x nullable x ref form; each cell is rendered in a carrier spec and generated with client on, and (rotating) with other flag sets and base-path forms; plus name-shape, free-text-shape and composed specs; every output is parsed, gofmt-checked and type-checked; TLC (Trace_Gen) applies the result protocol; non-trivial = generation reported success (the output predicates were evaluated)"
	c.Cov["bounds"] = map[string]any{"cells": len(cells), "jobs": len(gj), "extra_specs": len(extraSpecs)}
	c.Sample(map[string]any{"cell": cells[len(cells)/3], "spec": trunc(gj[len(cells)/3].Spec, 1500)})
	defer func() { c.Cov["rejected_by_finding"] = clusters }()
	for _, rj := range jr.Rejects {
		kfOf[rj.Case] = rj.KF
		clusters[rj.KF]++
		if rj.KF != "" && c.Known(rj.KF) {
			continue
		}
		c.Violation(map[string]any{"case": info[rj.Case], "reject": rj, "cluster": kfOf[rj.Case]},
			fmt.Sprintf("generation result protocol violated (success with broken output, or panic): %v", trunc(fmt.Sprint(info[rj.Case]), 500)))
	}
}
