package checks

import (
	"encoding/json"
	"fmt"
	"math/rand"
	"net/url"
	"strconv"
	"strings"
	"time"

	"verif/driver"
	"verif/internal/aspec"
	"verif/internal/core"
)

func init() { register("C05", "model_checking", checkC05) }

// classify gives the lexeme class of a text for a declared type and the typed token it denotes,
// using strconv / time.Parse as the definition of the lexical spaces (trusted base).
func classify(typ, text string) (cls, tok string) {
	if text == "" {
		if typ == "string" {
			return "empty", "s:"
		}
		return "empty", ""
	}
	switch typ {
	case "string":
		return "canon", "s:" + text
	case "int", "int64":
		if n, err := strconv.ParseInt(text, 10, 64); err == nil {
			return "canon", "i:" + strconv.FormatInt(n, 10)
		}
	case "int32":
		if n, err := strconv.ParseInt(text, 10, 32); err == nil {
			return "canon", "i:" + strconv.FormatInt(n, 10)
		}
	case "double":
		if f, err := strconv.ParseFloat(text, 64); err == nil {
			return "canon", "f:" + strconv.FormatFloat(f, 'g', -1, 64)
		}
	case "float":
		if f, err := strconv.ParseFloat(text, 32); err == nil {
			return "canon", "g:" + strconv.FormatFloat(f, 'g', -1, 32)
		}
	case "bool":
		if text == "true" || text == "false" {
			return "canon", "b:" + text
		}
	case "datetime":
		if t, err := time.Parse(time.RFC3339, text); err == nil {
			return "canon", fmt.Sprintf("t:%d.%09d", t.Unix(), t.Nanosecond())
		}
	}
	return "garbage", ""
}

var pathLex = map[string][]string{
	"string":   {"abc", "a b&c=d?e#f%2Fé", "12a", ""},
	"int":      {"42", "-9223372036854775808", "9223372036854775808", "12a", ""},
	"int64":    {"42", "9223372036854775807", "9223372036854775808", "1.5", ""},
	"int32":    {"42", "-2147483648", "2147483648", "12a", ""},
	"double":   {"1.5", "1.7976931348623157e308", "1e400", "1,5", ""},
	"float":    {"1.5", "3.4028235e38", "1e39", "1.5x", ""},
	"bool":     {"true", "false", "tru", "yes", ""},
	"datetime": {"2024-01-02T03:04:05Z", "2024-01-02T03:04:05.123456789+02:00", "2024-13-01T00:00:00Z", "2024-01-02", ""},
}

func checkC05(c *core.Check) {
	c.Assumptions = []string{
		"a request is judged only when the router dispatched it to an operation (which one is C03's business); the expected value of each path parameter is the request segment at the variable's template position beneath the normalised base path, computed from the operation that actually ran",
		"lexical spaces per type are defined by strconv / time.Parse(RFC3339); an empty segment is never a value (also for strings)",
		"requests carry the decoded path in URL.Path; path values contain no '/'",
	}
	thorough := c.Tier == "thorough"
	// design check: the Params machine incl. the path rule, and the Router walk (segment alignment)
	r, err := core.RunTLC(core.TLCOpts{Module: "MC_PathParams", Cfg: "MC_PathParams.cfg", Workers: 16, Timeout: 20 * time.Minute, Heap: "8g"})
	if err != nil || r.Error != "" {
		c.HarnessError(fmt.Sprintf("MC_PathParams: %v %s", err, r.Error))
		return
	}
	if r.InvViolated != "" {
		c.Note("MODEL: design check MC_PathParams reports %s violated", r.InvViolated)
	}
	c.AddTLC(r)
	sets, ok := routerSets(c, "MC_Router_emit.cfg")
	if !ok {
		return
	}
	rng := rand.New(rand.NewSource(c.Seed))
	rng.Shuffle(len(sets), func(i, j int) { sets[i], sets[j] = sets[j], sets[i] })
	// every other set of the sample is one in which two templates of equal length meet a literal with a variable and
	// answer to different methods: a request for the one fits the other up to the method, the router has to back out
	backOut := func(s tset) bool {
		for i := range s.Set {
			for j := range s.Set {
				if i == j || len(s.Set[i].T) != len(s.Set[j].T) || fmt.Sprint(s.Set[i].Ms) == fmt.Sprint(s.Set[j].Ms) {
					continue
				}
				// (the literal side ends in a variable: its leaf is reached, only the method is wrong)
				if n := len(s.Set[i].T); s.Set[i].T[n-1].K != "var" {
					continue
				}
				for k := range s.Set[i].T {
					if s.Set[i].T[k].K == "lit" && s.Set[i].T[k].S != "" && s.Set[j].T[k].K == "var" {
						return true
					}
				}
			}
		}
		return false
	}
	{
		var sel, rest, mixed []tset
		for _, s := range sets {
			if backOut(s) {
				sel = append(sel, s)
			} else {
				rest = append(rest, s)
			}
		}
		for len(sel) > 0 || len(rest) > 0 {
			if len(sel) > 0 {
				mixed = append(mixed, sel[0])
				sel = sel[1:]
			}
			if len(rest) > 0 {
				mixed = append(mixed, rest[0])
				rest = rest[1:]
			}
		}
		sets = mixed
	}
	types := []string{"string", "int", "int32", "int64", "double", "float", "bool", "datetime"}
	nSets := 160
	if thorough {
		nSets = 2500
	}
	bases := baseForms()
	specs := map[string]*aspec.ASpec{}
	var groups []pGroup
	type opMeta struct {
		tmpl  []aspec.Seg
		decls []decl
	}
	opsByPkg := map[string]map[string]opMeta{}
	baseLen := map[string]int{}
	caseN := 0
	perPkg := 14
	used := 0
	for start := 0; used < nSets && start < len(sets); start += perPkg {
		id := fmt.Sprintf("pt%d", start/perPkg)
		b := bases[(start/perPkg)%len(bases)]
		a := &aspec.ASpec{Base: b, SpecName: "openapi.yaml", Flags: aspec.Flags{APIHandler: true, DoNotEdit: true}, Security: aspec.Sec{K: "none"}}
		g := pGroup{Pkg: id, ASpec: a, API: driver.APIConfig{Mw: 0, NotFound: true}}
		opsByPkg[id] = map[string]opMeta{}
		baseLen[id] = len(strings.Split(strings.Trim(b.NF(), "/"), "/"))
		if b.NF() == "" {
			baseLen[id] = 0
		}
		for si := start; si < start+perPkg && si < len(sets) && used < nSets; si++ {
			hasVar := false
			for _, m := range sets[si].Set {
				for _, s := range m.T {
					if s.K == "var" {
						hasVar = true
					}
				}
			}
			if !hasVar {
				continue
			}
			used++
			prefix := fmt.Sprintf("s%04d", si)
			for mi, m := range sets[si].Set {
				t := mountNamed([]string{prefix}, m.T, varLetters[(si+mi*3)%len(varLetters)])
				pi := aspec.PathItem{Template: t}
				ds := []decl{}
				var params []aspec.Param
				for _, s := range t {
					if s.K != "var" {
						continue
					}
					typ := types[rng.Intn(len(types))]
					sch := aspec.Schema{K: typ}
					if rng.Intn(4) == 0 {
						name := fmt.Sprintf("PS%dx%s%d", si, s.S, len(a.Schemas))
						a.Schemas = append(a.Schemas, aspec.NamedSchema{Name: name, Schema: sch})
						sch = aspec.Schema{K: "ref", To: name}
					}
					params = append(params, aspec.Param{In: "path", Name: s.S, Req: true, Schema: sch})
					ds = append(ds, decl{In: "path", Name: s.S, Type: typ, Req: true})
				}
				// declaration order is independent of template order; some parameters are declared at
				// path-item level or through components.parameters
				rng.Shuffle(len(params), func(i, j int) { params[i], params[j] = params[j], params[i] })
				var opParams []aspec.Param
				for pi2, p := range params {
					switch rng.Intn(4) {
					case 0:
						pi.Params = append(pi.Params, p)
					case 1:
						name := fmt.Sprintf("PP%dx%dx%d", si, mi, pi2)
						a.Parameters = append(a.Parameters, aspec.NamedParam{Name: name, Param: p})
						opParams = append(opParams, aspec.Param{Ref: name, In: "path", Name: p.Name})
					default:
						opParams = append(opParams, p)
					}
				}
				for _, meth := range m.Ms {
					op := simpleOp(meth, t)
					op.Params = opParams
					pi.Ops = append(pi.Ops, op)
					opsByPkg[id][meth+" "+aspec.TemplateString(t)] = opMeta{tmpl: t, decls: ds}
				}
				a.Paths = append(a.Paths, pi)
				// requests: every variable filled from its type's lexemes, one position varied at a time,
				// plus seeded full combinations
				var vars []int
				for i, s := range t {
					if s.K == "var" {
						vars = append(vars, i)
					}
				}
				fill := func(choice map[int]string) string {
					p := b.NF()
					for i, s := range t {
						if s.K == "var" {
							p += "/" + choice[i]
						} else {
							p += "/" + s.S
						}
					}
					return p
				}
				// the same path in another valid spelling: the first character of every literal segment (base path
				// included) percent-encoded although it need not be - what the router and Parse() work on is the decoded path
				over := func(seg string) string {
					if seg == "" {
						return seg
					}
					return fmt.Sprintf("%%%02X", seg[0]) + url.PathEscape(seg[1:])
				}
				fillRaw := func(choice map[int]string) string {
					p := ""
					for _, bs := range b.Segs {
						p += "/" + over(bs)
					}
					for i, s := range t {
						if s.K == "var" {
							p += "/" + url.PathEscape(choice[i])
						} else {
							p += "/" + over(s.S)
						}
					}
					return p
				}
				var reqs []map[int]string
				for _, vi := range vars {
					for _, lx := range pathLex[typeOfVar(ds, t, vi)] {
						ch := map[int]string{}
						for _, vj := range vars {
							ch[vj] = pathLex[typeOfVar(ds, t, vj)][0]
						}
						ch[vi] = lx
						reqs = append(reqs, ch)
					}
				}
				for k := 0; k < 6; k++ {
					ch := map[int]string{}
					for _, vj := range vars {
						l := pathLex[typeOfVar(ds, t, vj)]
						ch[vj] = l[rng.Intn(len(l))]
					}
					reqs = append(reqs, ch)
				}
				// values that are the literal segments of the set's other templates at the same position: the request then
				// also fits (part of) a sibling template, which the router tries first and has to back out of
				for mo, o := range sets[si].Set {
					if mo == mi || len(o.T) != len(m.T) {
						continue
					}
					ch := map[int]string{}
					for _, vj := range vars {
						ch[vj] = pathLex[typeOfVar(ds, t, vj)][0]
						if oj := vj - 1; oj >= 0 && oj < len(o.T) && o.T[oj].K == "lit" && o.T[oj].S != "" {
							ch[vj] = o.T[oj].S
						}
					}
					reqs = append(reqs, ch)
				}
				for _, ch := range reqs {
					for _, meth := range m.Ms {
						caseN++
						rc := mkReq(fmt.Sprintf("c%d", caseN), meth, fill(ch), nil, a)
						rc.Script = driver.Script{Parse: true, Reparse: true}
						if caseN%3 == 0 {
							rc.RawPath = fillRaw(ch)
						}
						g.Cases = append(g.Cases, rc)
					}
				}
			}
		}
		if len(a.Paths) == 0 {
			continue
		}
		specs[id] = a
		groups = append(groups, g)
	}
	run, evs, kept, ok := driveGroups(c, specs, groups, "pipeline")
	if !ok {
		return
	}
	var events [][]byte
	add := func(v any) {
		bs, _ := json.Marshal(v)
		events = append(events, bs)
	}
	type cfgOp struct {
		ID    string `json:"id"`
		Decls []decl `json:"decls"`
	}
	handlerOp := map[string]string{}
	reqSegs := map[string][]string{}
	metaOf := map[string]struct {
		decls []decl
		sup   []supEntry
	}{}
	curPkg := ""
	notDispatched := 0
	judged := 0
	for _, raw := range evs {
		var e map[string]any
		json.Unmarshal(raw, &e)
		cid, _ := e["case"].(string)
		switch e["ev"] {
		case "DriverError":
			c.HarnessError(fmt.Sprintf("driver: %v", e["err"]))
			return
		case "Group":
			g := kept[int(e["group"].(float64))]
			curPkg = g.Pkg
			ops := []cfgOp{}
			for oid, m := range opsByPkg[curPkg] {
				ops = append(ops, cfgOp{ID: oid, Decls: m.decls})
			}
			add(map[string]any{"ev": "Config", "ops": ops})
		case "Req":
			var segs []string
			for _, s := range e["segs"].([]any) {
				segs = append(segs, s.(string))
			}
			reqSegs[cid] = segs
		case "Handler":
			handlerOp[cid], _ = e["op"].(string)
		case "Parse":
			oid := handlerOp[cid]
			m, ok := opsByPkg[curPkg][oid]
			if !ok {
				c.HarnessError("Parse event for unknown operation " + oid)
				return
			}
			segs := reqSegs[cid]
			bl := baseLen[curPkg]
			sup := []supEntry{}
			for i, s := range m.tmpl {
				if s.K != "var" {
					continue
				}
				text := ""
				if bl+i < len(segs) {
					text = segs[bl+i]
				}
				var typ string
				for _, d := range m.decls {
					if d.Name == s.S {
						typ = d.Type
					}
				}
				cls, tok := classify(typ, text)
				sup = append(sup, supEntry{Key: "path:" + s.S, Lex: []supLex{{Cls: cls, Tok: tok}}})
			}
			add(parseEvent(e, oid, m.decls, sup))
			metaOf[cid] = struct {
				decls []decl
				sup   []supEntry
			}{m.decls, sup}
			judged++
			if len(run.raw[cid]) < 4 {
				run.raw[cid] = append(run.raw[cid], trunc(string(raw), 600))
			}
		case "Done":
			if _, ok := handlerOp[cid]; !ok {
				notDispatched++
			}
		}
	}
	jr, err := core.Judge("Trace_Params", events, nil)
	if err != nil {
		c.HarnessError(err.Error())
		return
	}
	c.AddTLC(jr.TLC)
	c.Drift("Params (generated parse order: which of several failing parameters is named)", jr.Drifts)
	c.Add("traces_validated_against_impl", int64(judged))
	// (Parse() is called twice per dispatched request and both outcomes are judged: an evaluation is one judged outcome)
	c.Add("evaluations", int64(judged))
	c.Cov["requests"] = run.requests
	c.Add("programs", int64(run.programs))
	c.Add("distinct_nontrivial", int64(jr.Nontriv))
	c.Cov["not_dispatched_not_judged"] = notDispatched
	c.Cov["exhaustive"] = false
	c.Cov["rule"] = "template sets enumerated by TLC (MC_Router) with every variable given a seeded type (string, integer kinds, number kinds, boolean, date-time, $ref to a primitive schema) are mounted under all base-path forms; for every template each variable position is filled with every lexeme of its type (canonical, boundary, out of range, garbage, empty) while the others are canonical, plus seeded combinations; requests go through API.ServeHTTP; for the operation that ran, TLC (Trace_Params) checks that Parse() yields the typed value of the segment at each variable's template position or an error naming a failing path parameter; non-trivial = all dispatched requests (every one supplies a segment per variable)"
	c.Cov["bounds"] = map[string]any{"template_sets": used, "base_forms": len(bases)}
	if len(run.excluded) > 0 {
		c.Cov["excluded_not_building"] = run.excluded
	}
	if len(groups) > 0 && len(groups[0].Cases) > 3 {
		c.Sample(map[string]any{"request": groups[0].Cases[3], "paths": groups[0].ASpec.Paths[0]})
	}
	if notDispatched*3 > run.requests {
		c.HarnessError(fmt.Sprintf("%d of %d requests were not dispatched; the universe is not exercising path parsing", notDispatched, run.requests))
	}
	for _, rj := range jr.Rejects {
		m := metaOf[rj.Case]
		c.Violation(map[string]any{"case": run.caseInfo[rj.Case], "decls": m.decls, "segments": m.sup, "observed": run.raw[rj.Case], "reject": rj},
			fmt.Sprintf("path parameters: %v decls %+v segments %+v: observed %s (model: failing=%s)", run.caseInfo[rj.Case], m.decls, m.sup, trunc(string(rj.Event), 300), rj.Why))
	}
}

func typeOfVar(ds []decl, t []aspec.Seg, pos int) string {
	for _, d := range ds {
		if d.Name == t[pos].S {
			return d.Type
		}
	}
	return "string"
}
