package checks

import (
	"encoding/json"
	"fmt"
	"math/rand"
	"sort"
	"strings"
	"time"

	"verif/internal/aspec"
	"verif/internal/core"
)

func init() { register("C12", "exploration", checkC12) }

// fatDoc builds a spec with at least four entries in every map-typed OpenAPI construct.
func fatDoc() map[string]any {
	str := aspec.Schema{K: "string"}
	i64 := aspec.Schema{K: "int64"}
	a := &aspec.ASpec{Base: aspec.Base{Form: "none"}, SpecName: "openapi.yaml", Flags: aspec.Flags{APIHandler: true, Client: true, Cors: true}, Security: aspec.Sec{K: "list", List: [][]string{{"K1", "K2", "K3", "K4", "Bear"}, {"K2"}}},
		Schemes: []aspec.Scheme{{Key: "K1", Kind: "apiKeyHeader", Name: "X-K1"}, {Key: "K2", Kind: "apiKeyHeader", Name: "X-K2"}, {Key: "K3", Kind: "apiKeyQuery", Name: "k3"}, {Key: "K4", Kind: "apiKeyHeader", Name: "X-K4"}, {Key: "Bear", Kind: "bearer"}, {Key: "Oa", Kind: "oauth2"}}}
	var variants []aspec.Schema
	var dm []aspec.KV
	for i, n := range []string{"Alpha", "Beta", "Gamma", "Delta", "Eps"} {
		a.Schemas = append(a.Schemas, aspec.NamedSchema{Name: n, Schema: objSchema(aspec.Prop{Name: "kind", Schema: str, Req: true}, aspec.Prop{Name: fmt.Sprintf("f%d", i), Schema: i64, Req: true}, aspec.Prop{Name: "zeta", Schema: str}, aspec.Prop{Name: "eta", Schema: str}, aspec.Prop{Name: "theta", Schema: str, Req: true})})
		variants = append(variants, aspec.Schema{K: "ref", To: n})
		dm = append(dm, aspec.KV{K: strings.ToLower(n), V: n}, aspec.KV{K: fmt.Sprintf("alias%d", i), V: n})
	}
	a.Schemas = append(a.Schemas, aspec.NamedSchema{Name: "Union", Schema: aspec.Schema{K: "oneOf", Of: variants, DiscProp: "kind", DiscMap: dm}})
	for i := 0; i < 4; i++ {
		a.Parameters = append(a.Parameters, aspec.NamedParam{Name: fmt.Sprintf("P%d", i), Param: aspec.Param{In: []string{"query", "header"}[i%2], Name: fmt.Sprintf("p-%d", i), Schema: str}})
		a.Headers = append(a.Headers, aspec.NamedHeader{Name: fmt.Sprintf("H%d", i), Header: aspec.Header{Name: fmt.Sprintf("X-H%d", i), Schema: str}})
		a.Responses = append(a.Responses, aspec.NamedResponse{Name: fmt.Sprintf("R%d", i), R: &aspec.Response{Desc: "r", Headers: []aspec.Header{{Name: "X-A", Schema: str}, {Name: "X-B", Schema: str}, {Name: "X-C", Schema: i64}, {Name: "X-D", Schema: str}}, Body: aspec.Body{K: "json", Schema: &aspec.Schema{K: "ref", To: "Union"}}}})
		a.RequestBodies = append(a.RequestBodies, aspec.NamedBody{Name: fmt.Sprintf("B%d", i), Body: aspec.Body{K: "json", Schema: &aspec.Schema{K: "ref", To: "Alpha"}}})
	}
	for i := 0; i < 5; i++ {
		t := []aspec.Seg{{K: "lit", S: fmt.Sprintf("r%d", i)}, {K: "var", S: "id"}}
		var ops []aspec.Op
		for mi, m := range []string{"GET", "POST", "PUT", "DELETE"} {
			op := simpleOp(m, t)
			op.Params = append(op.Params, aspec.Param{Ref: fmt.Sprintf("P%d", mi), In: []string{"query", "header"}[mi%2], Name: fmt.Sprintf("p-%d", mi)}, aspec.Param{In: "query", Name: "q1", Schema: str}, aspec.Param{In: "query", Name: "q2", Schema: i64}, aspec.Param{In: "header", Name: "X-Z", Schema: str})
			op.Responses = []aspec.RespRef{{Status: "200", Ref: fmt.Sprintf("R%d", mi)}, {Status: "201", R: &aspec.Response{Desc: "c", Body: aspec.Body{K: "none"}}}, {Status: "404", R: &aspec.Response{Desc: "n", Body: aspec.Body{K: "none"}}}, {Status: "409", R: &aspec.Response{Desc: "x", Body: aspec.Body{K: "json", Schema: &str}}}}
			if m != "GET" && m != "DELETE" {
				op.Body = aspec.Body{K: "ref", To: fmt.Sprintf("B%d", mi)}
			}
			if mi == 2 {
				op.Security = aspec.Sec{K: "list", List: [][]string{{"K4", "K1", "K3", "K2"}}}
			}
			ops = append(ops, op)
		}
		a.Paths = append(a.Paths, aspec.PathItem{Template: t, Ops: ops})
	}
	doc := a.Document()
	// constructs the ASpec renderer has no field for
	doc["servers"] = []any{map[string]any{"url": "https://{host}/{base}/{ver}{suffix}", "variables": map[string]any{
		"host": map[string]any{"default": "example.test"}, "base": map[string]any{"default": "api"}, "ver": map[string]any{"default": "v{minor}"}, "minor": map[string]any{"default": "2"}, "suffix": map[string]any{"default": ""}}}}
	comps := doc["components"].(map[string]any)
	ss := comps["securitySchemes"].(map[string]any)
	ss["Oa"] = map[string]any{"type": "oauth2", "flows": map[string]any{"implicit": map[string]any{"authorizationUrl": "https://example.test/a", "scopes": map[string]any{"read": "r", "write": "w", "admin": "a", "audit": "u"}}}}
	// several media types on one response and one request body
	paths := doc["paths"].(map[string]any)
	p0 := paths["/r0/{id}"].(map[string]any)["post"].(map[string]any)
	p0["requestBody"] = map[string]any{"content": map[string]any{"application/json": map[string]any{"schema": map[string]any{"$ref": "#/components/schemas/Alpha"}}, "application/xml": map[string]any{"schema": map[string]any{"type": "string"}}, "text/plain": map[string]any{"schema": map[string]any{"type": "string"}}, "application/octet-stream": map[string]any{"schema": map[string]any{"type": "string", "format": "binary"}}}}
	return doc
}

// extFatDoc: specification extensions (`x-...`) are one more map in every OpenAPI object. Schemas, parameters and
// operations carry the extensions goag reads next to the spellings other generators use for the same things and a
// few unrelated ones: whatever the generator does with the ones it does not know must not depend on the order it
// meets them in.
func extFatDoc() map[string]any {
	exts := func(goType, timeFmt string) map[string]any {
		m := map[string]any{"x-go-name": "Renamed", "x-order": 3, "x-nullable": false, "x-omitempty": true, "x-go-type-skip-optional-pointer": true,
			"x-oapi-codegen-extra-tags": map[string]any{"validate": "required"}, "x-deprecated-reason": "none", "x-enum-varnames": []any{"A", "B"}}
		if goType != "" {
			m["x-goag-go-type"], m["x-go-type"], m["x-goag-type"], m["x-go-custom-type"] = goType, goType+"Number", goType+"Alt", goType+"Custom"
		}
		if timeFmt != "" {
			m["x-goag-go-time-format"], m["x-go-time-format"], m["x-time-format"], m["x-goag-time-format"] = timeFmt, "time.Kitchen", "time.ANSIC", "time.RFC850"
		}
		return m
	}
	with := func(s map[string]any, e map[string]any) map[string]any {
		for k, v := range e {
			s[k] = v
		}
		return s
	}
	str := func() map[string]any { return map[string]any{"type": "string"} }
	dt := func() map[string]any { return map[string]any{"type": "string", "format": "date-time"} }
	return map[string]any{
		"openapi": "3.0.3", "info": map[string]any{"title": "ext", "version": "1"},
		"paths": map[string]any{"/items/{id}": with(map[string]any{
			"get": with(map[string]any{
				"operationId": "getItem",
				"parameters": []any{
					with(map[string]any{"name": "id", "in": "path", "required": true, "schema": with(str(), exts("ItemID", ""))}, exts("", "")),
					map[string]any{"name": "page", "in": "query", "schema": with(map[string]any{"type": "integer"}, exts("Page", ""))},
					map[string]any{"name": "since", "in": "query", "schema": with(dt(), exts("", "time.RFC1123"))},
					map[string]any{"name": "X-Trace", "in": "header", "schema": with(str(), exts("TraceID", ""))},
				},
				"responses": map[string]any{"200": map[string]any{"description": "ok",
					"headers": map[string]any{"X-When": map[string]any{"schema": with(dt(), exts("", "time.RFC822"))}},
					"content": map[string]any{"application/json": map[string]any{"schema": map[string]any{"$ref": "#/components/schemas/Item"}}}}},
			}, exts("", "")),
		}, exts("", ""))},
		"components": map[string]any{"schemas": map[string]any{
			"Item": with(map[string]any{"type": "object", "required": []any{"id"}, "properties": map[string]any{
				"id":      with(str(), exts("ItemID", "")),
				"created": with(dt(), exts("", "time.RFC3339")),
				"owner":   with(str(), exts("Owner", "")),
				"tags":    map[string]any{"type": "array", "items": with(str(), exts("Tag", ""))},
			}}, exts("", "")),
			"Stamp": with(dt(), exts("", "time.RFC1123Z")),
			"Code":  with(str(), exts("Code", "")),
		}},
	}
}

// casePairDoc: keys that differ only in case (legitimate, distinct Go names) in every map the generator orders:
// an ordering that treats them as equal leaves their relative order to the map iteration.
func casePairDoc() map[string]any {
	str := aspec.Schema{K: "string"}
	i64 := aspec.Schema{K: "int64"}
	a := &aspec.ASpec{Base: aspec.Base{Form: "none"}, SpecName: "openapi.yaml", Flags: aspec.Flags{APIHandler: true, Client: true}, Security: aspec.Sec{K: "none"}}
	pairProps := func(extra string) aspec.Schema {
		return objSchema(aspec.Prop{Name: "kind", Schema: str, Req: true}, aspec.Prop{Name: "userName", Schema: str}, aspec.Prop{Name: "username", Schema: str}, aspec.Prop{Name: "itemID", Schema: i64, Req: true},
			aspec.Prop{Name: "itemId", Schema: i64, Req: true}, aspec.Prop{Name: "zetaValue", Schema: str}, aspec.Prop{Name: "ZetaValue2", Schema: str}, aspec.Prop{Name: extra, Schema: str})
	}
	a.Schemas = append(a.Schemas, aspec.NamedSchema{Name: "CatKind", Schema: pairProps("meow")}, aspec.NamedSchema{Name: "Catkind", Schema: pairProps("purr")}, aspec.NamedSchema{Name: "DogKind", Schema: pairProps("bark")},
		aspec.NamedSchema{Name: "Pets", Schema: aspec.Schema{K: "oneOf", Of: []aspec.Schema{{K: "ref", To: "CatKind"}, {K: "ref", To: "Catkind"}, {K: "ref", To: "DogKind"}}, DiscProp: "kind",
			DiscMap: []aspec.KV{{K: "cat", V: "CatKind"}, {K: "CAT", V: "CatKind"}, {K: "Cat", V: "Catkind"}, {K: "dog", V: "DogKind"}, {K: "DOG", V: "DogKind"}, {K: "doG", V: "DogKind"}}}})
	for _, seg := range []string{"fooBar", "foobar", "FooBar", "fooBAR", "plain"} {
		t := []aspec.Seg{{K: "lit", S: seg}, {K: "var", S: "id"}}
		op := simpleOp("GET", t)
		op.Params = append(op.Params, aspec.Param{In: "query", Name: "sortBy", Schema: str}, aspec.Param{In: "query", Name: "sortby", Schema: str}, aspec.Param{In: "header", Name: "X-Trace", Schema: str})
		op.Responses = []aspec.RespRef{{Status: "200", R: &aspec.Response{Desc: "ok", Headers: []aspec.Header{{Name: "X-RateLimit", Schema: i64}, {Name: "X-Ratelimit2", Schema: i64}}, Body: aspec.Body{K: "json", Schema: &aspec.Schema{K: "ref", To: "Pets"}}}}}
		a.Paths = append(a.Paths, aspec.PathItem{Template: t, Ops: []aspec.Op{op}})
	}
	return a.Document()
}

func checkC12(c *core.Check) {
	c.Assumptions = []string{
		"Go's map iteration order cannot be enumerated or seeded from outside: schedules are sampled (runs in one process and in separate processes); with k >= 4 entries and a first-key-wins or whole-order site, one pair of runs differs with probability >= 3/4",
		"inputs (spec bytes, config, options) are identical across the runs of one spec; file contents are compared by sha256",
	}
	thorough := c.Tier == "thorough"
	r, err := core.RunTLC(core.TLCOpts{Module: "MC_Determinism", Workers: 4, Timeout: 5 * time.Minute})
	if err != nil || r.Error != "" {
		c.HarnessError(fmt.Sprintf("MC_Determinism: %v %s", err, r.Error))
		return
	}
	if r.InvViolated != "" {
		c.Note("MODEL: design check MC_Determinism reports %s violated: a ranged site reaches the output", r.InvViolated)
	}
	c.AddTLC(r)
	rng := rand.New(rand.NewSource(c.Seed))
	type spec struct {
		name string
		job  core.GenJob
	}
	var specs []spec
	fat, _ := json.MarshalIndent(fatDoc(), "", " ")
	extFat, _ := json.MarshalIndent(extFatDoc(), "", " ")
	specs = append(specs, spec{"ext-fat", core.GenJob{Spec: string(extFat), SpecName: "openapi.yaml", Package: "gen", SpecHandler: "openapi.yaml", Client: true, APIHandler: true, DoNotEdit: true}})
	specs = append(specs, spec{"map-fat", core.GenJob{Spec: string(fat), SpecName: "openapi.yaml", Package: "gen", SpecHandler: "openapi.yaml", Client: true, APIHandler: true, DoNotEdit: true, Config: "cors:\n  enable: true\n"}})
	cp, _ := json.MarshalIndent(casePairDoc(), "", " ")
	specs = append(specs, spec{"case-pairs", core.GenJob{Spec: string(cp), SpecName: "openapi.yaml", Package: "gen", SpecHandler: "openapi.yaml", Client: true, APIHandler: true, DoNotEdit: true}})
	// seeded random compositions: pipeline features (randkitchen.go) and schema constructs (randschema.go)
	rk := rand.New(rand.NewSource(c.Seed + 1212))
	for k := 0; k < 4; k++ {
		a := randKitchen(rk, k*5+rk.Intn(100)*13)
		a.Flags.Client = true
		specs = append(specs, spec{fmt.Sprintf("random-kitchen-%d", k), a.Job(fmt.Sprintf("rk%d", k))})
	}
	{
		a := codecCarrier("rs")
		a.Flags.Client = true
		for i, s := range randSchemas(rk, 40) {
			addNullPools(a, s)
			a.Schemas = append(a.Schemas, aspec.NamedSchema{Name: fmt.Sprintf("Rs%d", i), Schema: s})
		}
		specs = append(specs, spec{"random-schemas", a.Job("rs")})
	}
	ks := kitchenSpec()
	ks.Flags.Client = true
	specs = append(specs, spec{"kitchen", ks.Job("k")})
	for name, doc := range c15Carriers() {
		bs, _ := json.MarshalIndent(doc, "", " ")
		specs = append(specs, spec{"carrier:" + name, core.GenJob{Spec: string(bs), SpecName: "openapi.yaml", Package: "gen", SpecHandler: "openapi.yaml", Client: true, APIHandler: true}})
	}
	// a seeded sample of matrix cells (C01's corpus), incl. ones that are refused: the error text must be stable too
	kinds := []string{"oneOfDiscMap", "oneOfDisc", "object", "objectAddlString", "allOfRefRef", "arrayOfObject", "int32", "string"}
	poss := []string{"component", "property", "query", "responseBody", "componentResponse", "responseHeader"}
	nCells := 12
	if thorough {
		nCells = 60
	}
	for i := 0; i < nCells; i++ {
		ce := cell{Kind: kinds[rng.Intn(len(kinds))], Pos: poss[rng.Intn(len(poss))], Req: true, Ref: []string{"inline", "ref", "alias"}[rng.Intn(3)]}
		if ce.Pos == "component" && ce.Ref == "ref" {
			ce.Ref = "inline"
		}
		a := cellSpec(ce, aspec.Flags{APIHandler: true, Client: true}, aspec.Base{Form: "none"})
		specs = append(specs, spec{"cell:" + ce.String(), a.Job("c")})
	}
	sort.SliceStable(specs, func(i, j int) bool { return specs[i].name < specs[j].name })
	procs, perProc := 4, 6
	if thorough {
		procs, perProc = 16, 16
	}
	var chains [][]core.GenJob
	type ref struct{ spec int }
	var chainSpec []int
	var chainStride []int
	// in every other process another invocation runs before each run of the spec under test - other spec, other
	// options (CORS on, no DO NOT EDIT header, a base path, no client): what it was asked must not stick to the process
	disturber := core.GenJob{Spec: string(extFat), SpecName: "other.yaml", Package: "other", SpecHandler: "other.yaml", Client: false, APIHandler: true, DoNotEdit: false, BasePath: "/other", Config: "cors:\n  enable: true\n"}
	for si, s := range specs {
		for p := 0; p < procs; p++ {
			var ch []core.GenJob
			stride := 1
			if p%2 == 1 {
				stride = 2
			}
			for k := 0; k < perProc; k++ {
				if stride == 2 {
					d := disturber
					d.ID = fmt.Sprintf("x%dp%dk%d", si, p, k)
					ch = append(ch, d)
				}
				j := s.job
				j.ID = fmt.Sprintf("s%dp%dk%d", si, p, k)
				j.Package = "gen"
				// every fourth process generates in surroundings that are none of the inputs (other configs and specs
				// one directory up and down, another working directory, TZ / LANG / GOAG_* variables)
				j.Surround = p%4 == 2
				ch = append(ch, j)
			}
			chains = append(chains, ch)
			chainSpec = append(chainSpec, si)
			chainStride = append(chainStride, stride)
		}
	}
	res := core.RunGenChains(chains, 0)
	var events [][]byte
	type fileSha struct {
		Name string `json:"name"`
		Sha  string `json:"sha"`
	}
	runs := 0
	detail := map[string][]string{}
	for ci, rs := range res {
		si := chainSpec[ci]
		if len(rs) != perProc*chainStride[ci] {
			c.HarnessError(fmt.Sprintf("spec %s: worker failure %+v", specs[si].name, rs))
			return
		}
		for ri, r := range rs {
			if chainStride[ci] == 2 && ri%2 == 0 {
				continue // the other invocation
			}
			if strings.HasPrefix(r.Err, "HARNESS") {
				c.HarnessError("generation: " + r.Err)
				return
			}
			fs := []fileSha{}
			var names []string
			for n := range r.Files {
				names = append(names, n)
			}
			sort.Strings(names)
			for _, n := range names {
				fs = append(fs, fileSha{n, r.Files[n].Sha})
			}
			if !r.OK {
				// an error must be reproducible too: its text stands in for the files
				fs = []fileSha{{"error", core.ShaOf([]byte(r.Err))}}
			}
			bs, _ := json.Marshal(map[string]any{"ev": "Run", "case": specs[si].name, "spec": specs[si].name, "ok": r.OK, "files": fs})
			events = append(events, bs)
			runs++
			sig := fmt.Sprint(fs)
			found := false
			for _, d := range detail[specs[si].name] {
				if d == sig {
					found = true
				}
			}
			if !found {
				detail[specs[si].name] = append(detail[specs[si].name], sig)
			}
		}
	}
	if !batchCheck(c) {
		return
	}
	jr, err := core.Judge("Trace_Determinism", events, nil)
	if err != nil {
		c.HarnessError(err.Error())
		return
	}
	c.AddTLC(jr.TLC)
	c.Add("evaluations", int64(runs))
	c.Add("distinct_nontrivial", int64(jr.Nontriv+len(jr.Rejects)))
	c.Add("programs", int64(len(specs)))
	c.Cov["rule"] = "TLC (MC_Determinism) checks, for every site of the site table and every permutation of 4 keys, that what the site emits does not depend on the schedule; on the code side a spec whose map keys differ only in case (properties, paths, component names, mapping keys, parameters), seeded random compositions of pipeline features and of schema constructs, a map-fat spec (>= 4 entries in paths, schemas, properties, responses, headers, parameters, security schemes, one requirement object, discriminator mapping, server variables with interacting defaults, media types, scopes), the kitchen and carrier specs and a seeded sample of matrix cells are each generated procs x perProc times (separate processes x repeated runs); TLC (Trace_Determinism) requires equal results and file hashes; non-trivial = specs whose generation succeeds"
	c.Cov["bounds"] = map[string]any{"specs": len(specs), "processes_per_spec": procs, "runs_per_process": perProc}
	c.Sample(map[string]any{"spec": "map-fat", "document": trunc(string(fat), 1200)})
	for _, rj := range jr.Rejects {
		c.Violation(map[string]any{"spec": rj.Case, "distinct_outputs": detail[rj.Case], "reject": rj, "document": func() string {
			for _, s := range specs {
				if s.name == rj.Case {
					return s.job.Spec
				}
			}
			return ""
		}()}, fmt.Sprintf("generation of %q is not deterministic: %d distinct outputs over %d runs: %v", rj.Case, len(detail[rj.Case]), procs*perProc, trunc(fmt.Sprint(detail[rj.Case]), 400)))
	}
}

// batchCheck: `goag --dir` (spec/Batch.tla). Every batch of MC_Batch is laid out as a directory of sub-directories
// and generated by one call of the real GenerateDir in a fresh process; every kind of item is generated alone in a
// fresh process as well; TLC (Trace_Batch) judges Independent, FailsAtFirst and PrefixDone on what was left.
func batchCheck(c *core.Check) bool {
	r, err := core.RunTLC(core.TLCOpts{Module: "MC_Batch", Cfg: "MC_Batch.cfg", Workers: 2, Timeout: 5 * time.Minute})
	if err != nil || r.Error != "" {
		c.HarnessError(fmt.Sprintf("MC_Batch: %v %s", err, r.Error))
		return false
	}
	if r.InvViolated != "" {
		c.Note("MODEL: design check MC_Batch reports %s violated", r.InvViolated)
	}
	c.AddTLC(r)
	er, err := core.RunTLC(core.TLCOpts{Module: "MC_Batch", Cfg: "MC_Batch_emit.cfg", Workers: 1, Timeout: 5 * time.Minute})
	if err != nil || er.Error != "" {
		c.HarnessError(fmt.Sprintf("MC_Batch emit: %v %s", err, er.Error))
		return false
	}
	type item struct {
		Kind string `json:"kind"`
	}
	seen := map[string]bool{}
	var batches [][]item
	for _, j := range er.JSON {
		var v struct {
			Batch []item `json:"batch"`
		}
		if json.Unmarshal(j, &v) == nil && len(v.Batch) > 0 && !seen[string(j)] {
			seen[string(j)] = true
			batches = append(batches, v.Batch)
		}
	}
	sort.Slice(batches, func(i, j int) bool { return fmt.Sprint(batches[i]) < fmt.Sprint(batches[j]) })
	if len(batches) == 0 {
		c.HarnessError("MC_Batch emit: no batches")
		return false
	}
	str := aspec.Schema{K: "string"}
	good := &aspec.ASpec{Base: aspec.Base{Form: "none"}, SpecName: "openapi.yaml", Flags: aspec.Flags{APIHandler: true, Client: true, DoNotEdit: true}, Security: aspec.Sec{K: "none"}}
	t := []aspec.Seg{{K: "lit", S: "items"}, {K: "var", S: "id"}}
	op := simpleOp("GET", t)
	op.Params = append(op.Params, aspec.Param{In: "header", Name: "X-Trace", Schema: str})
	good.Paths = []aspec.PathItem{{Template: t, Ops: []aspec.Op{op, simpleOp("DELETE", t)}}}
	goodDoc, _ := json.MarshalIndent(good.Document(), "", " ")
	// refused by the generator: a path parameter of object type
	bad := strings.Replace(string(goodDoc), `"type": "string"`, `"type": "object"`, 1)
	specOf := map[string]string{"plain": string(goodDoc), "cors": string(goodDoc), "fail": bad, "nospec": ""}
	cfgOf := map[string]string{"cors": "cors:\n  enable: true\n"}
	base := core.GenJob{SpecName: "openapi.yaml", Package: "gen", SpecHandler: "openapi.yaml", Client: true, APIHandler: true, DoNotEdit: true, FreshProcess: true}
	var chains [][]core.GenJob
	for _, k := range []string{"plain", "cors", "fail"} {
		j := base
		j.ID, j.Spec, j.Config = "lone-"+k, specOf[k], cfgOf[k]
		chains = append(chains, []core.GenJob{j})
	}
	for bi, b := range batches {
		j := base
		j.ID = fmt.Sprintf("batch%d", bi)
		for ii, it := range b {
			j.Batch = append(j.Batch, core.BatchItem{Name: fmt.Sprintf("d%d_%s", ii+1, it.Kind), Spec: specOf[it.Kind], Config: cfgOf[it.Kind]})
		}
		chains = append(chains, []core.GenJob{j})
	}
	res := core.RunGenChains(chains, 0)
	sig := func(files map[string]core.FileInfo, prefix string) string {
		var parts []string
		for n, f := range files {
			if strings.HasPrefix(n, prefix) {
				parts = append(parts, strings.TrimPrefix(n, prefix)+"="+f.Sha)
			}
		}
		sort.Strings(parts)
		return strings.Join(parts, ",")
	}
	for i := 0; i < len(chains); i++ {
		if len(res[i]) != 1 || strings.HasPrefix(res[i][0].Err, "HARNESS") {
			c.HarnessError(fmt.Sprintf("batch run %s: %+v", chains[i][0].ID, res[i]))
			return false
		}
	}
	lone := map[string]string{"plain": sig(res[0][0].Files, ""), "cors": sig(res[1][0].Files, "")}
	if !res[0][0].OK || !res[1][0].OK || res[2][0].OK || lone["plain"] == lone["cors"] || lone["plain"] == "" {
		c.HarnessError(fmt.Sprintf("batch baselines are not what the universe assumes: plain ok=%v cors ok=%v fail ok=%v", res[0][0].OK, res[1][0].OK, res[2][0].OK))
		return false
	}
	var events [][]byte
	info := map[string]any{}
	for bi, b := range batches {
		r := res[3+bi][0]
		written := []string{}
		errItem := 0
		for ii, it := range b {
			name := fmt.Sprintf("d%d_%s", ii+1, it.Kind)
			s := sig(r.Files, name+"/")
			switch {
			case s == "":
				written = append(written, "none")
			case s == lone["plain"]:
				written = append(written, "out:plain")
			case s == lone["cors"]:
				written = append(written, "out:cors")
			default:
				written = append(written, "other")
			}
			if !r.OK && errItem == 0 && strings.Contains(r.Err, fmt.Sprintf("%q", name)) {
				errItem = ii + 1
			}
		}
		cid := fmt.Sprintf("batch%d", bi)
		bs, _ := json.Marshal(map[string]any{"ev": "Batch", "case": cid, "items": b, "written": written, "ok": r.OK, "errItem": errItem})
		events = append(events, bs)
		info[cid] = map[string]any{"items": b, "written": written, "ok": r.OK, "error": r.Err, "panic": trunc(r.Panic, 300)}
	}
	jr, err := core.Judge("Trace_Batch", events, nil)
	if err != nil {
		c.HarnessError(err.Error())
		return false
	}
	c.AddTLC(jr.TLC)
	c.Add("batches_replayed", int64(len(batches)))
	for _, rj := range jr.Rejects {
		c.Violation(map[string]any{"batch": info[rj.Case], "reject": rj}, fmt.Sprintf("goag --dir: %v: %s", info[rj.Case], rj.Why))
	}
	return true
}
