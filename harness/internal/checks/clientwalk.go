package checks

import (
	"encoding/json"
	"fmt"
	"math/rand"
	"reflect"
	"sort"
	"time"

	"verif/driver"
	"verif/internal/aspec"
	"verif/internal/core"
)

// The client walk (part of C09): spec/Client.tla composes the step-level machines of one call (client BuildPath /
// BuildQuery, the decoded path the server works on, Route, ParsePath, ParseQuery); MC_Client checks that the round
// trip holds inside the domain of DESIGN §11 and that every restriction of that domain is necessary, and prints its
// operation shapes.  Every shape is generated; calls with every kind of value - inside and outside the domain - go
// through the real client into the real server; Trace_Client requires the round trip inside the domain (C09) and
// compares the rest with the model's prediction (drift).

type cwSeg struct {
	K string `json:"k"`
	S string `json:"s"`
}
type cwDecl struct {
	Name  string `json:"name"`
	Array bool   `json:"array"`
	Req   bool   `json:"req"`
}
type cwShape struct {
	T     []cwSeg  `json:"t"`
	Decls []cwDecl `json:"decls"`
}
type cwVal struct {
	ID   string `json:"id"`
	Kind string `json:"kind"`
}
type cwArg struct {
	Set bool    `json:"set"`
	Vs  []cwVal `json:"vs"`
}

func (v cwVal) text() string {
	switch v.Kind {
	case "plain":
		return "v" + v.ID
	case "reserved":
		return "a?b#c%d e&f+g=h;" + v.ID
	case "slash":
		return "s/" + v.ID
	}
	return ""
}

func leafS(s string) driver.AVal { return driver.AVal{T: "leaf", S: "s:" + s} }

func clientWalk(c *core.Check) bool {
	r, err := core.RunTLC(core.TLCOpts{Module: "MC_Client", Cfg: "MC_Client.cfg", Workers: 8, Timeout: 10 * time.Minute})
	if err != nil || r.Error != "" {
		c.HarnessError(fmt.Sprintf("MC_Client: %v %s", err, r.Error))
		return false
	}
	if r.InvViolated != "" {
		c.Note("MODEL: design check MC_Client reports %s violated (the composed client / server machines do not give the round trip inside the domain, or a domain restriction is not necessary)", r.InvViolated)
	}
	c.AddTLC(r)
	er, err := core.RunTLC(core.TLCOpts{Module: "MC_Client", Cfg: "MC_Client_emit.cfg", Workers: 2, Timeout: 5 * time.Minute})
	if err != nil || er.Error != "" {
		c.HarnessError(fmt.Sprintf("MC_Client emit: %v %s", err, er.Error))
		return false
	}
	var shapes []cwShape
	for _, j := range er.JSON {
		var v struct {
			Shape *cwShape `json:"shape"`
		}
		if json.Unmarshal(j, &v) == nil && v.Shape != nil {
			shapes = append(shapes, *v.Shape)
		}
	}
	sort.Slice(shapes, func(i, j int) bool {
		a, _ := json.Marshal(shapes[i])
		b, _ := json.Marshal(shapes[j])
		return string(a) < string(b)
	})
	if len(shapes) == 0 {
		c.HarnessError("no shapes from MC_Client")
		return false
	}
	maxCalls := 24
	if c.Tier == "thorough" {
		maxCalls = 400
	}
	rng := rand.New(rand.NewSource(c.Seed + 99))
	str := aspec.Schema{K: "string"}
	a := &aspec.ASpec{Base: aspec.Base{Form: "servers", Segs: []string{"api"}}, SpecName: "openapi.yaml", Flags: aspec.Flags{APIHandler: true, Client: true, DoNotEdit: true}, Security: aspec.Sec{K: "none"}}
	type meta struct {
		shape cwShape
		pv    []cwVal
		args  map[string]cwArg
	}
	metas := map[string]meta{}
	g := driver.Group{Pkg: "cw", Kind: "wire", API: driver.APIConfig{NotFound: true}, Base: "/api"}
	caseN := 0
	pathKinds := []string{"plain", "reserved", "slash", "empty"}
	qKinds := []string{"plain", "reserved", "empty"}
	for si, sh := range shapes {
		// the operation: GET /c<si>/<template> (its own literal prefix keeps the shapes apart)
		t := []aspec.Seg{{K: "lit", S: fmt.Sprintf("c%d", si)}}
		var vars []string
		for _, sg := range sh.T {
			t = append(t, aspec.Seg{K: sg.K, S: sg.S})
			if sg.K == "var" {
				vars = append(vars, sg.S)
			}
		}
		op := simpleOp("GET", t)
		for _, d := range sh.Decls {
			s := str
			if d.Array {
				s = aspec.Schema{K: "array", Items: &str}
			}
			op.Params = append(op.Params, aspec.Param{In: "query", Name: d.Name, Req: d.Req, Schema: s})
		}
		a.Paths = append(a.Paths, aspec.PathItem{Template: t, Ops: []aspec.Op{op}})
		opID := "GET " + aspec.TemplateString(t)
		// all calls of the shape, then a seeded sample
		var pvs [][]cwVal
		var rec func(i int, cur []cwVal)
		rec = func(i int, cur []cwVal) {
			if i == len(vars) {
				pvs = append(pvs, append([]cwVal{}, cur...))
				return
			}
			for _, k := range pathKinds {
				rec(i+1, append(cur, cwVal{ID: fmt.Sprintf("p%d", i+1), Kind: k}))
			}
		}
		rec(0, nil)
		argsOf := func(d cwDecl) []cwArg {
			var out []cwArg
			one := func(n int) [][]cwVal {
				var vs [][]cwVal
				if n == 0 {
					return [][]cwVal{{}}
				}
				for _, k1 := range qKinds {
					if n == 1 {
						vs = append(vs, []cwVal{{ID: d.Name + "1", Kind: k1}})
						continue
					}
					for _, k2 := range []string{"plain", "empty"} {
						vs = append(vs, []cwVal{{ID: d.Name + "1", Kind: k1}, {ID: d.Name + "2", Kind: k2}})
					}
				}
				return vs
			}
			if !d.Req {
				out = append(out, cwArg{Set: false, Vs: []cwVal{}})
			}
			lens := []int{1}
			if d.Array {
				lens = []int{0, 1, 2}
			}
			for _, n := range lens {
				for _, vs := range one(n) {
					out = append(out, cwArg{Set: true, Vs: vs})
				}
			}
			return out
		}
		type call struct {
			pv   []cwVal
			args map[string]cwArg
		}
		var calls []call
		var recA func(i int, cur map[string]cwArg, pv []cwVal)
		recA = func(i int, cur map[string]cwArg, pv []cwVal) {
			if i == len(sh.Decls) {
				m := map[string]cwArg{"q": {Vs: []cwVal{}}, "r": {Vs: []cwVal{}}}
				for k, v := range cur {
					m[k] = v
				}
				calls = append(calls, call{pv, m})
				return
			}
			for _, ar := range argsOf(sh.Decls[i]) {
				cur[sh.Decls[i].Name] = ar
				recA(i+1, cur, pv)
			}
			delete(cur, sh.Decls[i].Name)
		}
		for _, pv := range pvs {
			recA(0, map[string]cwArg{}, pv)
		}
		if len(calls) > maxCalls {
			rng.Shuffle(len(calls), func(i, j int) { calls[i], calls[j] = calls[j], calls[i] })
			calls = calls[:maxCalls]
		}
		for _, cl := range calls {
			caseN++
			cid := fmt.Sprintf("w%d", caseN)
			// the <Op>Params value
			fill := driver.AVal{T: "struct"}
			if len(vars) > 0 {
				ps := driver.AVal{T: "struct"}
				for i, vn := range vars {
					ps.F = append(ps.F, driver.AField{N: driver.Norm(vn), V: leafS(cl.pv[i].text())})
				}
				fill.F = append(fill.F, driver.AField{N: "path", V: ps})
			}
			if len(sh.Decls) > 0 {
				qs := driver.AVal{T: "struct"}
				for _, d := range sh.Decls {
					ar := cl.args[d.Name]
					var v driver.AVal
					if d.Array {
						v = driver.AVal{T: "list", L: []driver.AVal{}}
						for _, x := range ar.Vs {
							v.L = append(v.L, leafS(x.text()))
						}
					} else if len(ar.Vs) > 0 {
						v = leafS(ar.Vs[0].text())
					} else {
						v = leafS("")
					}
					if !d.Req {
						inner := v
						v = driver.AVal{T: "maybe", Set: ar.Set}
						if ar.Set {
							v.M = &inner
						}
					}
					qs.F = append(qs.F, driver.AField{N: driver.Norm(d.Name), V: v})
				}
				fill.F = append(fill.F, driver.AField{N: "query", V: qs})
			}
			bs, _ := json.Marshal(fill)
			g.Wire = append(g.Wire, driver.WireCase{ID: cid, Op: opID, Fill: bs, RespSeed: 1})
			metas[cid] = meta{shape: sh, pv: cl.pv, args: cl.args}
		}
	}
	sc, err := core.BuildScratch([]core.GenJob{a.Job("cw")}, false)
	if err != nil {
		c.HarnessError(err.Error())
		return false
	}
	defer sc.Close()
	if len(sc.Excluded) > 0 {
		c.HarnessError(fmt.Sprintf("client walk: the package of MC_Client's shapes does not build: %v", sc.Excluded["cw"].TypeErr))
		return false
	}
	evs, _, err := sc.Run([]driver.Group{g}, 20*time.Minute)
	if err != nil {
		c.HarnessError(err.Error())
		return false
	}
	sent := map[string]any{}
	holds := map[string]bool{}
	seen := map[string]bool{}
	for _, raw := range evs {
		var e map[string]any
		json.Unmarshal(raw, &e)
		cid, _ := e["case"].(string)
		switch e["ev"] {
		case "DriverError":
			c.HarnessError(fmt.Sprintf("client walk driver: %v", e["err"]))
			return false
		case "Call":
			sent[cid] = e["sent"]
			seen[cid] = true
		case "Parse":
			ok, _ := e["ok"].(bool)
			holds[cid] = ok && reflect.DeepEqual(sent[cid], e["params"])
		}
	}
	var events [][]byte
	info := map[string]any{}
	for cid, m := range metas {
		if !seen[cid] {
			continue
		}
		pv := m.pv
		if pv == nil {
			pv = []cwVal{}
		}
		call := map[string]any{"t": m.shape.T, "pathVals": pv, "decls": m.shape.Decls, "args": m.args}
		bs, _ := json.Marshal(map[string]any{"ev": "E2E", "case": cid, "call": call, "holds": holds[cid]})
		events = append(events, bs)
		info[cid] = map[string]any{"call": call, "handler_parsed_exactly_what_was_sent": holds[cid]}
	}
	sort.Slice(events, func(i, j int) bool { return string(events[i]) < string(events[j]) })
	if len(events) == 0 {
		c.HarnessError("client walk: no events")
		return false
	}
	jr, err := core.Judge("Trace_Client", events, nil)
	if err != nil {
		c.HarnessError(err.Error())
		return false
	}
	c.AddTLC(jr.TLC)
	c.Drift("Client (composed client / server machines outside the domain of C09)", jr.Drifts)
	c.Add("traces_validated_against_impl", int64(len(events)))
	c.Add("evaluations", int64(len(events)))
	c.Add("distinct_nontrivial", int64(jr.Nontriv))
	c.Cov["client_walk"] = map[string]any{"shapes": len(shapes), "calls": len(events), "calls_in_domain": jr.Nontriv, "calls_per_shape_max": maxCalls}
	for _, rj := range jr.Rejects {
		c.Violation(map[string]any{"case": info[rj.Case], "reject": rj}, fmt.Sprintf("client walk (c09): inside the domain the handler must parse exactly what the client was given: %v", info[rj.Case]))
	}
	return true
}
