package checks

import (
	"fmt"
	"math/rand"

	"verif/driver"
	"verif/internal/aspec"
)

// randKitchen composes a random specification over everything the request pipeline depends on at once: base-path
// form, CORS on / off, global and per-operation security over three schemes (bearer, apiKey in a header whose name
// has separators, apiKey in the query), path items with one to four operations (a declared OPTIONS now and then),
// literal / variable templates that share prefixes, header parameters at path-item and operation level.  The
// single-feature universes of C11 / C16 / C17 cover each axis alone; these compositions cover their interactions.
func randKitchen(rng *rand.Rand, k int) *aspec.ASpec {
	bases := baseForms()
	a := &aspec.ASpec{Base: bases[k%len(bases)], SpecName: []string{"openapi.yaml", "spec.json", "api.v1.yml"}[k%3],
		Flags:   aspec.Flags{APIHandler: true, DoNotEdit: k%2 == 0, Cors: k%3 != 0},
		Schemes: []aspec.Scheme{{Key: "A", Kind: "bearer"}, {Key: "B", Kind: "apiKeyHeader", Name: []string{"X-Key-B", "X-Api_Key.B", "x-keyb-id"}[k%3]}, {Key: "Q", Kind: "apiKeyQuery", Name: "kq"}}}
	secs := []aspec.Sec{{K: "inherit"}, {K: "list", List: [][]string{}}, {K: "list", List: [][]string{{"A"}}}, {K: "list", List: [][]string{{"B"}}},
		{K: "list", List: [][]string{{"Q"}}}, {K: "list", List: [][]string{{"A"}, {"B"}}}, {K: "list", List: [][]string{{"B"}, {"Q"}}}}
	a.Security = []aspec.Sec{{K: "none"}, secs[2], secs[3], secs[5]}[rng.Intn(4)]
	lit := func(s string) aspec.Seg { return aspec.Seg{K: "lit", S: s} }
	vr := func(s string) aspec.Seg { return aspec.Seg{K: "var", S: s} }
	pool := [][]aspec.Seg{
		{lit("r")}, {lit("r"), vr("id")}, {lit("r"), vr("id"), lit("sub")}, {lit("r"), lit("new")}, {lit("r"), vr("id"), vr("more")},
		{lit("s"), lit("")}, {lit("s"), vr("key"), lit("")}, {vr("page")}, {lit("t"), lit("u"), lit("v")}, {lit("t"), vr("w"), lit("v")},
	}
	rng.Shuffle(len(pool), func(i, j int) { pool[i], pool[j] = pool[j], pool[i] })
	hdrNames := []string{"X-Req-Id", "x-trace", "If-Version", "X-Other-Thing"}
	methods := []string{"GET", "POST", "PUT", "DELETE", "PATCH"}
	for _, t := range pool[:3+rng.Intn(5)] {
		pi := aspec.PathItem{Template: t}
		if rng.Intn(3) == 0 {
			pi.Params = append(pi.Params, aspec.Param{In: "header", Name: hdrNames[rng.Intn(len(hdrNames))], Schema: aspec.Schema{K: "string"}})
		}
		ms := append([]string{}, methods...)
		rng.Shuffle(len(ms), func(i, j int) { ms[i], ms[j] = ms[j], ms[i] })
		ms = ms[:1+rng.Intn(4)]
		if rng.Intn(5) == 0 {
			ms = append(ms, "OPTIONS")
		}
		for _, m := range ms {
			op := simpleOp(m, t)
			op.Security = secs[rng.Intn(len(secs))]
			if rng.Intn(3) == 0 {
				h := hdrNames[rng.Intn(len(hdrNames))]
				dup := false
				for _, p := range pi.Params {
					if p.Name == h {
						dup = true
					}
				}
				if !dup {
					op.Params = append(op.Params, aspec.Param{In: "header", Name: h, Schema: aspec.Schema{K: "string"}})
				}
			}
			pi.Ops = append(pi.Ops, op)
		}
		a.Paths = append(a.Paths, pi)
	}
	return a
}

// randKitchenGroups: the compositions as packages plus, per package, a few API configurations and for each the
// requests that matter: every operation with a sample of credential assignments, a preflight and an undeclared method
// on every path item, near misses of every path, the spec-file route.
func randKitchenGroups(rng *rand.Rand, n int, prefix string, specs map[string]*aspec.ASpec, newCase func() string) []pGroup {
	var groups []pGroup
	creds := credCombos([]string{"A", "B", "Q"})
	for k := 0; k < n; k++ {
		a := randKitchen(rng, k+rng.Intn(1000)*13)
		id := fmt.Sprintf("%s%d", prefix, k)
		specs[id] = a
		nf := a.Base.NF()
		for ci := 0; ci < 3; ci++ {
			auth := map[string]bool{"A": true, "B": true, "Q": true}
			if ci == 2 {
				delete(auth, []string{"A", "B", "Q"}[rng.Intn(3)]) // one authenticator left nil
			}
			g := pGroup{Pkg: id, ASpec: a, API: driver.APIConfig{Mw: []int{2, 0, 3}[ci], NotFound: ci != 1, Spec: ci != 2, Cors: ci != 1 || rng.Intn(2) == 0, Auth: auth}}
			fill := func(t []aspec.Seg, extra string) string {
				p := nf
				for _, s := range t {
					if s.K == "var" {
						p += "/val"
					} else {
						p += "/" + s.S
					}
				}
				return p + extra
			}
			for _, pi := range a.Paths {
				path := fill(pi.Template, "")
				for _, op := range pi.Ops {
					for i := 0; i < 6; i++ {
						g.Cases = append(g.Cases, mkReq(newCase(), op.Method, path, creds[rng.Intn(len(creds))], a))
					}
					g.Cases = append(g.Cases, mkReq(newCase(), op.Method, path, nil, a))
				}
				for _, m := range []string{"OPTIONS", "HEAD", "TRACE"} {
					g.Cases = append(g.Cases, mkReq(newCase(), m, path, nil, a))
				}
				for _, near := range []string{fill(pi.Template, "/"), fill(pi.Template, "/x"), fill(pi.Template[:len(pi.Template)-1], "")} {
					for _, m := range []string{"GET", "OPTIONS"} {
						g.Cases = append(g.Cases, mkReq(newCase(), m, near, creds[rng.Intn(len(creds))], a))
					}
				}
			}
			for _, p := range []string{nf + "/" + a.SpecName, "/" + a.SpecName, nf + "/" + a.SpecName + "/", nf, nf + "/", "", "*", nf + "/zzz"} {
				for _, m := range []string{"GET", "OPTIONS", "POST"} {
					g.Cases = append(g.Cases, mkReq(newCase(), m, p, nil, a))
				}
			}
			groups = append(groups, g)
		}
	}
	return groups
}
