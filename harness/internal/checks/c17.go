package checks

import (
	"fmt"
	"math/rand"

	"verif/driver"
	"verif/internal/aspec"
	"verif/internal/core"
)

func init() { register("C17", "model_checking", checkC17) }

func checkC17(c *core.Check) {
	c.Assumptions = []string{
		"methods and headers handed to the CORS factory are compared as sets and must not contain duplicates; header names are canonicalised with http.CanonicalHeaderKey",
		"a preflight is matched to its path item by the C03 rule, the synthetic CORS operation of a path item without OPTIONS competing with declared OPTIONS operations; without a CORSHandler installed that preflight is not found (a less specific declared OPTIONS operation does not take over)",
		"the headers a security scheme reads: Authorization for http-bearer, the header name for apiKey-in-header (effective requirement of each operation of the path item)",
	}
	thorough := c.Tier == "thorough"
	dcfg := "MC_Pipeline.cfg"
	if thorough {
		dcfg = "MC_Pipeline_thorough.cfg"
	}
	if !pipelineDesign(c, dcfg) {
		return
	}
	rng := rand.New(rand.NewSource(c.Seed))
	methodsAll := []string{"GET", "POST", "PUT", "OPTIONS"}
	hdrPool := []string{"X-Req-Id", "x-req-id", "X-REQ-ID", "x-trace", "If-Match", "X-Other-Key", "accept-language"}
	secPool := []aspec.Sec{{K: "inherit"}, {K: "list", List: [][]string{}}, {K: "list", List: [][]string{{"A"}}}, {K: "list", List: [][]string{{"B"}}}, {K: "list", List: [][]string{{"Q"}}}, {K: "list", List: [][]string{{"A"}, {"B"}}}}
	specs := map[string]*aspec.ASpec{}
	var groups []pGroup
	caseN := 0
	newCase := func() string { caseN++; return fmt.Sprintf("c%d", caseN) }
	nItems := 60
	if thorough {
		nItems = 250
	}
	si := 0
	for _, global := range []aspec.Sec{{K: "none"}, {K: "list", List: [][]string{{"A"}}}, {K: "list", List: [][]string{{"B"}}}} {
		for _, corsFlag := range []bool{true, false} {
			if !corsFlag && global.K != "none" && !thorough {
				continue
			}
			id := fmt.Sprintf("co%d", si)
			si++
			a := &aspec.ASpec{Base: aspec.Base{Form: "servers", Segs: []string{"api"}}, SpecName: "openapi.yaml",
				Flags: aspec.Flags{APIHandler: true, DoNotEdit: true, Cors: corsFlag}, Security: global,
				Schemes: []aspec.Scheme{{Key: "A", Kind: "bearer", Spell: []string{"", "Bearer", "BEARER"}[si%3]}, {Key: "B", Kind: "apiKeyHeader", Name: "x-key-b"}, {Key: "Q", Kind: "apiKeyQuery", Name: "kq"}}}
			var paths []string
			for k := 0; k < nItems; k++ {
				// every non-empty method subset in turn, everything else seeded
				mask := k%15 + 1
				var t []aspec.Seg
				switch k % 4 {
				case 0:
					t = []aspec.Seg{{K: "lit", S: fmt.Sprintf("p%d", k)}}
				case 1:
					t = []aspec.Seg{{K: "lit", S: fmt.Sprintf("p%d", k)}, {K: "var", S: "id"}}
				case 2:
					t = []aspec.Seg{{K: "lit", S: fmt.Sprintf("p%d", k-1)}, {K: "lit", S: "fixed"}} // overlaps the variable item before it
				case 3:
					t = []aspec.Seg{{K: "lit", S: fmt.Sprintf("p%d", k)}, {K: "lit", S: ""}}
				}
				pi := aspec.PathItem{Template: t}
				if rng.Intn(3) == 0 {
					pi.Params = append(pi.Params, aspec.Param{In: "header", Name: hdrPool[rng.Intn(len(hdrPool)-1)], Schema: aspec.Schema{K: "string"}})
				}
				for mi, m := range methodsAll {
					if mask&(1<<mi) == 0 {
						continue
					}
					o := simpleOp(m, t)
					o.Security = secPool[rng.Intn(len(secPool))]
					used := map[string]bool{}
					for _, pp := range pi.Params {
						used[driver.Norm(pp.Name)] = true
					}
					for n := rng.Intn(3); n > 0; n-- {
						h := hdrPool[rng.Intn(len(hdrPool))]
						if used[driver.Norm(h)] {
							continue
						}
						used[driver.Norm(h)] = true
						o.Params = append(o.Params, aspec.Param{In: "header", Name: h, Schema: aspec.Schema{K: "string"}})
					}
					pi.Ops = append(pi.Ops, o)
				}
				a.Paths = append(a.Paths, pi)
				p := "/api"
				for _, s := range t {
					if s.K == "var" {
						p += "/77"
					} else {
						p += "/" + s.S
					}
				}
				paths = append(paths, p, p+"/", p+"/fixed", p+"/zz")
			}
			specs[id] = a
			for _, handler := range []bool{true, false} {
				g := pGroup{Pkg: id, ASpec: a, API: driver.APIConfig{Mw: 1, NotFound: true, Cors: handler, Auth: map[string]bool{"A": true, "B": true, "Q": true}}}
				for _, p := range paths {
					g.Cases = append(g.Cases, mkReq(newCase(), "OPTIONS", p, nil, a))
					if rng.Intn(4) == 0 {
						g.Cases = append(g.Cases, mkReq(newCase(), "GET", p, []pCred{{S: "A", C: "valid"}, {S: "B", C: "valid"}}, a))
					}
				}
				for _, p := range []string{"/api", "/api/", "/", "*", "/api/nope", "/p0"} {
					g.Cases = append(g.Cases, mkReq(newCase(), "OPTIONS", p, nil, a))
				}
				groups = append(groups, g)
			}
		}
	}
	// seeded random compositions of all pipeline features at once (randkitchen.go)
	nComp := 8
	if thorough {
		nComp = 60
	}
	groups = append(groups, randKitchenGroups(rand.New(rand.NewSource(c.Seed+int64(len(groups)))), nComp, "rc", specs, newCase)...)
	c.Cov["random_compositions"] = nComp
	run, ok := runPipeline(c, specs, groups)
	if !ok {
		return
	}
	c.Cov["exhaustive"] = false
	c.Cov["rule"] = "path items cycle through every non-empty method subset of {GET,POST,PUT,OPTIONS} with seeded header parameters (case variants of one name, path and operation level) and per-operation security (inherit, [], bearer, apiKey header, apiKey query, alternatives) under global requirements {none,[A],[B]}, with overlapping literal/variable/trailing-slash templates; cors flag on/off x CORSHandler set/nil; every path and near-miss gets an OPTIONS request; TLC (Trace_Pipeline) checks the factory arguments against CorsMethods/CorsHeaders of the Prop layer; non-trivial = the CORS factory or a handler was reached"
	c.Cov["bounds"] = map[string]any{"packages": len(specs), "path_items_per_package": nItems}
	c.Sample(map[string]any{"path_item": specs["co0"].Paths[1], "request": groups[0].Cases[4]})
	judgePipeline(c, run, specs, "cors")
}
