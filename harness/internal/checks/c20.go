package checks

import (
	"encoding/json"
	"fmt"
	"math/rand"
	"strings"
	"time"

	"verif/driver"
	"verif/internal/aspec"
	"verif/internal/core"
)

func init() { register("C20", "model_checking", checkC20) }

func checkC20(c *core.Check) {
	c.Assumptions = []string{
		"goroutine schedules cannot be enumerated from outside: they are sampled (16-64 goroutines, GOMAXPROCS in {1,4,16}, runtime.Gosched() at every call-back); the model enumerates the interleavings of 4 requests",
		"every call-back appends its event under one mutex with a global sequence number: the log order is a linearization of the observation points",
		"'no unsynchronised access' is decided by the Go race detector on these executions (binaries built with -race), outside TLA+",
		"every string, integer, number and time leaf of each request and response is unique to its call",
	}
	thorough := c.Tier == "thorough"
	r, err := core.RunTLC(core.TLCOpts{Module: "Concurrent", Cfg: "MC_Concurrent.cfg", Workers: 8, Timeout: 10 * time.Minute})
	if err != nil || r.Error != "" {
		c.HarnessError(fmt.Sprintf("MC_Concurrent: %v %s", err, r.Error))
		return
	}
	if r.InvViolated != "" {
		c.Note("MODEL: design check Concurrent reports %s violated", r.InvViolated)
	}
	c.AddTLC(r)
	rng := rand.New(rand.NewSource(c.Seed))
	nOps, perPkg := 45, 15
	if thorough {
		nOps = 150
	}
	var seeds []int64
	var pre []core.GenJob
	for k := 0; k < nOps; k++ {
		sd := rng.Int63()
		seeds = append(seeds, sd)
		a := wireCarrier(fmt.Sprintf("pre%d", k), aspec.Base{Form: "none"})
		w := randWireOp(a, k, rand.New(rand.NewSource(sd)))
		a.Paths = []aspec.PathItem{{Template: w.tmpl, Ops: []aspec.Op{w.op}}}
		j := a.Job(fmt.Sprintf("pre%d", k))
		j.Package, j.Check = "gen", true
		pre = append(pre, j)
	}
	pres := core.RunGenJobs(pre, 0)
	var good []int
	for i, r := range pres {
		if strings.HasPrefix(r.Err, "HARNESS") {
			c.HarnessError("pre-flight: " + r.Err)
			return
		}
		if r.Builds() {
			good = append(good, i)
		}
	}
	if len(good) < 3 {
		c.HarnessError("too few operations build")
		return
	}
	var jobs []core.GenJob
	var groups []driver.Group
	bases := baseForms()
	round := 0
	opSec := map[string]string{} // "<pkg> <METHOD> <template>" -> required scheme
	roundPkg := map[int]string{} // round -> package
	rawSpec := map[int]string{}  // round -> path of the spec-file route
	specLen := map[int]int{}     // round -> length of the spec file
	rounds := []struct{ g, procs int }{{16, 1}, {16, 4}, {64, 16}, {32, 4}}
	if thorough {
		rounds = nil
		for _, g := range []int{16, 32, 64} {
			for _, p := range []int{1, 4, 16} {
				for rep := 0; rep < 8; rep++ {
					rounds = append(rounds, struct{ g, procs int }{g, p})
				}
			}
		}
	}
	for start := 0; start < len(good); start += perPkg {
		end := start + perPkg
		if end > len(good) {
			end = len(good)
		}
		id := fmt.Sprintf("cc%d", start/perPkg)
		base := bases[(start/perPkg)%len(bases)]
		a := wireCarrier(id, base)
		// a third of the operations require the bearer scheme, a third the apiKey scheme, the rest nothing
		a.Schemes = []aspec.Scheme{{Key: "A", Kind: "bearer"}, {Key: "B", Kind: "apiKeyHeader", Name: "X-Key-B"}}
		for n, k := range good[start:end] {
			w := randWireOp(a, k, rand.New(rand.NewSource(seeds[k])))
			switch n % 3 {
			case 0:
				w.op.Security = aspec.Sec{K: "list", List: [][]string{{"A"}}}
				opSec[id+" "+w.op.Method+" "+aspec.TemplateString(w.tmpl)] = "A"
			case 1:
				w.op.Security = aspec.Sec{K: "list", List: [][]string{{"B"}}}
				opSec[id+" "+w.op.Method+" "+aspec.TemplateString(w.tmpl)] = "B"
			}
			a.Paths = append(a.Paths, aspec.PathItem{Template: w.tmpl, Ops: []aspec.Op{w.op}})
		}
		// an operation that answers from one stored value (driver: operations under /shared/): a grid of rows, some nil
		{
			i64 := aspec.Schema{K: "int64"}
			str := aspec.Schema{K: "string"}
			row := aspec.Schema{K: "array", Items: &i64}
			a.Schemas = append(a.Schemas, aspec.NamedSchema{Name: "SharedGrid", Schema: objSchema(aspec.Prop{Name: "rows", Schema: aspec.Schema{K: "array", Items: &row}, Req: true}, aspec.Prop{Name: "names", Schema: aspec.Schema{K: "array", Items: &str}}, aspec.Prop{Name: "title", Schema: str})})
			t := []aspec.Seg{{K: "lit", S: "shared"}, {K: "lit", S: "grid"}}
			op := simpleOp("GET", t)
			op.Responses = []aspec.RespRef{{Status: "200", R: &aspec.Response{Desc: "ok", Body: aspec.Body{K: "json", Schema: &aspec.Schema{K: "ref", To: "SharedGrid"}}}}}
			a.Paths = append(a.Paths, aspec.PathItem{Template: t, Ops: []aspec.Op{op}})
		}
		// every other package is generated with CORS on and gets four plain paths that only ever see preflights
		cors := (start/perPkg)%2 == 0
		var preflights []string
		if cors {
			a.Flags.Cors = true
			for i := 0; i < 4; i++ {
				t := []aspec.Seg{{K: "lit", S: fmt.Sprintf("pf%d", i)}, {K: "lit", S: "x"}}
				a.Paths = append(a.Paths, aspec.PathItem{Template: t, Ops: []aspec.Op{simpleOp([]string{"GET", "POST"}[i%2], t)}})
				preflights = append(preflights, base.NF()+"/"+t[0].S+"/x")
			}
		}
		jobs = append(jobs, a.Job(id))
		for ri, rd := range rounds {
			round++
			roundPkg[round] = id
			// 3 middlewares registered one by one leave the slice with spare capacity (len 3, cap 4); 2 do not
			// requests that match no operation are served concurrently as well: unrouted paths (with and without a
			// NotFoundHandler installed) and the spec-file route
			specPath := base.NF() + "/" + a.SpecName
			specLen[round] = len(a.Render())
			groups = append(groups, driver.Group{Pkg: id, Kind: "concurrent", Base: base.NF(),
				API: driver.APIConfig{Mw: 2 + ri%2, NotFound: ri%4 < 2, Spec: true, Cors: cors, Auth: map[string]bool{"A": true, "B": true}, Schemes: schemeInfos(*a)},
				Conc: &driver.ConcurrentConfig{Goroutines: rd.g, Calls: 4, Procs: rd.procs, Seed: rng.Int63(), Round: round,
					Creds:    map[string]string{"Authorization": "Bearer valid-A", "X-Key-B": "valid-B"},
					RawPaths: []string{base.NF() + "/no/such/route", specPath, "/elsewhere", base.NF() + "/no-such", specPath + "/x"}, Preflights: preflights}})
			rawSpec[round] = specPath
		}
	}
	sc, err := core.BuildScratch(jobs, true)
	if err != nil {
		c.HarnessError(err.Error())
		return
	}
	defer sc.Close()
	var kept []driver.Group
	for _, g := range groups {
		if _, ex := sc.Excluded[g.Pkg]; !ex {
			kept = append(kept, g)
		}
	}
	if len(kept) == 0 {
		c.HarnessError("no package builds")
		return
	}
	evs, out, runErr := sc.Run(kept, 30*time.Minute)
	races := strings.Count(out, "WARNING: DATA RACE")
	if runErr != nil && races == 0 {
		c.HarnessError(runErr.Error())
		return
	}
	var events [][]byte
	add := func(v any) {
		bs, _ := json.Marshal(v)
		events = append(events, bs)
	}
	info := map[string][]string{}
	calls := 0
	for _, raw := range evs {
		var e map[string]any
		json.Unmarshal(raw, &e)
		cid, _ := e["case"].(string)
		if cid != "" && len(info[cid]) < 10 {
			info[cid] = append(info[cid], trunc(string(raw), 500))
		}
		av := func(key string) map[string]any {
			if e[key] == nil {
				return map[string]any{"t": "leaf", "s": "-"}
			}
			var a driver.AVal
			bs, _ := json.Marshal(e[key])
			json.Unmarshal(bs, &a)
			return tlaVal(a)
		}
		switch e["ev"] {
		case "DriverError":
			c.HarnessError(fmt.Sprintf("driver: %v", e["err"]))
			return
		case "Cases":
			add(map[string]any{"ev": "Cases", "case": "", "ids": e["ids"]})
		case "Call":
			calls++
			op, _ := e["op"].(string)
			_, tmpl, _ := strings.Cut(op, " ")
			// the scheme this operation requires and the tag its handler must see: "<scheme>|<this request's credential>"
			var rd int
			fmt.Sscanf(cid, "r%d", &rd)
			sec, tag := opSec[roundPkg[rd]+" "+op], ""
			if sec != "" {
				tag = sec + "|valid-" + sec + "#" + cid
			}
			add(map[string]any{"ev": "Call", "case": cid, "sent": av("sent"), "tmpl": tmpl, "sec": sec, "tag": tag})
		case "MwEnter":
			add(map[string]any{"ev": "MwEnter", "case": cid, "i": e["i"], "tmpl": e["tmpl"]})
		case "MwLeave":
			add(map[string]any{"ev": "MwLeave", "case": cid, "i": e["i"]})
		case "Handler":
			add(map[string]any{"ev": "Handler", "case": cid, "tmpl": e["tmpl"], "tag": e["tag"]})
		case "Auth":
			ok, _ := e["ok"].(bool)
			add(map[string]any{"ev": "Auth", "case": cid, "s": e["s"], "tok": e["tok"], "ok": ok})
		case "Parse":
			ok, _ := e["ok"].(bool)
			add(map[string]any{"ev": "Parse", "case": cid, "ok": ok, "params": av("params")})
		case "Respond":
			add(map[string]any{"ev": "Respond", "case": cid, "type": e["type"], "value": av("value")})
		case "Raw":
			var rd int
			fmt.Sscanf(cid, "r%d", &rd)
			want, wantLen := 404, -1
			if p, _ := e["path"].(string); p == rawSpec[rd] {
				want, wantLen = 200, specLen[rd]
			}
			if pre, _ := e["pre"].(bool); pre {
				want, wantLen = 204, -1 // a preflight of a declared path: the (stub) CORS handler answers
			}
			bl, _ := e["bodyLen"].(float64)
			p, _ := e["panic"].(string)
			add(map[string]any{"ev": "Raw", "case": cid, "status": e["status"], "want": want, "writes": e["writes"], "bodyOK": wantLen < 0 || int(bl) == wantLen, "panic": trunc(p, 200)})
		case "Return":
			ok, _ := e["ok"].(bool)
			p, _ := e["panic"].(string)
			t, _ := e["type"].(string)
			add(map[string]any{"ev": "Return", "case": cid, "ok": ok, "panic": trunc(p, 200), "type": t, "value": av("value")})
		}
	}
	add(map[string]any{"ev": "Race", "case": "race-detector", "reports": races})
	// the log of one round must stay in one judge run: rounds are the chunks
	jr, err := core.Judge("Trace_Concurrent", events, nil)
	if err != nil {
		c.HarnessError(err.Error())
		return
	}
	c.AddTLC(jr.TLC)
	c.Add("traces_validated_against_impl", int64(calls))
	c.Add("evaluations", int64(calls))
	c.Add("programs", int64(len(sc.Pkgs)))
	c.Add("distinct_nontrivial", int64(jr.Nontriv))
	c.Cov["race_reports"] = races
	c.Cov["exhaustive"] = false
	c.Cov["rule"] = "TLC (Concurrent) explores every interleaving of 4 requests through Call -> Chain -> Auth -> Parse -> Respond -> Return and checks isolation and that shared state (scratch values, the backing array of API.Middlewares) is only read; on the code side rounds of 16-64 goroutines x 4 calls drive one API value and one Client value of packed wire operations (parameters, JSON and raw bodies, a third each secured by a bearer / an apiKey scheme / nothing, 2 or 3 middlewares registered by append so that the slice has spare capacity) with per-call unique leaves and credentials; next to every client call one raw GET that matches no operation (unrouted paths with and without a NotFoundHandler, the spec-file route) is handed to ServeHTTP, under GOMAXPROCS 1/4/16 and with yields in the call-backs; the interleaved linearized log is validated by TLC (Trace_Concurrent): every event is a step of its own request's machine, the authenticator that runs is the one of the request's operation with the request's credential, parsed = sent and returned = responded per request; the race detector's reports are counted; non-trivial = completed calls"
	c.Cov["bounds"] = map[string]any{"rounds": len(kept), "operations": len(good)}
	for cid, ev := range info {
		if len(ev) > 5 {
			c.Sample(map[string]any{"case": cid, "events": ev})
			break
		}
	}
	for _, rj := range jr.Rejects {
		if rj.Case == "race-detector" {
			c.Violation(map[string]any{"race_detector_output": trunc(out, 6000)}, fmt.Sprintf("the race detector reported %d data races: %s", races, trunc(out, 600)))
			continue
		}
		c.Violation(map[string]any{"case": rj.Case, "events": info[rj.Case], "reject": rj}, fmt.Sprintf("concurrent request %s: event not explained by its own request's machine: %s", rj.Case, trunc(strings.Join(info[rj.Case], " | "), 800)))
	}
}
