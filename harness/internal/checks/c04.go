package checks

import (
	"bytes"
	"encoding/json"
	"fmt"
	"math/rand"
	"net/url"
	"regexp"
	"sort"
	"strconv"
	"strings"
	"time"

	"verif/driver"
	"verif/internal/aspec"
	"verif/internal/core"
)

func init() { register("C04", "model_checking", checkC04) }

// ---- lexeme representatives (DESIGN A.5); classes are the model's, texts are the harness's ----

type lexeme struct {
	Text string
	Cls  string
	Tok  string // the typed token the lexeme denotes (only for classes in the lexical space)
}

func intLex(bits int) []lexeme {
	max, min := "9223372036854775807", "-9223372036854775808"
	over := "9223372036854775808"
	if bits == 32 {
		max, min, over = "2147483647", "-2147483648", "2147483648"
	}
	return []lexeme{{"42", "canon", "i:42"}, {"-7", "canon", "i:-7"}, {"0", "canon", "i:0"}, {max, "boundary", "i:" + max}, {min, "boundary", "i:" + min},
		{over, "outOfRange", ""}, {"12a", "garbage", ""}, {"1.5", "garbage", ""}, {"", "empty", ""}}
}

func timeTok(s string) string {
	t, err := time.Parse(time.RFC3339, s)
	if err != nil {
		panic(err)
	}
	return fmt.Sprintf("t:%d.%09d", t.Unix(), t.Nanosecond())
}

func f64Tok(s string) string {
	f, _ := strconv.ParseFloat(s, 64)
	return "f:" + strconv.FormatFloat(f, 'g', -1, 64)
}
func f32Tok(s string) string {
	f, _ := strconv.ParseFloat(s, 32)
	return "g:" + strconv.FormatFloat(f, 'g', -1, 32)
}

var lexTable = map[string][]lexeme{
	"int":   intLex(64),
	"int64": intLex(64),
	"int32": intLex(32),
	"double": {{"1.5", "canon", f64Tok("1.5")}, {"-2", "canon", f64Tok("-2")}, {"1.7976931348623157e308", "boundary", f64Tok("1.7976931348623157e308")}, {"5e-324", "boundary", f64Tok("5e-324")}, {"9007199254740993", "boundary", f64Tok("9007199254740993")}, {"0.1", "canon", f64Tok("0.1")},
		{"1e400", "outOfRange", ""}, {"1,5", "garbage", ""}, {"abc", "garbage", ""}, {"", "empty", ""}},
	// the long decimals sit next to float32 rounding midpoints: parsing at 64 bits and narrowing rounds them the other way
	"float": {{"1.5", "canon", f32Tok("1.5")}, {"-2", "canon", f32Tok("-2")}, {"3.4028235e38", "boundary", f32Tok("3.4028235e38")},
		{"16777217.000000001", "boundary", f32Tok("16777217.000000001")}, {"1.000000059604644775390625000001", "boundary", f32Tok("1.000000059604644775390625000001")},
		{"340282356779733661637539395458142568447", "boundary", f32Tok("340282356779733661637539395458142568447")}, {"0.1", "canon", f32Tok("0.1")},
		{"1e39", "outOfRange", ""}, {"1.5x", "garbage", ""}, {"", "empty", ""}},
	"bool": {{"true", "canon", "b:true"}, {"false", "boundary", "b:false"}, {"tru", "garbage", ""}, {"yes", "garbage", ""}, {"", "empty", ""}},
	"datetime": {{"2024-01-02T03:04:05Z", "canon", timeTok("2024-01-02T03:04:05Z")}, {"2024-01-02T03:04:05.123456789+02:00", "boundary", timeTok("2024-01-02T03:04:05.123456789+02:00")},
		{"2024-13-01T00:00:00Z", "outOfRange", ""}, {"2024-01-02", "garbage", ""}, {"", "empty", ""}},
	"string": {{"abc", "canon", "s:abc"}, {"a b&c=d?e#f%2F/é", "boundary", "s:a b&c=d?e#f%2F/é"}, {"12a", "garbage", "s:12a"}, {"9223372036854775808", "outOfRange", "s:9223372036854775808"}, {"", "empty", "s:"}},
}

// odd spellings per type; which of them are in the type's lexical space - and which typed value they denote - is
// decided by the trusted oracle (classify: strconv / time.Parse), not written down here
var oddLex = map[string][]string{
	"int":    {"+5", "007", "-0", "1e3", "0x10", "1_000", "5.0", "٣", "9223372036854775807", "-9223372036854775809"},
	"int64":  {"+5", "007", "-0", "1e3", "0x10", "1_000", "5.0", "٣", "-9223372036854775809"},
	"int32":  {"+5", "007", "-0", "1e3", "0x10", "2147483648", "-2147483649", "5.0"},
	"double": {"1e3", "1E3", ".5", "5.", "-0", "+1.5", "NaN", "Inf", "-Inf", "infinity", "0x1p-2", "1_0.5", "1e-400", "4.9e-324", "1e308", "1e309", "00.5", "1.5e+3"},
	"float":  {"1e3", ".5", "5.", "-0", "+1.5", "NaN", "-Inf", "0x1p-2", "1e-60", "1e38", "3.5e38", "1.401298464324817e-45"},
	"datetime": {"2024-02-29T23:59:60Z", "0001-01-01T00:00:00Z", "9999-12-31T23:59:59.999999999Z", "2024-01-02T03:04:05+14:00", "2024-01-02T03:04:05-00:00", "2024-01-02T03:04:05.5Z", "2024-01-02T24:00:00Z", "2024-01-02 03:04:05Z", "2024-01-02t03:04:05z", "2023-02-29T00:00:00Z", "2024-01-02T03:04:05", "2024-01-02T03:04:05+0200", "2024-1-2T03:04:05Z", "2024-01-02T03:04:05,5Z", "1969-12-31T23:59:59-12:00",
		"2016-12-31T23:59:59.123456789012+05:30", "2024-01-02T03:04:05.000000000000000Z", "2024-01-02T03:04:05.1234567890123456789012345678901234567890Z"},
	"bool": {"TRUE", "True", "1", "0", "t", "f", "false "},
}

func init() {
	for typ, texts := range oddLex {
		for _, x := range texts {
			if typ == "bool" {
				continue // (which spellings beyond true / false a boolean takes is not something strconv and OpenAPI agree on: left out)
			}
			cls, tok := classify(typ, x)
			if cls == "canon" {
				cls = "boundary"
			}
			lexTable[typ] = append(lexTable[typ], lexeme{x, cls, tok})
			pathLex[typ] = append(pathLex[typ], x)
		}
	}
}

func lexOf(typ, cls string, rng *rand.Rand) lexeme {
	var c []lexeme
	for _, l := range lexTable[typ] {
		if l.Cls == cls {
			c = append(c, l)
		}
	}
	if len(c) == 0 {
		// bool has no out-of-range lexeme: use garbage
		return lexOf(typ, "garbage", rng)
	}
	return c[rng.Intn(len(c))]
}

// ---- declarations -------------------------------------------------------------

type decl struct {
	In    string `json:"in"`
	Name  string `json:"name"`
	Type  string `json:"type"`
	Array bool   `json:"array"`
	Req   bool   `json:"req"`
	// Joined: an array query parameter declared `explode: false` (its items may travel comma-joined in one pair)
	Joined bool `json:"-"`
}

func (d decl) key() string { return d.In + ":" + d.Name }

type declCell struct {
	D     decl
	Via   string // inline | schemaRef | paramRef
	Level string // op | item | overridden | sibling
	Name  string // parameter name used in the spec
}

// cellMethod: the method of the operation under test - PUT when sibling operations are part of the cell (so that
// one sibling is read before it and one after), GET otherwise.
func cellMethod(cells []declCell, idx int) string {
	for _, c := range cells {
		if c.Level == "sibling" || c.Level == "siblingRef" {
			return "PUT"
		}
	}
	// (every third cell is a POST: methods for which a server-side form parser would also look into the body)
	if idx%3 == 1 {
		return "POST"
	}
	return "GET"
}

func schemaOfType(t string) aspec.Schema { return aspec.Schema{K: t} }

// cellOp renders one declaration cell as an operation (plus the components it needs).
func cellOp(a *aspec.ASpec, idx int, cells []declCell) {
	t := []aspec.Seg{{K: "lit", S: fmt.Sprintf("d%d", idx)}}
	op := simpleOp(cellMethod(cells, idx), t)
	pi := aspec.PathItem{Template: t}
	var siblings []aspec.Op
	for ci, cell := range cells {
		d := cell.D
		sch := schemaOfType(d.Type)
		if cell.Via == "schemaRef" {
			name := fmt.Sprintf("Sch%dx%d", idx, ci)
			a.Schemas = append(a.Schemas, aspec.NamedSchema{Name: name, Schema: sch})
			sch = aspec.Schema{K: "ref", To: name}
		}
		if d.Array {
			s := sch
			sch = aspec.Schema{K: "array", Items: &s}
		}
		p := aspec.Param{In: d.In, Name: cell.Name, Req: d.Req, Schema: sch}
		// parameter attributes that leave the lexical space of the type alone (allowEmptyValue permits the bare key as a
		// way of writing a value the type has - it does not add the empty lexeme to integers), in turn
		if d.In == "query" {
			p.Attrs = []map[string]any{nil, {"allowEmptyValue": true}, {"allowReserved": true}, {"style": "form", "explode": true}, {"deprecated": true}, {"allowEmptyValue": true, "allowReserved": true}}[(idx+ci)%6]
		} else if d.In == "header" {
			p.Attrs = []map[string]any{nil, {"style": "simple"}, {"deprecated": true}}[(idx+ci)%3]
		}
		if cell.Via == "paramRef" {
			name := fmt.Sprintf("Par%dx%d", idx, ci)
			a.Parameters = append(a.Parameters, aspec.NamedParam{Name: name, Param: p})
			p = aspec.Param{Ref: name, In: d.In, Name: cell.Name}
		}
		switch cell.Level {
		case "item":
			pi.Params = append(pi.Params, p)
		case "overridden":
			// the path item declares the same (in, name) differently; the operation's declaration wins
			other := aspec.Param{In: d.In, Name: cell.Name, Req: !d.Req, Schema: aspec.Schema{K: map[bool]string{true: "int32", false: "string"}[d.Type == "string"]}}
			pi.Params = append(pi.Params, other)
			op.Params = append(op.Params, p)
		case "sibling":
			// the path item declares the parameter; another operation of the same path item re-declares the same
			// (in, name) differently - that must stay that operation's business
			pi.Params = append(pi.Params, p)
			other := aspec.Param{In: d.In, Name: cell.Name, Req: !d.Req, Schema: aspec.Schema{K: map[bool]string{true: "int32", false: "string"}[d.Type == "string"]}}
			for _, m := range []string{"GET", "TRACE"} { // one read before the operation under test (PUT), one after (operations are read in a fixed method order)
				sib := simpleOp(m, t)
				sib.Params = []aspec.Param{other}
				siblings = append(siblings, sib)
			}
		case "siblingRef":
			// the operation refers to a component parameter; other operations of the same path item refer to ANOTHER
			// component parameter of the same (in, name), declared differently
			op.Params = append(op.Params, p)
			oname := fmt.Sprintf("Other%dx%d", idx, ci)
			a.Parameters = append(a.Parameters, aspec.NamedParam{Name: oname, Param: aspec.Param{In: d.In, Name: cell.Name, Req: !d.Req, Schema: aspec.Schema{K: map[bool]string{true: "int32", false: "string"}[d.Type == "string"]}}})
			for _, m := range []string{"GET", "TRACE"} {
				sib := simpleOp(m, t)
				sib.Params = []aspec.Param{{Ref: oname, In: d.In, Name: cell.Name}}
				siblings = append(siblings, sib)
			}
		default:
			op.Params = append(op.Params, p)
		}
	}
	pi.Ops = append([]aspec.Op{op}, siblings...)
	a.Paths = append(a.Paths, pi)
}

func paramSpec(id string) *aspec.ASpec {
	return &aspec.ASpec{Base: aspec.Base{Form: "none"}, SpecName: "openapi.yaml", Flags: aspec.Flags{APIHandler: true, DoNotEdit: true}, Security: aspec.Sec{K: "none"}, Title: id}
}

// ---- the check ----------------------------------------------------------------------

var reParamErr = regexp.MustCompile(`(query|header|path) parameter '([^']*)'`)

type supEntry struct {
	Key string   `json:"key"`
	Lex []supLex `json:"lex"`
}
type supLex struct {
	Cls string `json:"cls"`
	Tok string `json:"tok"`
}

// flattenField turns the projection of one parameter field into (set, tokens).
func flattenField(v driver.AVal) (bool, []string) {
	switch v.T {
	case "maybe", "nullable":
		if !v.Set || v.M == nil {
			return false, []string{}
		}
		return flattenField(*v.M)
	case "list":
		out := []string{}
		for _, e := range v.L {
			_, t := flattenField(e)
			out = append(out, t...)
		}
		return true, out
	case "leaf":
		return true, []string{v.S}
	}
	return true, []string{"?" + v.T}
}

// parseEvent converts a recorded Parse event into the event of Trace_Params.
func parseEvent(e map[string]any, opID string, decls []decl, sup []supEntry) map[string]any {
	out := map[string]any{"ev": "Parse", "case": e["case"], "op": opID, "sup": sup, "panic": "", "errKey": "", "fields": []any{}, "extra": 0, "ok": false}
	if p, _ := e["panic"].(string); p != "" {
		out["panic"] = trunc(p, 300)
		return out
	}
	ok, _ := e["ok"].(bool)
	out["ok"] = ok
	if !ok {
		in, _ := e["errIn"].(string)
		par, _ := e["errParam"].(string)
		msg, _ := e["err"].(string)
		if in == "" && par == "" {
			if m := reParamErr.FindStringSubmatch(msg); m != nil {
				in, par = m[1], m[2]
			}
		}
		out["errKey"] = in + ":" + par
		out["errText"] = trunc(msg, 200)
		return out
	}
	var av driver.AVal
	bs, _ := json.Marshal(e["params"])
	json.Unmarshal(bs, &av)
	fields := []any{}
	extra := 0
	for _, loc := range av.F {
		in := map[string]string{"query": "query", "headers": "header", "path": "path"}[loc.N]
		if in == "" {
			continue // body
		}
		for _, f := range loc.V.F {
			var match *decl
			for i := range decls {
				if decls[i].In == in && driver.Norm(decls[i].Name) == f.N {
					match = &decls[i]
				}
			}
			if match == nil {
				extra++
				continue
			}
			set, toks := flattenField(f.V)
			fields = append(fields, map[string]any{"key": match.key(), "set": set, "toks": toks})
		}
	}
	out["fields"] = fields
	out["extra"] = extra
	return out
}

func checkC04(c *core.Check) {
	c.Assumptions = []string{
		"lexeme classes per type are defined by strconv / time.Parse(RFC3339) on uncontroversial representatives (DESIGN §11, A.5); header arrays, nullable parameters and non-primitive parameters are outside the matrix",
		"'absent' = key not in the query / no header line; ?p= supplies the empty lexeme; several values = repeated key / repeated header line",
		"the error identifies the parameter through ErrParseParam{In, Parameter} or the text \"<in> parameter '<name>'\"; with several failing parameters any one is accepted",
		"struct fields are bound to parameters by normalised name (lower-case alphanumerics)",
	}
	thorough := c.Tier == "thorough"
	dcfg := "MC_Params.cfg"
	if thorough {
		dcfg = "MC_Params_thorough.cfg"
	}
	r, err := core.RunTLC(core.TLCOpts{Module: "MC_Params", Cfg: dcfg, Workers: 16, Timeout: 30 * time.Minute, Heap: "16g"})
	if err != nil || r.Error != "" {
		c.HarnessError(fmt.Sprintf("MC_Params: %v %s", err, r.Error))
		return
	}
	if r.InvViolated != "" {
		c.Note("MODEL: design check MC_Params reports %s violated", r.InvViolated)
	}
	c.AddTLC(r)
	er, err := core.RunTLC(core.TLCOpts{Module: "MC_Params", Cfg: "MC_Params_emit.cfg", Workers: 2, Timeout: 5 * time.Minute})
	if err != nil || er.Error != "" {
		c.HarnessError(fmt.Sprintf("MC_Params emit: %v %s", err, er.Error))
		return
	}
	var base []decl
	for _, j := range er.JSON {
		var v struct {
			Decl decl `json:"decl"`
		}
		if json.Unmarshal(j, &v) == nil && v.Decl.In != "" {
			base = append(base, v.Decl)
		}
	}
	sort.Slice(base, func(i, j int) bool { return fmt.Sprint(base[i]) < fmt.Sprint(base[j]) })
	if len(base) == 0 {
		c.HarnessError("no declarations from TLC")
		return
	}
	rng := rand.New(rand.NewSource(c.Seed))
	names := []string{"p", "page-size", "X-Request-Id", "shop_id", "fooBar", "q2"}
	var cells [][]declCell
	for _, d := range base {
		for _, via := range []string{"inline", "schemaRef", "paramRef"} {
			for _, level := range []string{"op", "item", "overridden", "sibling", "siblingRef"} {
				if level == "siblingRef" && via != "paramRef" {
					continue
				}
				if !thorough && via != "inline" && level != "op" && rng.Intn(2) == 0 {
					continue
				}
				n := names[rng.Intn(len(names))]
				dd := d
				dd.Name = n
				cells = append(cells, []declCell{{D: dd, Via: via, Level: level, Name: n}})
			}
		}
	}
	// two-parameter operations (which failing parameter is named is free)
	nPairs := 40
	if thorough {
		nPairs = 1500
	}
	for k := 0; k < nPairs; k++ {
		d1, d2 := base[rng.Intn(len(base))], base[rng.Intn(len(base))]
		d1.Name, d2.Name = "first", "second-one"
		cells = append(cells, []declCell{{D: d1, Via: "inline", Level: "op", Name: d1.Name}, {D: d2, Via: "inline", Level: "op", Name: d2.Name}})
	}

	// pre-flight every cell on its own (C01 owns cells that do not build)
	var pre []core.GenJob
	for i, cs := range cells {
		a := paramSpec(fmt.Sprintf("cell%d", i))
		cellOp(a, i, cs)
		j := a.Job(fmt.Sprintf("cell%d", i))
		j.Check = true
		j.Package = "gen"
		pre = append(pre, j)
	}
	pres := core.RunGenJobs(pre, 0)
	var good []int
	notBuilding := 0
	for i, r := range pres {
		if strings.HasPrefix(r.Err, "HARNESS") {
			c.HarnessError("pre-flight: " + r.Err)
			return
		}
		if r.Builds() {
			good = append(good, i)
		} else {
			notBuilding++
		}
	}
	if len(good) == 0 {
		c.HarnessError("no declaration cell builds")
		return
	}
	c.Cov["cells"] = len(cells)
	c.Cov["cells_excluded_not_building"] = notBuilding

	// pack the building cells
	specs := map[string]*aspec.ASpec{}
	var groups []pGroup
	perPkg := 60
	type caseMeta struct {
		op    string
		decls []decl
		sup   []supEntry
	}
	meta := map[string]caseMeta{}
	caseN := 0
	classes := []string{"canon", "boundary", "outOfRange", "garbage", "empty"}
	for start := 0; start < len(good); start += perPkg {
		end := start + perPkg
		if end > len(good) {
			end = len(good)
		}
		id := fmt.Sprintf("pp%d", start/perPkg)
		a := paramSpec(id)
		g := pGroup{Pkg: id, ASpec: a, API: driver.APIConfig{}}
		for _, ci := range good[start:end] {
			cs := cells[ci]
			cellOp(a, ci, cs)
			opID := fmt.Sprintf("GET /d%d", ci)
			var ds []decl
			for _, cell := range cs {
				ds = append(ds, cell.D)
			}
			// supplies: absent, one lexeme of every class, two lexemes of every pair of classes
			var supplies [][]string
			supplies = append(supplies, []string{})
			for _, c1 := range classes {
				supplies = append(supplies, []string{c1})
			}
			for _, c1 := range classes {
				for _, c2 := range classes {
					supplies = append(supplies, []string{c1, c2})
				}
			}
			if thorough {
				for _, c1 := range classes { // every triple of classes
					for _, c2 := range classes {
						for _, c3 := range classes {
							supplies = append(supplies, []string{c1, c2, c3})
						}
					}
				}
			}
			for si, s1 := range supplies {
				combos := [][]string{s1}
				if len(ds) == 2 {
					combos = [][]string{s1, supplies[(si*7+3)%len(supplies)]}
				}
				caseN++
				cid := fmt.Sprintf("c%d", caseN)
				rc := driver.ReqCase{ID: cid, Method: cellMethod(cells[ci], ci), Path: fmt.Sprintf("/d%d", ci), Headers: map[string][]string{}, Script: driver.Script{Parse: true, Reparse: true}}
				q := url.Values{}
				var sup []supEntry
				for di, d := range ds {
					se := supEntry{Key: d.key(), Lex: []supLex{}}
					for _, cls := range combos[di%len(combos)] {
						lx := lexOf(d.Type, cls, rng)
						se.Lex = append(se.Lex, supLex{Cls: lx.Cls, Tok: lx.Tok})
						if d.In == "query" {
							q.Add(d.Name, lx.Text)
						} else {
							rc.Headers[d.Name] = append(rc.Headers[d.Name], lx.Text)
						}
					}
					sup = append(sup, se)
				}
				rc.RawQuery = q.Encode()
				if caseN%2 == 0 {
					// undeclared neighbours: keys and values that contain a declared name (before and after the real pairs),
					// header lines whose names extend a declared one - none of them is the parameter
					for _, d := range ds {
						if d.In == "query" {
							pre, post := "parent_"+d.Name+"=7&note="+d.Name+"=3", d.Name+"s=8&x"+d.Name+"=9&"+d.Name+"_=1"
							if rc.RawQuery == "" {
								rc.RawQuery = pre + "&" + post
							} else {
								rc.RawQuery = pre + "&" + rc.RawQuery + "&" + post
							}
						} else {
							rc.Headers["X-Parent-"+d.Name] = []string{"7"}
							rc.Headers[d.Name+"-Other"] = []string{"8"}
						}
					}
				}
				if rc.Method != "GET" && caseN%4 == 1 {
					// a form-encoded body whose fields are named like the declared parameters: a body is not where query
					// and header parameters come from
					var fields []string
					for _, d := range ds {
						fields = append(fields, url.QueryEscape(d.Name)+"="+url.QueryEscape(lexOf(d.Type, "canon", rng).Text))
					}
					rc.Headers["Content-Type"] = []string{"application/x-www-form-urlencoded"}
					rc.Body, rc.HasBody = strings.Join(fields, "&")+"&other=1", true
				}
				g.Cases = append(g.Cases, rc)
				meta[cid] = caseMeta{op: opID, decls: ds, sup: sup}
			}
		}
		specs[id] = a
		groups = append(groups, g)
	}
	run, evs, kept, ok := driveGroups(c, specs, groups, "pipeline")
	if !ok {
		return
	}
	var events [][]byte
	add := func(v any) {
		bs, _ := json.Marshal(v)
		events = append(events, bs)
	}
	parsed := map[string]bool{}
	for _, raw := range evs {
		var e map[string]any
		json.Unmarshal(raw, &e)
		switch e["ev"] {
		case "DriverError":
			c.HarnessError(fmt.Sprintf("driver: %v", e["err"]))
			return
		case "Group":
			g := kept[int(e["group"].(float64))]
			type cfgOp struct {
				ID    string `json:"id"`
				Decls []decl `json:"decls"`
			}
			var ops []cfgOp
			seen := map[string]bool{}
			for _, rc := range g.Cases {
				m := meta[rc.ID]
				if !seen[m.op] {
					seen[m.op] = true
					ops = append(ops, cfgOp{ID: m.op, Decls: m.decls})
				}
			}
			add(map[string]any{"ev": "Config", "ops": ops})
		case "Parse":
			cid, _ := e["case"].(string)
			m := meta[cid]
			add(parseEvent(e, m.op, m.decls, m.sup))
			parsed[cid] = true
			if len(run.raw[cid]) < 4 {
				run.raw[cid] = append(run.raw[cid], trunc(string(raw), 600))
			}
		case "Done":
			cid, _ := e["case"].(string)
			if !parsed[cid] {
				// the request never reached Parse(): routing failed or the handler panicked
				m := meta[cid]
				p, _ := e["panic"].(string)
				add(map[string]any{"ev": "Parse", "case": cid, "op": m.op, "sup": m.sup, "panic": "no Parse event (status " + fmt.Sprint(e["status"]) + ") " + trunc(p, 200), "errKey": "", "fields": []any{}, "extra": 0, "ok": false})
			}
		}
	}
	jr, err := core.Judge("Trace_Params", events, nil)
	if err != nil {
		c.HarnessError(err.Error())
		return
	}
	c.AddTLC(jr.TLC)
	c.Drift("Params (generated parse order: which of several failing parameters is named)", jr.Drifts)
	c.Add("traces_validated_against_impl", int64(run.requests))
	// (Parse() is called twice per request and both outcomes are judged: an evaluation is one judged outcome)
	nParse := 0
	for _, ev := range events {
		if bytes.Contains(ev, []byte(`"ev":"Parse"`)) {
			nParse++
		}
	}
	c.Add("evaluations", int64(nParse))
	c.Cov["requests"] = run.requests
	c.Add("programs", int64(run.programs))
	c.Add("distinct_nontrivial", int64(jr.Nontriv))
	c.Cov["exhaustive"] = false
	c.Cov["rule"] = "TLC (MC_Params) checks the generated parse order against the set-valued Prop outcomes for every pair of declarations x every supply of <= 2 lexeme classes and enumerates the declaration matrix (location x type x array x required); each declaration is rendered inline / via schema $ref / via component parameter, at operation / path-item / overridden level, pre-flighted, packed, and requested with absent, every single class and every pair of classes (thorough: triples); the handler's Parse() result is projected and judged by TLC (Trace_Params); non-trivial = at least one lexeme supplied"
	c.Cov["bounds"] = map[string]any{"base_declarations": len(base), "cells": len(cells), "design_cfg": dcfg}
	if len(run.excluded) > 0 {
		c.Cov["excluded_not_building"] = run.excluded
	}
	c.Sample(map[string]any{"cell": cells[good[0]], "request": groups[0].Cases[7]})
	for _, rj := range jr.Rejects {
		m := meta[rj.Case]
		c.Violation(map[string]any{"case": run.caseInfo[rj.Case], "decls": m.decls, "supplied": m.sup, "observed": run.raw[rj.Case], "reject": rj},
			fmt.Sprintf("parameter parsing: op %s decls %+v supplied %+v: observed %s (model: failing=%s)", m.op, m.decls, m.sup, trunc(string(rj.Event), 300), rj.Why))
	}
}
