package checks

import (
	"encoding/base64"
	"encoding/json"
	"fmt"
	"net/http"
	"net/url"
	"os"
	"sort"
	"strings"
	"time"

	"verif/driver"
	"verif/internal/aspec"
	"verif/internal/core"
)

// ---- the cfg record of spec/Pipeline.tla ------------------------------------

type pSec struct {
	K    string     `json:"k"`
	List [][]string `json:"list"`
}

type pScheme struct {
	Key   string `json:"key"`
	Kind  string `json:"kind"`
	Name  string `json:"name"`
	Canon string `json:"canon"`
}

type pOp struct {
	ID   string      `json:"id"`
	M    string      `json:"m"`
	T    []aspec.Seg `json:"t"`
	TS   string      `json:"ts"`
	Item int         `json:"item"`
	Sec  pSec        `json:"sec"`
	Hdrs []string    `json:"hdrs"`
}

type pItem struct {
	T    []aspec.Seg `json:"t"`
	TS   string      `json:"ts"`
	Hdrs []string    `json:"hdrs"`
}

type pAPI struct {
	Mw       int      `json:"mw"`
	NotFound bool     `json:"notFound"`
	Spec     bool     `json:"spec"`
	Cors     bool     `json:"cors"`
	Auth     []string `json:"auth"`
}

type pCfg struct {
	Base     []string  `json:"base"`
	SpecName string    `json:"specName"`
	Cors     bool      `json:"cors"`
	Global   pSec      `json:"global"`
	Schemes  []pScheme `json:"schemes"`
	Ops      []pOp     `json:"ops"`
	Items    []pItem   `json:"items"`
	API      pAPI      `json:"api"`
}

func secOf(s aspec.Sec) pSec {
	out := pSec{K: s.K, List: [][]string{}}
	if s.K == "" {
		out.K = "inherit"
	}
	for _, a := range s.List {
		out.List = append(out.List, append([]string{}, a...))
	}
	return out
}

func headerCanon(ps []aspec.Param) []string {
	out := []string{}
	for _, p := range ps {
		if p.In == "header" {
			out = append(out, http.CanonicalHeaderKey(p.Name))
		}
	}
	return out
}

// pipelineCfg projects an ASpec (and an API configuration) to the cfg record of Pipeline.tla.
func pipelineCfg(a aspec.ASpec, api driver.APIConfig) pCfg {
	c := pCfg{Base: append([]string{}, a.Base.Segs...), SpecName: a.SpecName, Cors: a.Flags.Cors,
		Global: secOf(a.Security), Schemes: []pScheme{}, Ops: []pOp{}, Items: []pItem{}}
	if a.Base.Form == "none" {
		c.Base = []string{}
	}
	if c.SpecName == "" {
		c.SpecName = "openapi.yaml"
	}
	if a.Security.K == "" || a.Security.K == "inherit" {
		c.Global = pSec{K: "none", List: [][]string{}}
	}
	for _, s := range a.Schemes {
		c.Schemes = append(c.Schemes, pScheme{Key: s.Key, Kind: s.Kind, Name: s.Name, Canon: http.CanonicalHeaderKey(s.Name)})
	}
	for i, pi := range a.Paths {
		ts := aspec.TemplateString(pi.Template)
		c.Items = append(c.Items, pItem{T: pi.Template, TS: ts, Hdrs: headerCanon(pi.Params)})
		for _, op := range pi.Ops {
			c.Ops = append(c.Ops, pOp{ID: op.Method + " " + ts, M: op.Method, T: pi.Template, TS: ts, Item: i + 1, Sec: secOf(op.Security), Hdrs: headerCanon(op.Params)})
		}
	}
	c.API = pAPI{Mw: api.Mw, NotFound: api.NotFound, Spec: api.Spec, Cors: api.Cors, Auth: []string{}}
	keys := []string{}
	for k, v := range api.Auth {
		if v {
			keys = append(keys, k)
		}
	}
	sort.Strings(keys)
	c.API.Auth = keys
	return c
}

func schemeInfos(a aspec.ASpec) []driver.SchemeInfo {
	var out []driver.SchemeInfo
	for _, s := range a.Schemes {
		out = append(out, driver.SchemeInfo{Key: s.Key, Kind: s.Kind, Name: s.Name})
	}
	return out
}

// ---- requests ------------------------------------------------------------------

type pCred struct {
	S string `json:"s"`
	C string `json:"c"` // valid | invalid
}

// mkReq builds a request case: the concrete request for the driver and its abstract description.
func mkReq(id, method, path string, creds []pCred, a *aspec.ASpec) driver.ReqCase {
	rc := driver.ReqCase{ID: id, Method: method, Path: path, Headers: map[string][]string{}, Script: driver.Script{Parse: true}}
	kind := "other"
	segs := []string{}
	if strings.HasPrefix(path, "/") {
		kind = "abs"
		segs = strings.Split(path[1:], "/")
	}
	if creds == nil {
		creds = []pCred{}
	}
	var q []string
	for _, cr := range creds {
		for _, s := range a.Schemes {
			if s.Key != cr.S {
				continue
			}
			tok := cr.C + "-" + s.Key
			if cr.C == "valid" && credForm(id) {
				// the credential's form is the user's business: a key that itself looks like an Authorization value
				// (the authenticator stub of this case accepts exactly this spelling)
				tok = "Bearer " + tok
				rc.CredPrefix = "Bearer "
			}
			switch s.Kind {
			case "bearer":
				rc.Headers["Authorization"] = append(rc.Headers["Authorization"], "Bearer "+tok)
			case "basic":
				rc.Headers["Authorization"] = append(rc.Headers["Authorization"], "Basic "+base64.StdEncoding.EncodeToString([]byte("u:"+tok)))
			case "apiKeyHeader":
				rc.Headers[s.Name] = append(rc.Headers[s.Name], tok)
			case "apiKeyQuery":
				q = append(q, s.Name+"="+url.QueryEscape(tok))
			case "apiKeyCookie":
				rc.Headers["Cookie"] = append(rc.Headers["Cookie"], s.Name+"="+tok)
			case "oauth2", "openIdConnect":
				rc.Headers["Authorization"] = append(rc.Headers["Authorization"], "Bearer "+tok)
			}
		}
	}
	rc.RawQuery = strings.Join(q, "&")
	rc.Abs = map[string]any{"method": method, "kind": kind, "segs": segs, "cred": creds}
	return rc
}

// credForm: every third case presents its valid credentials as "Bearer valid-<scheme>" (the authenticator stubs of
// the driver accept, per case, exactly the spelling presented).
func credForm(id string) bool {
	n := 0
	for _, ch := range id {
		if ch >= '0' && ch <= '9' {
			n = n*10 + int(ch-'0')
		}
	}
	return n%3 == 0
}

// ---- running and abstracting -------------------------------------------------------

type pGroup struct {
	Pkg   string
	ASpec *aspec.ASpec
	API   driver.APIConfig
	Cases []driver.ReqCase
}

type pRun struct {
	events   [][]byte            // abstract events for Trace_Pipeline
	caseInfo map[string]any      // case id -> description for replay files
	raw      map[string][]string // case id -> raw driver events (for replay files)
	requests int
	excluded []string
	programs int
}

// driveGroups generates and compiles the packages (pre-flight: packages that do not build are
// left out and listed), runs every group through the reflective driver and returns the raw events.
func driveGroups(c *core.Check, specs map[string]*aspec.ASpec, groups []pGroup, kind string) (run *pRun, evs []json.RawMessage, kept []pGroup, ok bool) {
	ids := make([]string, 0, len(specs))
	for id := range specs {
		ids = append(ids, id)
	}
	sort.Strings(ids)
	var jobs []core.GenJob
	for _, id := range ids {
		jobs = append(jobs, specs[id].Job(id))
	}
	sc, err := core.BuildScratch(jobs, false)
	if err != nil {
		c.HarnessError(err.Error())
		return nil, nil, nil, false
	}
	defer sc.Close()
	run = &pRun{caseInfo: map[string]any{}, raw: map[string][]string{}}
	for id, r := range sc.Excluded {
		run.excluded = append(run.excluded, id+": "+trunc(r.Err+strings.Join(r.TypeErr, "; ")+strings.Join(r.ParseErr, "; "), 200))
	}
	sort.Strings(run.excluded)
	run.programs = len(sc.Pkgs)
	built := map[string]bool{}
	for _, p := range sc.Pkgs {
		built[p] = true
	}
	var dgroups []driver.Group
	for _, g := range groups {
		if !built[g.Pkg] {
			continue
		}
		api := g.API
		api.Schemes = schemeInfos(*g.ASpec)
		dgroups = append(dgroups, driver.Group{Pkg: g.Pkg, Kind: kind, API: api, Cases: g.Cases})
		kept = append(kept, g)
		run.requests += len(g.Cases)
	}
	if len(dgroups) == 0 {
		c.HarnessError(fmt.Sprintf("no package of this universe builds (excluded: %v)", run.excluded))
		return nil, nil, nil, false
	}
	evs, _, err = sc.Run(dgroups, 15*time.Minute)
	if err != nil {
		c.HarnessError(err.Error())
		return nil, nil, nil, false
	}
	for _, g := range kept {
		for _, rc := range g.Cases {
			run.caseInfo[rc.ID] = map[string]any{"pkg": g.Pkg, "api": g.API, "request": map[string]any{"method": rc.Method, "path": rc.Path, "rawQuery": rc.RawQuery, "headers": rc.Headers}}
		}
	}
	return run, evs, kept, true
}

// runPipeline serves every group's requests and returns the abstract event log for Trace_Pipeline.
func runPipeline(c *core.Check, specs map[string]*aspec.ASpec, groups []pGroup) (*pRun, bool) {
	run, evs, kept, ok := driveGroups(c, specs, groups, "pipeline")
	if !ok {
		return nil, false
	}
	specText := map[string]string{}
	add := func(v any) {
		bs, _ := json.Marshal(v)
		run.events = append(run.events, bs)
	}
	gi := -1
	var caseOf map[string]*driver.ReqCase // cases of the current group by id
	var nested map[string]any             // the internal forward being folded
	for _, raw := range evs {
		var e map[string]any
		if err := json.Unmarshal(raw, &e); err != nil {
			c.HarnessError("bad driver event: " + err.Error())
			return nil, false
		}
		cid, _ := e["case"].(string)
		if cid != "" && len(run.raw[cid]) < 40 {
			run.raw[cid] = append(run.raw[cid], trunc(string(raw), 400))
		}
		// an internal forward (the handler dispatches another request through the same API value): its events are
		// folded into one Nested event - which operation ran and which template it and the middlewares were shown
		if nested != nil && e["ev"] != "NestedEnd" {
			switch e["ev"] {
			case "MwEnter":
				t, _ := e["tmpl"].(string)
				nested["mwTmpls"] = append(nested["mwTmpls"].([]string), t)
			case "Handler":
				nested["op"], nested["tmpl"], nested["has"] = e["op"], e["tmpl"], e["has"]
			case "NestedPanic":
				nested["panic"] = e["panic"]
			}
			continue
		}
		switch e["ev"] {
		case "NestedBegin":
			p, _ := e["path"].(string)
			nested = map[string]any{"ev": "Nested", "method": "GET", "kind": "abs", "segs": strings.Split(strings.TrimPrefix(p, "/"), "/"), "op": "", "tmpl": "", "has": false, "mwTmpls": []string{}, "panic": ""}
		case "NestedEnd":
			add(nested)
			nested = nil
		case "DriverError":
			c.HarnessError(fmt.Sprintf("driver: %v", e["err"]))
			return nil, false
		case "Group":
			gi = int(e["group"].(float64))
			caseOf = nil
			g := kept[gi]
			add(map[string]any{"ev": "Config", "cfg": pipelineCfg(*g.ASpec, g.API)})
			if _, ok := specText[g.Pkg]; !ok {
				specText[g.Pkg] = g.ASpec.Render()
			}
		case "Req":
			add(map[string]any{"ev": "Req", "case": cid, "method": e["method"], "kind": e["kind"], "segs": e["segs"], "cred": e["cred"]})
		case "MwEnter":
			add(map[string]any{"ev": "MwEnter", "i": e["i"], "tmpl": e["tmpl"], "has": e["has"]})
		case "MwLeave":
			add(map[string]any{"ev": "MwLeave", "i": e["i"]})
		case "Auth":
			add(map[string]any{"ev": "Auth", "s": e["s"], "ok": e["ok"]})
		case "Handler":
			tag, _ := e["tag"].(string)
			if i := strings.Index(tag, "|"); i >= 0 {
				tag = tag[:i]
			}
			add(map[string]any{"ev": "Handler", "op": e["op"], "tag": tag, "tmpl": e["tmpl"], "has": e["has"]})
		case "Parse":
			okp, _ := e["ok"].(bool)
			mayFail := gi < 0 || specDeclaresParams(kept[gi].ASpec)
			if gi >= 0 && !mayFail {
				// (a credential header or key supplied more than once is "a scalar supplied more than once")
				if caseOf == nil {
					caseOf = map[string]*driver.ReqCase{}
					for k := range kept[gi].Cases {
						caseOf[kept[gi].Cases[k].ID] = &kept[gi].Cases[k]
					}
				}
				if rc := caseOf[cid]; rc != nil {
					for _, vs := range rc.Headers {
						mayFail = mayFail || len(vs) > 1
					}
					q, _ := url.ParseQuery(rc.RawQuery)
					for _, vs := range q {
						mayFail = mayFail || len(vs) > 1
					}
				}
			}
			add(map[string]any{"ev": "Parsed", "ok": okp, "mayFail": mayFail})
		case "NotFound":
			add(map[string]any{"ev": "NotFound", "custom": e["custom"]})
		case "Cors":
			add(map[string]any{"ev": "Cors", "methods": e["methods"], "headers": e["headers"]})
		case "Spec":
			add(map[string]any{"ev": "Spec"})
		case "Done":
			body, _ := e["body"].(string)
			bs, _ := base64.StdEncoding.DecodeString(body)
			p, _ := e["panic"].(string)
			add(map[string]any{"ev": "Done", "status": e["status"], "writes": e["writes"], "panic": trunc(p, 300), "specBody": gi >= 0 && string(bs) == specText[kept[gi].Pkg]})
		}
	}
	return run, true
}

// specDeclaresParams: does any operation of the spec declare a parameter or a path variable (anything Parse() could
// find missing or malformed)?
func specDeclaresParams(a *aspec.ASpec) bool {
	for _, pi := range a.Paths {
		if len(pi.Params) > 0 {
			return true
		}
		for _, sg := range pi.Template {
			if sg.K == "var" {
				return true
			}
		}
		for _, op := range pi.Ops {
			if len(op.Params) > 0 || op.Body.K != "none" && op.Body.K != "" {
				return true
			}
		}
	}
	return false
}

// judgePipeline runs Trace_Pipeline and reports rejects.  kfOther lists finding keys that belong
// to other properties (their cases are skipped here, the owning check reports them).
func judgePipeline(c *core.Check, run *pRun, specs map[string]*aspec.ASpec, what string) {
	jr, err := core.Judge("Trace_Pipeline", run.events, nil)
	if err != nil {
		c.HarnessError(err.Error())
		return
	}
	c.AddTLC(jr.TLC)
	c.Add("traces_validated_against_impl", int64(run.requests))
	c.Add("evaluations", int64(run.requests))
	c.Add("programs", int64(run.programs))
	c.Add("distinct_nontrivial", int64(jr.Nontriv))
	if len(run.excluded) > 0 {
		c.Cov["excluded_not_building"] = run.excluded
	}
	foreign := 0
	if os.Getenv("VERIF_DEBUG") != "" {
		agg := map[string]int{}
		ex := map[string]string{}
		for _, rj := range jr.Rejects {
			var e map[string]any
			json.Unmarshal(rj.Event, &e)
			info, _ := run.caseInfo[rj.Case].(map[string]any)
			k := fmt.Sprintf("%v kf=%s pkgkind=%.2s", e["ev"], rj.KF, fmt.Sprint(info["pkg"]))
			agg[k]++
			if _, ok := ex[k]; !ok {
				ex[k] = fmt.Sprintf("%v %s %s", info, rj.Event, rj.Why)
			}
		}
		for k, n := range agg {
			fmt.Printf("DEBUG %5d %s e.g. %s\n", n, k, trunc(ex[k], 700))
		}
	}
	for _, rj := range jr.Rejects {
		if rj.KF != "" {
			if c.Known(rj.KF) {
				continue
			}
			if knownElsewhere(rj.KF) {
				foreign++
				continue
			}
		}
		info, _ := run.caseInfo[rj.Case].(map[string]any)
		var spec any
		if info != nil {
			if p, ok := info["pkg"].(string); ok && specs[p] != nil {
				spec = specs[p]
			}
		}
		c.Violation(map[string]any{"case": info, "events": run.raw[rj.Case], "reject": rj, "aspec": spec},
			fmt.Sprintf("%s: request %v: event not explained by the model: %s (model state %s)", what, info["request"], trunc(string(rj.Event), 200), trunc(rj.Why, 300)))
	}
	if foreign > 0 {
		c.Note("%d rejected cases match known findings of other properties and are reported there", foreign)
	}
}

func knownElsewhere(key string) bool {
	fs, _ := core.LoadFindings()
	for _, f := range fs {
		if !f.Fixed && f.Key == key {
			return true
		}
	}
	return false
}
