package checks

import (
	"strings"

	"verif/driver"
	"verif/internal/aspec"
	"verif/internal/core"
)

// tlaVal converts a projected value to the record shape spec/Codec.tla reads (every field a kind
// needs is present, none is null).
func tlaVal(a driver.AVal) map[string]any {
	switch a.T {
	case "leaf":
		s := a.S
		if strings.HasPrefix(s, "j:") {
			s = "j:" + core.CanonOfBytes([]byte(s[2:]))
		}
		return map[string]any{"t": "leaf", "s": s}
	case "maybe", "nullable":
		m := map[string]any{"t": "unit"}
		if a.Set && a.M != nil {
			m = tlaVal(*a.M)
		}
		return map[string]any{"t": a.T, "set": a.Set, "m": m}
	case "struct":
		fs := []any{}
		for _, f := range a.F {
			fs = append(fs, map[string]any{"n": f.N, "emb": f.Emb, "v": tlaVal(f.V)})
		}
		return map[string]any{"t": "struct", "f": fs}
	case "list":
		l := []any{}
		for _, e := range a.L {
			l = append(l, tlaVal(e))
		}
		return map[string]any{"t": "list", "l": l}
	case "map":
		kv := []any{}
		for _, e := range a.KV {
			kv = append(kv, map[string]any{"k": e.K, "v": tlaVal(e.V)})
		}
		return map[string]any{"t": "map", "kv": kv}
	}
	return map[string]any{"t": "leaf", "s": "?" + a.T}
}

// resolved schema handed to TLC: references replaced by their targets, allOf merged into one object.
func tlaSchema(a *aspec.ASpec, s aspec.Schema, depth int) map[string]any {
	if depth > 12 {
		return map[string]any{"k": "any", "nullable": false}
	}
	switch s.K {
	case "ref":
		for _, ns := range a.Schemas {
			if ns.Name == s.To {
				return tlaSchema(a, ns.Schema, depth+1)
			}
		}
		panic("unresolved ref " + s.To)
	case "array":
		return map[string]any{"k": "array", "nullable": s.Nullable, "items": tlaSchema(a, *s.Items, depth+1)}
	case "object":
		props := []any{}
		for _, p := range s.Props {
			props = append(props, map[string]any{"name": p.Name, "nn": driver.Norm(p.Name), "req": p.Req, "s": tlaSchema(a, p.Schema, depth+1)})
		}
		addl := map[string]any{"k": "none", "s": map[string]any{"k": "any", "nullable": false}}
		switch s.AddlK {
		case "any":
			addl = map[string]any{"k": "any", "s": map[string]any{"k": "any", "nullable": false}}
		case "schema":
			addl = map[string]any{"k": "schema", "s": tlaSchema(a, *s.Addl, depth+1)}
		}
		// inlineAddl: the value schema of additionalProperties is declared inline as an object / allOf / oneOf
		// (selector of a known finding)
		inlineAddl := s.AddlK == "schema" && s.Addl != nil && (s.Addl.K == "object" || s.Addl.K == "allOf" || s.Addl.K == "oneOf")
		return map[string]any{"k": "object", "nullable": s.Nullable, "props": props, "addl": addl, "inlineAddl": inlineAddl, "addlNotLast": false}
	case "allOf":
		props := []any{}
		addl := map[string]any{"k": "none", "s": map[string]any{"k": "any", "nullable": false}}
		addlNotLast := false // a member with additionalProperties is followed by another member (selector of a known finding)
		for mi, m := range s.Of {
			r := tlaSchema(a, m, depth+1)
			if ad, ok := r["addl"].(map[string]any); ok && ad["k"] != "none" && mi < len(s.Of)-1 {
				addlNotLast = true
			}
			if ps, ok := r["props"].([]any); ok {
				for _, p := range ps {
					// a name the wrapper's own `required` lists is required of the merged object
					pm := p.(map[string]any)
					for _, n := range s.AlsoReq {
						if pm["name"] == n && pm["req"] != true {
							cp := map[string]any{}
							for k, v := range pm {
								cp[k] = v
							}
							cp["req"] = true
							p = cp
						}
					}
					props = append(props, p)
				}
			}
			if ad, ok := r["addl"].(map[string]any); ok && ad["k"] != "none" {
				addl = ad
			}
		}
		return map[string]any{"k": "object", "nullable": s.Nullable, "props": props, "addl": addl, "inlineAddl": false, "addlNotLast": addlNotLast} // (nullable next to allOf: the wrapper's own)
	case "oneOf":
		of := []any{}
		tags := []any{}
		for _, m := range s.Of {
			of = append(of, tlaSchema(a, m, depth+1))
			tag := []any{m.To} // the schema name always denotes the variant; mapping entries add aliases
			for _, kv := range s.DiscMap {
				if kv.V == m.To {
					tag = append(tag, kv.K)
				}
			}
			tags = append(tags, tag)
		}
		return map[string]any{"k": "oneOf", "nullable": false, "of": of, "disc": s.DiscProp, "tags": tags}
	}
	k := s.K
	switch k {
	case "date", "byte", "password", "binary":
		k = "string"
	}
	return map[string]any{"k": k, "nullable": s.Nullable}
}
