package checks

import (
	"encoding/json"
	"fmt"
	"sort"
	"time"

	"verif/driver"
	"verif/internal/core"
)

// streamPlans: the design check of spec/Stream.tla (a consumer that reads until the end is announced receives the
// whole body whatever the source does, never reads a closed body, terminates) and every complete behaviour of the
// source, to be replayed - scaled to the length of real bodies - into the generated servers and clients.
// design: also run the design check (once per property is enough; the other users only take the behaviours).
func streamPlans(c *core.Check, design bool) []*driver.ReadPlan {
	thorough := c.Tier == "thorough"
	if design {
		cfg := "MC_Stream.cfg"
		if thorough {
			cfg = "MC_Stream_thorough.cfg"
		}
		r, err := core.RunTLC(core.TLCOpts{Module: "MC_Stream", Cfg: cfg, Workers: 4, Timeout: 10 * time.Minute})
		if err != nil || r.Error != "" {
			c.HarnessError(fmt.Sprintf("MC_Stream: %v %s", err, r.Error))
			return nil
		}
		if r.InvViolated != "" {
			c.Note("MODEL: design check MC_Stream reports %s violated", r.InvViolated)
		}
		c.AddTLC(r)
		if thorough {
			// bodies of any length: Complete and Conserved proved with TLAPS (StreamProof.tla)
			ok, n, out, err := core.RunTLAPM("StreamProof", 10*time.Minute)
			if err != nil {
				c.HarnessError(err.Error())
				return nil
			}
			if !ok {
				c.Note("MODEL: the TLAPS proof of StreamProof.tla does not go through: %s", out)
			}
			c.Cov["tlaps_proof"] = map[string]any{"module": "StreamProof", "theorem": "Spec => [](Complete /\\ Conserved), any L", "obligations_proved": n, "all_proved": ok}
		}
	}
	cfg, units := "MC_Stream_emit.cfg", 4
	if thorough {
		cfg, units = "MC_Stream_emit_thorough.cfg", 6
	}
	er, err := core.RunTLC(core.TLCOpts{Module: "MC_Stream", Cfg: cfg, Workers: 1, Timeout: 10 * time.Minute})
	if err != nil || er.Error != "" {
		c.HarnessError(fmt.Sprintf("MC_Stream emit: %v %s", err, er.Error))
		return nil
	}
	var keys []string
	seen := map[string]*driver.ReadPlan{}
	for _, j := range er.JSON {
		var v struct {
			Reads []driver.ReadStep `json:"reads"`
		}
		if json.Unmarshal(j, &v) != nil || len(v.Reads) == 0 {
			continue
		}
		k := string(j)
		if seen[k] == nil {
			seen[k] = &driver.ReadPlan{Units: units, Reads: v.Reads}
			keys = append(keys, k)
		}
	}
	if len(keys) == 0 {
		c.HarnessError("MC_Stream emit: no behaviours")
		return nil
	}
	sort.Strings(keys)
	out := make([]*driver.ReadPlan, len(keys))
	for i, k := range keys {
		out[i] = seen[k]
	}
	c.Add("stream_behaviours_replayed", int64(len(out)))
	return out
}
