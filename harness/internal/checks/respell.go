package checks

import (
	"bytes"
	"encoding/json"
	"fmt"
	"math/rand"
	"sort"
	"strings"
	"unicode/utf8"
)

// respellJSON writes the same JSON value in another spelling: characters of strings and keys as \uXXXX escapes
// (surrogate pairs beyond the BMP), "/" as "\/", white space between tokens. Numbers, literals and key order stay as
// they are. A decoder must not be able to tell the two documents apart.
// full: every character of every string value is escaped (keys and white space vary at random either way); otherwise
// string values keep their spelling.
func respellJSON(doc []byte, rng *rand.Rand, full bool) []byte {
	dec := json.NewDecoder(bytes.NewReader(doc))
	dec.UseNumber()
	var v any
	if err := dec.Decode(&v); err != nil {
		return doc
	}
	var b strings.Builder
	ws := func() {
		switch rng.Intn(6) {
		case 0:
			b.WriteByte(' ')
		case 1:
			b.WriteString("\n\t")
		case 2:
			b.WriteString("\r\n ")
		}
	}
	str := func(s string, all, some bool) {
		b.WriteByte('"')
		for _, r := range s {
			switch {
			case r == utf8.RuneError:
				b.WriteString(`�`)
			case r == '/' && (all || some && rng.Intn(2) == 0):
				b.WriteString(`\/`)
			case r < 0x20 || r == '"' || r == '\\' || all || some && rng.Intn(3) == 0:
				if r > 0xffff {
					r -= 0x10000
					fmt.Fprintf(&b, `\u%04x\u%04X`, 0xd800+(r>>10), 0xdc00+(r&0x3ff))
				} else {
					fmt.Fprintf(&b, `\u%04X`, r)
				}
			default:
				b.WriteRune(r)
			}
		}
		b.WriteByte('"')
	}
	var emit func(v any)
	emit = func(v any) {
		ws()
		switch x := v.(type) {
		case map[string]any:
			keys := make([]string, 0, len(x))
			for k := range x {
				keys = append(keys, k)
			}
			sort.Strings(keys)
			b.WriteByte('{')
			for i, k := range keys {
				if i > 0 {
					b.WriteByte(',')
				}
				ws()
				str(k, false, true)
				ws()
				b.WriteByte(':')
				emit(x[k])
			}
			ws()
			b.WriteByte('}')
		case []any:
			b.WriteByte('[')
			for i, e := range x {
				if i > 0 {
					b.WriteByte(',')
				}
				emit(e)
			}
			ws()
			b.WriteByte(']')
		case string:
			str(x, full, false)
		case json.Number:
			b.WriteString(x.String())
		case bool:
			fmt.Fprint(&b, x)
		case nil:
			b.WriteString("null")
		}
		ws()
	}
	emit(v)
	out := []byte(b.String())
	// (self-check: the respelled document is the same JSON value)
	var a1, a2 any
	if json.Unmarshal(doc, &a1) != nil || json.Unmarshal(out, &a2) != nil {
		return doc
	}
	j1, _ := json.Marshal(a1)
	j2, _ := json.Marshal(a2)
	if !bytes.Equal(j1, j2) {
		return doc
	}
	return out
}

// escapedTimeInCollection: does the document (valid for the resolved schema rs) hold a date-time string as an array
// item or as a value of additionalProperties - the places where the generated code leaves the string to
// encoding/json and time.Time's own UnmarshalJSON, which does not decode JSON escapes (selector of the known finding
// c08-escaped-time-in-collection; it applies to documents respelled with full = true).
func escapedTimeInCollection(rs map[string]any, doc any) bool {
	var walk func(s map[string]any, v any, inColl bool) bool
	walk = func(s map[string]any, v any, inColl bool) bool {
		if s == nil || v == nil {
			return false
		}
		switch s["k"] {
		case "datetime":
			_, isStr := v.(string)
			return inColl && isStr
		case "array":
			items, _ := s["items"].(map[string]any)
			if l, ok := v.([]any); ok {
				for _, e := range l {
					if walk(items, e, true) {
						return true
					}
				}
			}
		case "object":
			m, ok := v.(map[string]any)
			if !ok {
				return false
			}
			declared := map[string]bool{}
			if ps, ok := s["props"].([]any); ok {
				for _, p := range ps {
					pm := p.(map[string]any)
					n, _ := pm["name"].(string)
					declared[n] = true
					ps2, _ := pm["s"].(map[string]any)
					if walk(ps2, m[n], false) {
						return true
					}
				}
			}
			if ad, ok := s["addl"].(map[string]any); ok && ad["k"] == "schema" {
				as, _ := ad["s"].(map[string]any)
				for k, e := range m {
					if !declared[k] && walk(as, e, true) {
						return true
					}
				}
			}
		case "oneOf":
			if of, ok := s["of"].([]any); ok {
				for _, o := range of {
					om, _ := o.(map[string]any)
					if walk(om, v, inColl) {
						return true
					}
				}
			}
		}
		return false
	}
	return walk(rs, doc, false)
}
