package checks

import (
	"bytes"
	"encoding/json"
	"fmt"
	"sort"
	"strings"
	"time"
	"unicode/utf8"

	"verif/internal/core"
)

// spellPlan is one plan of spec/MC_Spelling.tla: the ways characters are spelled, taken in turn along the document
// ("raw", "u" = \uXXXX, "short" = the character's short escape), and the white space after opening / separating
// tokens and before closing / colon tokens.
type spellPlan struct {
	Ways []string `json:"ways"`
	WS   []string `json:"ws"`
}

func (p spellPlan) escapes() bool {
	for _, w := range p.Ways {
		if w != "raw" {
			return true
		}
	}
	return false
}

// spellPlans: design check of Spelling.tla (a reader sees the value, not the spelling) and the plans it emits.
func spellPlans(c *core.Check, design bool) []spellPlan {
	if design {
		r, err := core.RunTLC(core.TLCOpts{Module: "MC_Spelling", Cfg: "MC_Spelling.cfg", Workers: 4, Timeout: 10 * time.Minute})
		if err != nil || r.Error != "" {
			c.HarnessError(fmt.Sprintf("MC_Spelling: %v %s", err, r.Error))
			return nil
		}
		if r.InvViolated != "" {
			c.Note("MODEL: design check MC_Spelling reports %s violated", r.InvViolated)
		}
		c.AddTLC(r)
	}
	er, err := core.RunTLC(core.TLCOpts{Module: "MC_Spelling", Cfg: "MC_Spelling_emit.cfg", Workers: 1, Timeout: 5 * time.Minute})
	if err != nil || er.Error != "" {
		c.HarnessError(fmt.Sprintf("MC_Spelling emit: %v %s", err, er.Error))
		return nil
	}
	seen := map[string]spellPlan{}
	var keys []string
	for _, j := range er.JSON {
		var v struct {
			Spelling *spellPlan `json:"spelling"`
		}
		if json.Unmarshal(j, &v) != nil || v.Spelling == nil || len(v.Spelling.Ways) == 0 || len(v.Spelling.WS) != 2 {
			continue
		}
		if _, ok := seen[string(j)]; !ok {
			seen[string(j)] = *v.Spelling
			keys = append(keys, string(j))
		}
	}
	if len(keys) == 0 {
		c.HarnessError("MC_Spelling emit: no plans")
		return nil
	}
	sort.Strings(keys)
	out := make([]spellPlan, len(keys))
	for i, k := range keys {
		out[i] = seen[k]
	}
	c.Add("spelling_plans", int64(len(out)))
	return out
}

var wsText = map[string]string{"": "", " ": " ", "nl-tab": "\n\t", "crlf-sp": "\r\n "}
var shortEsc = map[rune]string{'"': `\"`, '\\': `\\`, '/': `\/`, '\n': `\n`, '\t': `\t`, '\r': `\r`, '\b': `\b`, '\f': `\f`}

// respellJSON writes the same JSON value in the spelling of the plan: the k-th character of the document's keys and
// string values is written the plan's (k mod len)-th way where JSON allows that way for it (Spelling.Use), tokens are
// separated by the plan's white space. Numbers, literals and key order (sorted) stay. A decoder must not be able to
// tell the two documents apart.
func respellJSON(doc []byte, plan spellPlan) []byte {
	dec := json.NewDecoder(bytes.NewReader(doc))
	dec.UseNumber()
	var v any
	if err := dec.Decode(&v); err != nil {
		return doc
	}
	var b strings.Builder
	k := 0
	w1, w2 := wsText[plan.WS[0]], wsText[plan.WS[1]]
	str := func(s string) {
		b.WriteByte('"')
		for _, r := range s {
			way := plan.Ways[k%len(plan.Ways)]
			k++
			sh, hasShort := shortEsc[r]
			must := r < 0x20 || r == '"' || r == '\\'
			switch {
			case r == utf8.RuneError:
				b.WriteString(`\uFFFD`)
			case way == "short" && hasShort:
				b.WriteString(sh)
			case way == "raw" && !must:
				b.WriteRune(r)
			case r > 0xffff:
				if way == "raw" {
					b.WriteRune(r)
				} else {
					x := r - 0x10000
					fmt.Fprintf(&b, `\u%04x\u%04X`, 0xd800+(x>>10), 0xdc00+(x&0x3ff))
				}
			default:
				fmt.Fprintf(&b, `\u%04X`, r)
			}
		}
		b.WriteByte('"')
	}
	var emit func(v any)
	emit = func(v any) {
		switch x := v.(type) {
		case map[string]any:
			keys := make([]string, 0, len(x))
			for k := range x {
				keys = append(keys, k)
			}
			sort.Strings(keys)
			b.WriteByte('{')
			for i, k := range keys {
				if i > 0 {
					b.WriteByte(',')
				}
				b.WriteString(w1)
				str(k)
				b.WriteString(w2)
				b.WriteByte(':')
				b.WriteString(w1)
				emit(x[k])
			}
			b.WriteString(w2)
			b.WriteByte('}')
		case []any:
			b.WriteByte('[')
			for i, e := range x {
				if i > 0 {
					b.WriteByte(',')
				}
				b.WriteString(w1)
				emit(e)
			}
			b.WriteString(w2)
			b.WriteByte(']')
		case string:
			str(x)
		case json.Number:
			b.WriteString(x.String())
		case bool:
			fmt.Fprint(&b, x)
		case nil:
			b.WriteString("null")
		}
	}
	b.WriteString(w2)
	emit(v)
	b.WriteString(w1)
	out := []byte(b.String())
	// (self-check: the respelled document is the same JSON value)
	var a1, a2 any
	if json.Unmarshal(doc, &a1) != nil || json.Unmarshal(out, &a2) != nil {
		return doc
	}
	j1, _ := json.Marshal(a1)
	j2, _ := json.Marshal(a2)
	if !bytes.Equal(j1, j2) {
		return doc
	}
	return out
}

// escapedTimeInCollection: does the document (valid for the resolved schema rs) hold a date-time string as an array
// item or as a value of additionalProperties - the places where the generated code leaves the string to
// encoding/json and time.Time's own UnmarshalJSON, which does not decode JSON escapes (selector of the known finding
// c08-escaped-time-in-collection; it applies to documents respelled by a plan that escapes).
func escapedTimeInCollection(rs map[string]any, doc any) bool {
	var walk func(s map[string]any, v any, inColl bool) bool
	walk = func(s map[string]any, v any, inColl bool) bool {
		if s == nil || v == nil {
			return false
		}
		switch s["k"] {
		case "datetime":
			_, isStr := v.(string)
			return inColl && isStr
		case "array":
			items, _ := s["items"].(map[string]any)
			if l, ok := v.([]any); ok {
				for _, e := range l {
					if walk(items, e, true) {
						return true
					}
				}
			}
		case "object":
			m, ok := v.(map[string]any)
			if !ok {
				return false
			}
			declared := map[string]bool{}
			if ps, ok := s["props"].([]any); ok {
				for _, p := range ps {
					pm := p.(map[string]any)
					n, _ := pm["name"].(string)
					declared[n] = true
					ps2, _ := pm["s"].(map[string]any)
					if walk(ps2, m[n], false) {
						return true
					}
				}
			}
			if ad, ok := s["addl"].(map[string]any); ok && ad["k"] == "schema" {
				as, _ := ad["s"].(map[string]any)
				for k, e := range m {
					if !declared[k] && walk(as, e, true) {
						return true
					}
				}
			}
		case "oneOf":
			if of, ok := s["of"].([]any); ok {
				for _, o := range of {
					om, _ := o.(map[string]any)
					if walk(om, v, inColl) {
						return true
					}
				}
			}
		}
		return false
	}
	return walk(rs, doc, false)
}
