package checks

import (
	"encoding/base64"
	"encoding/json"
	"fmt"
	"math/rand"
	"net/http"
	"net/url"
	"os"
	"sort"
	"strconv"
	"strings"
	"time"

	"verif/driver"
	"verif/internal/aspec"
	"verif/internal/core"
)

func init() {
	register("C09", "model_checking", func(c *core.Check) { checkWire(c, "c09") })
	register("C10", "model_checking", func(c *core.Check) { checkWire(c, "c10") })
	register("C02", "model_checking", func(c *core.Check) { checkWire(c, "c02") })
}

// ---- operation universe -----------------------------------------------------------

type wireOp struct {
	tmpl  []aspec.Seg
	op    aspec.Op
	decls []decl
}

var wireTypes = []string{"string", "int", "int32", "int64", "double", "float", "bool", "datetime"}

func wirePool(a *aspec.ASpec) {
	str := aspec.Schema{K: "string"}
	i64 := aspec.Schema{K: "int64"}
	a.Schemas = append(a.Schemas,
		aspec.NamedSchema{Name: "Thing", Schema: objSchema(aspec.Prop{Name: "id", Schema: i64, Req: true}, aspec.Prop{Name: "name", Schema: str}, aspec.Prop{Name: "tags", Schema: aspec.Schema{K: "array", Items: &str}}, aspec.Prop{Name: "at", Schema: aspec.Schema{K: "datetime"}})},
		aspec.NamedSchema{Name: "Bag", Schema: func() aspec.Schema {
			o := objSchema(aspec.Prop{Name: "count", Schema: aspec.Schema{K: "int32"}, Req: true}, aspec.Prop{Name: "note", Schema: aspec.Schema{K: "string", Nullable: true}})
			o.AddlK, o.Addl = "schema", &str
			return o
		}()},
		aspec.NamedSchema{Name: "Names", Schema: aspec.Schema{K: "array", Items: &str}},
		aspec.NamedSchema{Name: "Roster", Schema: objSchema(aspec.Prop{Name: "names", Schema: aspec.Schema{K: "ref", To: "Names"}, Req: true}, aspec.Prop{Name: "more", Schema: aspec.Schema{K: "ref", To: "Names"}}, aspec.Prop{Name: "inline", Schema: aspec.Schema{K: "array", Items: &i64}, Req: true})},
		aspec.NamedSchema{Name: "Things", Schema: aspec.Schema{K: "array", Items: &aspec.Schema{K: "ref", To: "Thing"}}},
	)
	for _, t := range wireTypes {
		a.Schemas = append(a.Schemas, aspec.NamedSchema{Name: "Ref" + strings.Title(t), Schema: aspec.Schema{K: t}})
		if t != "datetime" { // (an array component of date-time does not compile: open finding c01-array-datetime)
			a.Schemas = append(a.Schemas, aspec.NamedSchema{Name: "Arr" + strings.Title(t), Schema: aspec.Schema{K: "array", Items: &aspec.Schema{K: t}}})
		}
	}
	// an array component reached through two aliases (declared before and after what they point to)
	a.Schemas = append(a.Schemas, aspec.NamedSchema{Name: "ZzIdsOnce", Schema: aspec.Schema{K: "ref", To: "ArrInt64"}},
		aspec.NamedSchema{Name: "AaIdsTwice", Schema: aspec.Schema{K: "ref", To: "ZzIdsOnce"}})
	// header components whose keys coincide with header names used elsewhere for other declarations
	a.Headers = append(a.Headers,
		aspec.NamedHeader{Name: "Location", Header: aspec.Header{Name: "Location", Req: true, Schema: aspec.Schema{K: "int32"}}},
		aspec.NamedHeader{Name: "LocationHint", Header: aspec.Header{Name: "Location", Schema: str}},
		aspec.NamedHeader{Name: "Age", Header: aspec.Header{Name: "Age", Req: true, Schema: aspec.Schema{K: "datetime"}}},
		aspec.NamedHeader{Name: "AgeSeconds", Header: aspec.Header{Name: "Age", Schema: i64}})
	a.RequestBodies = append(a.RequestBodies, aspec.NamedBody{Name: "PooledBody", Body: aspec.Body{K: "json", Schema: &aspec.Schema{K: "ref", To: "Thing"}, Req: true}},
		aspec.NamedBody{Name: "PooledInline", Body: aspec.Body{K: "json", Schema: func() *aspec.Schema {
			o := objSchema(aspec.Prop{Name: "label", Schema: str, Req: true}, aspec.Prop{Name: "n", Schema: aspec.Schema{K: "int32"}})
			return &o
		}(), Req: true}})
	// a body offered in several media types, some sorting before application/json
	a.RequestBodies = append(a.RequestBodies, aspec.NamedBody{Name: "PooledMulti", Body: aspec.Body{K: "json", Schema: &aspec.Schema{K: "ref", To: "Bag"}, Req: true, Alt: []string{"application/geo+json", "application/cbor", "text/csv"}}})
	// component responses shared by several operations under different (numbered) statuses, one for defaults only
	a.Responses = append(a.Responses,
		aspec.NamedResponse{Name: "SharedProblem", R: &aspec.Response{Desc: "problem", Headers: []aspec.Header{{Name: "X-Next", Schema: str}, {Name: "X-List", Schema: aspec.Schema{K: "array", Items: &str}}}, Body: aspec.Body{K: "json", Schema: &aspec.Schema{K: "ref", To: "Bag"}}}},
		aspec.NamedResponse{Name: "SharedEmpty", R: &aspec.Response{Desc: "empty", Headers: []aspec.Header{{Name: "x-count", Req: true, Schema: aspec.Schema{K: "int32"}}}, Body: aspec.Body{K: "none"}}},
		aspec.NamedResponse{Name: "SharedProblemAlias", Alias: "SharedProblem"},
		aspec.NamedResponse{Name: "SharedDefault", R: &aspec.Response{Desc: "default", Headers: []aspec.Header{{Name: "X-Codes", Req: true, Schema: aspec.Schema{K: "array", Items: &i64}}}, Body: aspec.Body{K: "json", Schema: &aspec.Schema{K: "ref", To: "Thing"}, Alt: []string{"text/plain"}}}},
	)
}

// resolveBody follows a reference to components.requestBodies.
func resolveBody(a *aspec.ASpec, b aspec.Body) aspec.Body {
	if b.K == "ref" {
		for _, rb := range a.RequestBodies {
			if rb.Name == b.To {
				return rb.Body
			}
		}
	}
	return b
}

// bodyVia names how the request body is declared (selector of a known finding).
func bodyVia(a *aspec.ASpec, b aspec.Body) string {
	if b.K != "ref" {
		return b.K
	}
	rb := resolveBody(a, b)
	if rb.K == "json" && rb.Schema != nil && rb.Schema.K == "object" {
		return "componentInlineObject"
	}
	return "component"
}

var rawMedia = []string{"application/octet-stream", "application/problem+json", "text/plain", "application/json; charset=utf-8", "application/merge-patch+json"}

func randSchemaBody(rng *rand.Rand) aspec.Body {
	str := aspec.Schema{K: "string"}
	switch rng.Intn(8) {
	case 7:
		return aspec.Body{K: "json", Schema: &aspec.Schema{K: "ref", To: "Roster"}}
	case 0:
		return aspec.Body{K: "none"}
	case 1:
		return aspec.Body{K: "json", Schema: &aspec.Schema{K: "ref", To: "Thing"}}
	case 2:
		return aspec.Body{K: "json", Schema: &aspec.Schema{K: "ref", To: "Bag"}}
	case 3:
		return aspec.Body{K: "json", Schema: &aspec.Schema{K: "ref", To: "Things"}}
	case 4:
		return aspec.Body{K: "json", Schema: &aspec.Schema{K: "array", Items: &str}}
	case 5:
		o := objSchema(aspec.Prop{Name: "ok", Schema: aspec.Schema{K: "bool"}, Req: true}, aspec.Prop{Name: "ref", Schema: aspec.Schema{K: "ref", To: "Thing"}})
		return aspec.Body{K: "json", Schema: &o}
	}
	// raw bodies: the documented media type is what goes on the wire, whatever it looks like
	return aspec.Body{K: "raw", Media: rawMedia[rng.Intn(len(rawMedia))]}
}

func randHeaders(a *aspec.ASpec, rng *rand.Rand) (out []aspec.Header) {
	defer func() {
		// now and then a header that is a $ref to components.headers; the key of a header component and the name a
		// response gives the header are unrelated (wirePool: the component "Location" is not what "Location" refers to)
		has := false
		for _, nh := range a.Headers {
			has = has || nh.Name == "LocationHint"
		}
		if !has || rng.Intn(4) != 0 {
			return
		}
		if rng.Intn(3) == 0 {
			// a list header whose schema reaches the array through a chain of aliases
			dup := false
			for _, h := range out {
				dup = dup || http.CanonicalHeaderKey(h.Name) == "X-Ids"
			}
			if !dup {
				out = append(out, aspec.Header{Name: "X-Ids", Req: rng.Intn(2) == 0, Schema: aspec.Schema{K: "ref", To: []string{"AaIdsTwice", "ZzIdsOnce", "ArrInt64"}[rng.Intn(3)]}})
			}
			return
		}
		add := []aspec.Header{{Name: "Location", Ref: "LocationHint"}, {Name: "X-Loc", Ref: "Location"}, {Name: "Age", Ref: "AgeSeconds"}, {Name: "X-Since", Ref: "Age"}}[rng.Intn(4)]
		for _, h := range out {
			if http.CanonicalHeaderKey(h.Name) == http.CanonicalHeaderKey(add.Name) {
				return
			}
		}
		out = append(out, add)
	}()
	names := []string{"X-Next", "x-count", "X-When", "X-Flag", "X-List"}
	rng.Shuffle(len(names), func(i, j int) { names[i], names[j] = names[j], names[i] })
	for _, n := range names[:rng.Intn(3)] {
		typ := []string{"string", "int32", "int64", "bool", "double", "datetime"}[rng.Intn(6)]
		s := aspec.Schema{K: typ}
		if rng.Intn(5) == 0 {
			s = aspec.Schema{K: "array", Items: &aspec.Schema{K: []string{"string", "int64"}[rng.Intn(2)]}}
		}
		out = append(out, aspec.Header{Name: n, Req: rng.Intn(2) == 0, Schema: s})
	}
	// now and then a header with a well-known name, typed as the spec author declares it (they are ordinary headers
	// to the generator: no name-specific treatment)
	if rng.Intn(3) == 0 {
		std := []aspec.Header{{Name: "Last-Modified", Schema: aspec.Schema{K: "datetime"}}, {Name: "Expires", Schema: aspec.Schema{K: "datetime"}}, {Name: "date", Schema: aspec.Schema{K: "datetime"}},
			{Name: "ETag", Schema: aspec.Schema{K: "string"}}, {Name: "Location", Schema: aspec.Schema{K: "string"}}, {Name: "Retry-After", Schema: aspec.Schema{K: "int32"}},
			{Name: "Content-Language", Schema: aspec.Schema{K: "string"}}, {Name: "Age", Schema: aspec.Schema{K: "int64"}}, {Name: "Link", Schema: aspec.Schema{K: "array", Items: &aspec.Schema{K: "string"}}}}
		h := std[rng.Intn(len(std))]
		h.Req = rng.Intn(2) == 0
		out = append(out, h)
	}
	return out
}

// scalarSchema: a third of the scalar parameter schemas are a $ref to a component schema of that type
func scalarSchema(typ string, rng *rand.Rand) aspec.Schema {
	if rng.Intn(3) == 0 {
		return aspec.Schema{K: "ref", To: "Ref" + strings.Title(typ)}
	}
	return aspec.Schema{K: typ}
}

// randWireOp builds one operation with seeded parameters, body and responses (component responses are added to a).
func randWireOp(a *aspec.ASpec, k int, rng *rand.Rand) wireOp {
	t := []aspec.Seg{{K: "lit", S: fmt.Sprintf("w%d", k)}}
	var ds []decl
	var params []aspec.Param
	nPath := rng.Intn(3)
	for i := 0; i < nPath; i++ {
		if i == 1 && rng.Intn(2) == 0 {
			t = append(t, aspec.Seg{K: "lit", S: "sub"})
		}
		name := fmt.Sprintf("p%d", i+1)
		typ := wireTypes[rng.Intn(len(wireTypes))]
		t = append(t, aspec.Seg{K: "var", S: name})
		params = append(params, aspec.Param{In: "path", Name: name, Req: true, Schema: scalarSchema(typ, rng)})
		ds = append(ds, decl{In: "path", Name: name, Type: typ, Req: true})
	}
	if rng.Intn(4) == 0 {
		t = append(t, aspec.Seg{K: "lit", S: ""})
	}
	qnames := []string{"page", "page-size", "filter", "ids", "since", "ratio"}
	rng.Shuffle(len(qnames), func(i, j int) { qnames[i], qnames[j] = qnames[j], qnames[i] })
	for _, n := range qnames[:rng.Intn(4)] {
		typ := wireTypes[rng.Intn(len(wireTypes))]
		arr := rng.Intn(3) == 0
		req := rng.Intn(2) == 0
		s := scalarSchema(typ, rng)
		if arr {
			it := scalarSchema(typ, rng)
			s = aspec.Schema{K: "array", Items: &it}
		}
		// parameter attributes that do not change what must arrive (defaults spelled out, allowReserved - which only
		// permits reserved characters to travel unencoded -, deprecated, allowEmptyValue), rotating over the operations
		attrs := []map[string]any{nil, {"allowReserved": true}, {"style": "form", "explode": true}, nil, {"deprecated": true}, {"allowReserved": true, "explode": true}, {"allowEmptyValue": true}}[(k+len(params))%7]
		if !arr && !req && s.K != "ref" && (k+len(params))%2 == 0 {
			// a `default` annotation naming a value the pools draw often: a default describes what the server assumes
			// for an absent parameter - it is no reason for a client to leave out a value the caller set
			def := map[string]any{"string": "abc", "int": 42, "int32": 42, "int64": 0, "double": 1.5, "float": 1.5, "bool": true}[typ]
			if def != nil {
				s.Attrs = map[string]any{"default": def}
			}
		}
		joined := false
		if arr {
			// an array parameter whose whole schema is a $ref to an array component, in turn; and `explode: false` (the
			// comma-joined form; the generator may send either form as long as the server reads what the client writes:
			// the judge takes both spellings of such a parameter for the same list of lexemes)
			if (k+len(params))%3 == 1 && typ != "datetime" {
				s = aspec.Schema{K: "ref", To: "Arr" + strings.Title(typ)}
			}
			if (k+len(params))%2 == 1 {
				attrs = map[string]any{"explode": false}
				if (k+len(params))%4 == 3 {
					attrs["style"] = "form"
				}
				joined = true
			}
		}
		params = append(params, aspec.Param{In: "query", Name: n, Req: req, Schema: s, Attrs: attrs})
		ds = append(ds, decl{In: "query", Name: n, Type: typ, Array: arr, Req: req, Joined: joined})
	}
	if k%8 == 7 {
		// every eighth operation has a plain list-of-strings query parameter whatever the draws above gave
		str := aspec.Schema{K: "string"}
		params = append(params, aspec.Param{In: "query", Name: "tags", Req: k%16 == 7, Schema: aspec.Schema{K: "array", Items: &str}})
		ds = append(ds, decl{In: "query", Name: "tags", Type: "string", Array: true, Req: k%16 == 7})
	}
	hnames := []string{"X-Request-Id", "x-trace", "If-Version"}
	rng.Shuffle(len(hnames), func(i, j int) { hnames[i], hnames[j] = hnames[j], hnames[i] })
	for _, n := range hnames[:rng.Intn(3)] {
		typ := wireTypes[rng.Intn(len(wireTypes))]
		req := rng.Intn(2) == 0
		hattrs := []map[string]any{nil, {"style": "simple"}, nil, {"style": "simple", "explode": false}, {"deprecated": true}}[(k+len(params))%5]
		params = append(params, aspec.Param{In: "header", Name: n, Req: req, Schema: scalarSchema(typ, rng), Attrs: hattrs})
		ds = append(ds, decl{In: "header", Name: n, Type: typ, Req: req})
	}
	// methods and the ways of declaring a request body are stratified over the operation index, so that every
	// 24 consecutive operations hold each of them (a seeded sample alone can leave one out)
	rng.Intn(5)
	method := []string{"GET", "POST", "PUT", "DELETE", "PATCH"}[k%5]
	op := simpleOp(method, t)
	op.Params = params
	if method != "GET" && method != "DELETE" {
		op.Body = randSchemaBody(rng)
		if k%5 == 4 && !a.NoComposite {
			op.Body = randCompositeBody(a, rand.New(rand.NewSource(int64(k)*7919+rng.Int63n(1000))))
		}
		rng.Intn(4)
		if k%5 == 2 && (k/5)%2 == 0 {
			// every tenth operation takes a raw body, cycling through the media types (among them JSON-looking ones)
			op.Body = aspec.Body{K: "raw", Media: rawMedia[(k/10)%len(rawMedia)]}
		}
		if k%4 == 1 {
			op.Body = aspec.Body{K: "ref", To: []string{"PooledBody", "PooledMulti", "PooledInline"}[(k/4)%3]}
		}
		if op.Body.K == "ref" {
			// a reference to components.requestBodies
		} else if op.Body.K == "none" {
			op.Body = aspec.Body{K: "none"}
		} else {
			op.Body.Req = true
		}
	}
	// (the third documented status rotates through the registry: success, redirect-free 4xx / 5xx, codes whose net/http
	// constant names are abbreviated)
	statuses := []string{"200", "201", []string{"404", "202", "203", "400", "407", "409", "418", "422", "500", "503"}[k%10], "default"}
	rng.Shuffle(len(statuses), func(i, j int) { statuses[i], statuses[j] = statuses[j], statuses[i] })
	op.Responses = nil
	for _, st := range statuses[:1+rng.Intn(4)] {
		r := aspec.Response{Desc: "r " + st, Headers: randHeaders(a, rng), Body: randSchemaBody(rng)}
		if k%7 == 5 && r.Body.K == "json" && !a.NoComposite {
			r.Body = randCompositeBody(a, rand.New(rand.NewSource(int64(k)*104729+rng.Int63n(1000))))
		}
		if r.Body.K == "json" && k%3 == 0 {
			// a JSON response that is documented in a second media type as well (application/json is what is written)
			r.Body.Alt = [][]string{{"application/xml"}, {"text/plain"}, {"application/x-yaml", "text/csv"}}[(k/3)%3]
		}
		if rng.Intn(3) == 0 {
			// a shared component; one operation never uses the same component twice
			name := []string{"SharedProblem", "SharedEmpty", "SharedProblemAlias"}[rng.Intn(3)]
			if st == "default" {
				name = "SharedDefault"
			}
			used := false
			for _, x := range op.Responses {
				if x.Ref == name || strings.TrimSuffix(x.Ref, "Alias") == strings.TrimSuffix(name, "Alias") {
					used = true
				}
			}
			if !used {
				op.Responses = append(op.Responses, aspec.RespRef{Status: st, Ref: name})
				continue
			}
		}
		switch rng.Intn(4) {
		case 0:
			name := fmt.Sprintf("R%dx%s", k, strings.Title(st))
			a.Responses = append(a.Responses, aspec.NamedResponse{Name: name, R: &r})
			op.Responses = append(op.Responses, aspec.RespRef{Status: st, Ref: name})
		case 1:
			name := fmt.Sprintf("R%dy%s", k, strings.Title(st))
			a.Responses = append(a.Responses, aspec.NamedResponse{Name: name, R: &r}, aspec.NamedResponse{Name: name + "Alias", Alias: name})
			op.Responses = append(op.Responses, aspec.RespRef{Status: st, Ref: name + "Alias"})
		default:
			rr := r
			op.Responses = append(op.Responses, aspec.RespRef{Status: st, R: &rr})
		}
	}
	sort.Slice(op.Responses, func(i, j int) bool { return op.Responses[i].Status < op.Responses[j].Status })
	return wireOp{tmpl: t, op: op, decls: ds}
}

func wireCarrier(id string, base aspec.Base) *aspec.ASpec {
	a := &aspec.ASpec{Base: base, SpecName: "openapi.yaml", Flags: aspec.Flags{APIHandler: true, Client: true, DoNotEdit: true}, Security: aspec.Sec{K: "none"}, Title: id}
	wirePool(a)
	codecPool(a) // the components the random schema compositions refer to (randschema.go)
	return a
}

// randCompositeBody: every fifth operation gets a seeded random schema composition as its JSON body (the codec
// checks take the same generator apart; here it travels through client, wire and server).
func randCompositeBody(a *aspec.ASpec, rng *rand.Rand) aspec.Body {
	for tries := 0; tries < 50; tries++ {
		s := randSchema(rng, 1)
		// (values of wire operations are filled at random: a discriminated oneOf needs a declared discriminator value,
		// the codec checks build those from documents)
		bs, _ := json.Marshal(s)
		if strings.Contains(string(bs), `"discProp"`) {
			continue
		}
		// (a nil slice inside a nested inline array or as a map value is written as null: the open findings
		// c07-nested-array-nil-null / c07-addl-array-nil-null, recorded by the codec checks; not repeated per wire property)
		if strings.Contains(string(bs), `"items":{"k":"array"`) || strings.Contains(string(bs), `"addl":{"k":"array"`) {
			continue
		}
		if s.K == "object" || s.K == "array" || s.K == "allOf" {
			addNullPools(a, s)
			return aspec.Body{K: "json", Schema: &s}
		}
	}
	return aspec.Body{K: "json", Schema: &aspec.Schema{K: "ref", To: "Thing"}}
}

// resolved response description for the judge
func respCfg(a *aspec.ASpec, rr aspec.RespRef) map[string]any {
	var r *aspec.Response
	if rr.Ref != "" {
		name := rr.Ref
		for hops := 0; hops < 5 && r == nil; hops++ {
			for _, nr := range a.Responses {
				if nr.Name == name {
					if nr.Alias != "" {
						name = nr.Alias
					} else {
						r = nr.R
					}
					break
				}
			}
		}
	} else {
		r = rr.R
	}
	if r == nil {
		r = &aspec.Response{Body: aspec.Body{K: "none"}}
	}
	hdrs := []any{}
	for _, h := range r.Headers {
		hs := h.Schema
		if h.Ref != "" {
			for _, nh := range a.Headers {
				if nh.Name == h.Ref {
					hs = nh.Header.Schema
					h.Req = nh.Header.Req // a $ref has no siblings: the component decides
				}
			}
		}
		hs = a.ResolveDeep(hs, 0)
		typ, arr := hs.K, false
		if hs.K == "array" && hs.Items != nil {
			typ, arr = hs.Items.K, true
		}
		hdrs = append(hdrs, map[string]any{"canon": http.CanonicalHeaderKey(h.Name), "req": h.Req, "nn": driver.Norm(h.Name), "array": arr, "type": typ})
	}
	ctype := ""
	body := map[string]any{"k": r.Body.K, "s": map[string]any{"k": "any", "nullable": false}}
	switch r.Body.K {
	case "json":
		ctype = "application/json"
		body["s"] = tlaSchema(a, *r.Body.Schema, 0)
	case "raw":
		ctype = r.Body.Media
	}
	return map[string]any{"status": rr.Status, "ctype": ctype, "hdrs": hdrs, "body": body}
}

func fieldOf(v driver.AVal, n string) (driver.AVal, bool) {
	for _, f := range v.F {
		if f.N == n {
			return f.V, true
		}
	}
	return driver.AVal{}, false
}

func checkWire(c *core.Check, which string) {
	c.Assumptions = []string{
		"domain of DESIGN §4 C09 / §11: path values non-empty and '/'-free ('.' and '..' included since wave 11); arrays non-empty; header values visible ASCII with inner spaces; times compared as instants; floats finite",
		"the client under test is NewClient(origin + normalised base path, HTTPClient); the HTTPClient hands the request to API.ServeHTTP in-process (a fresh server-side copy of line, headers and body)",
		"status codes for default responses are in 200..499; response identity is the Go type returned (server and client share the generated types)",
	}
	// how bodies arrive on either side: every behaviour of Stream.tla's source, in turn (C09 owns the design check)
	plans := streamPlans(c, which == "c09")
	if plans == nil {
		return
	}
	thorough := c.Tier == "thorough"
	r, err := core.RunTLC(core.TLCOpts{Module: "MC_Wire", Workers: 2, Timeout: 5 * time.Minute})
	if err != nil || r.Error != "" || r.InvViolated != "" {
		c.HarnessError(fmt.Sprintf("MC_Wire: %v %s %s", err, r.Error, r.InvViolated))
		return
	}
	c.AddTLC(r)
	pr, err := core.RunTLC(core.TLCOpts{Module: "MC_Params", Cfg: "MC_Params.cfg", Workers: 16, Timeout: 10 * time.Minute, Heap: "8g"})
	if err == nil && pr.Error == "" && pr.InvViolated == "" {
		c.AddTLC(pr)
	}
	if which == "c09" {
		if !clientWalk(c) {
			return
		}
	}
	rng := rand.New(rand.NewSource(c.Seed))
	nOps, perPkg, nSeeds := 120, 20, 5
	if thorough {
		nOps, nSeeds = 3000, 20
	}
	// pre-flight every operation on its own
	type cand struct {
		seed int64
	}
	var cands []cand
	var pre []core.GenJob
	for k := 0; k < nOps; k++ {
		sd := rng.Int63()
		cands = append(cands, cand{sd})
		a := wireCarrier(fmt.Sprintf("pre%d", k), aspec.Base{Form: "none"})
		w := randWireOp(a, k, rand.New(rand.NewSource(sd)))
		a.Paths = []aspec.PathItem{{Template: w.tmpl, Ops: []aspec.Op{w.op}}}
		j := a.Job(fmt.Sprintf("pre%d", k))
		j.Package, j.Check = "gen", true
		pre = append(pre, j)
	}
	pres := core.RunGenJobs(pre, 0)
	var good []int
	refused := 0
	for i, r := range pres {
		if strings.HasPrefix(r.Err, "HARNESS") {
			c.HarnessError("pre-flight: " + r.Err)
			return
		}
		if r.Builds() {
			good = append(good, i)
		} else if !r.OK {
			refused++
		}
	}
	c.Cov["operations"] = nOps
	c.Cov["operations_refused_by_generator"] = refused
	c.Cov["operations_excluded_not_building"] = nOps - len(good) - refused
	if len(good) < 5 {
		c.HarnessError("too few operations build")
		return
	}
	bases := baseForms()
	var jobs []core.GenJob
	var groups []driver.Group
	specOf := map[string]*aspec.ASpec{}
	type opMeta struct {
		w    wireOp
		pkg  string
		base []string
	}
	metaOf := map[string]opMeta{} // case id -> op
	cfgOf := map[string]map[string]any{}
	caseN := 0
	packOps := map[string][]int{}
	packBase := map[string]aspec.Base{}
	// packs of hand-made operations in dialect forms the generator may refuse as a whole (then they are left out)
	extraOps := map[string]func(a *aspec.ASpec) []wireOp{
		// a component response used for `default` by one operation and, through an alias, under a fixed status by
		// another (refused today: "multiple usages"; if accepted, the documented 404 must be written as 404)
		"dxaliasmix": func(a *aspec.ASpec) []wireOp {
			str := aspec.Schema{K: "string"}
			a.Responses = append(a.Responses, aspec.NamedResponse{Name: "Failure", R: &aspec.Response{Desc: "failure", Body: aspec.Body{K: "json", Schema: &aspec.Schema{K: "ref", To: "Thing"}}}},
				aspec.NamedResponse{Name: "NotFoundAlias", Alias: "Failure"})
			ok := aspec.RespRef{Status: "200", R: &aspec.Response{Desc: "ok", Body: aspec.Body{K: "json", Schema: &str}}}
			t1 := []aspec.Seg{{K: "lit", S: "am1"}}
			o1 := simpleOp("GET", t1)
			o1.Responses = []aspec.RespRef{ok, {Status: "default", Ref: "Failure"}}
			t2 := []aspec.Seg{{K: "lit", S: "am2"}, {K: "var", S: "p1"}}
			o2 := simpleOp("GET", t2)
			o2.Responses = []aspec.RespRef{ok, {Status: "404", Ref: "NotFoundAlias"}}
			return []wireOp{{tmpl: t1, op: o1}, {tmpl: t2, op: o2, decls: []decl{{In: "path", Name: "p1", Type: "string", Req: true}}}}
		},
	}
	addPack := func(id string, idxs []int, base aspec.Base) {
		packOps[id], packBase[id] = idxs, base
		a := wireCarrier(id, base)
		g := driver.Group{Pkg: id, Kind: "wire", API: driver.APIConfig{Mw: 1, NotFound: true}, Base: base.NF()}
		var ops []any
		bsegs := append([]string{}, base.Segs...)
		if base.Form == "none" {
			bsegs = []string{}
		}
		var ws []wireOp
		for _, k := range idxs {
			w := randWireOp(a, k, rand.New(rand.NewSource(cands[k].seed)))
			a.Paths = append(a.Paths, withSibling(w, k))
			ws = append(ws, w)
		}
		if f := extraOps[id]; f != nil {
			for _, w := range f(a) {
				a.Paths = append(a.Paths, aspec.PathItem{Template: w.tmpl, Ops: []aspec.Op{w.op}})
				ws = append(ws, w)
			}
		}
		for _, w := range ws {
			opID := w.op.Method + " " + aspec.TemplateString(w.tmpl)
			var resps []any
			hasDefault := false
			var documented []string
			for _, rr := range w.op.Responses {
				resps = append(resps, respCfg(a, rr))
				documented = append(documented, rr.Status)
				if rr.Status == "default" {
					hasDefault = true
				}
			}
			rb := resolveBody(a, w.op.Body)
			body := map[string]any{"k": rb.K, "s": map[string]any{"k": "any", "nullable": false}}
			if rb.K == "json" {
				body["s"] = tlaSchema(a, *rb.Schema, 0)
			}
			dd := w.decls
			if dd == nil {
				dd = []decl{}
			}
			ops = append(ops, map[string]any{"id": opID, "m": w.op.Method, "t": w.tmpl, "decls": dd, "body": body, "bodyVia": bodyVia(a, w.op.Body), "resps": resps, "hasDefault": hasDefault})
			nCalls := nSeeds
			if strings.HasPrefix(id, "dx") {
				nCalls = 24 // (few hand-made operations: enough calls for every response of each to be returned)
			}
			for s := 0; s < nCalls; s++ {
				caseN++
				cid := fmt.Sprintf("c%d", caseN)
				g.Wire = append(g.Wire, driver.WireCase{ID: cid, Op: opID, Seed: rng.Int63(), RespSeed: rng.Int63n(1 << 40), Reads: plans[caseN%len(plans)]})
				metaOf[cid] = opMeta{w: w, pkg: id, base: bsegs}
				if s == 1 {
					// a call whose response cannot be written (the client went away) in between: it is not judged itself,
					// what the calls after it put on the wire is
					caseN++
					g.Wire = append(g.Wire, driver.WireCase{ID: fmt.Sprintf("fw%d", caseN), Op: opID, Seed: rng.Int63(), RespSeed: rng.Int63n(1 << 40), FailWrite: true})
				}
			}
			for _, st := range []int{200, 201, 202, 302, 404, 418, 500} {
				doc := false
				for _, d := range documented {
					if d == strconv.Itoa(st) {
						doc = true
					}
				}
				if doc {
					continue
				}
				caseN++
				cid := fmt.Sprintf("c%d", caseN)
				if hasDefault {
					// an undocumented status reaches the client through a real default response carrying that code
					g.Wire = append(g.Wire, driver.WireCase{ID: cid, Op: opID, Seed: rng.Int63(), RespSeed: rng.Int63n(1 << 40), DefaultCode: st})
				} else {
					g.Wire = append(g.Wire, driver.WireCase{ID: cid, Op: opID, Seed: rng.Int63(), InjectStatus: st})
				}
				metaOf[cid] = opMeta{w: w, pkg: id, base: bsegs}
			}
		}
		cfgOf[id] = map[string]any{"ev": "Config", "base": bsegs, "ops": ops}
		specOf[id] = a
		jobs = append(jobs, a.Job(id))
		groups = append(groups, g)
		// the same package through the pairing it offers itself: API.LocalClient() (every third call again; there is
		// no recording transport in between, so only Call / Parse / Respond / Return are observed)
		gl := g
		gl.Local, gl.Wire = true, nil
		for i, wc := range g.Wire {
			if i%3 != 0 || wc.InjectStatus != 0 { // (injecting a status needs the recording transport)
				continue
			}
			caseN++
			lc := wc
			lc.ID = fmt.Sprintf("l%d", caseN)
			gl.Wire = append(gl.Wire, lc)
			metaOf[lc.ID] = metaOf[wc.ID]
		}
		groups = append(groups, gl)
	}
	for start := 0; start < len(good); start += perPkg {
		end := start + perPkg
		if end > len(good) {
			end = len(good)
		}
		addPack(fmt.Sprintf("wr%d", start/perPkg), good[start:end], bases[(start/perPkg)%len(bases)])
	}
	for id := range extraOps {
		addPack(id, nil, aspec.Base{Form: "none"})
	}
	sc, err := core.BuildScratch(jobs, false)
	if err != nil {
		c.HarnessError(err.Error())
		return
	}
	defer sc.Close()
	var kept []driver.Group
	var failedPacks []string
	dxRefused := map[string]string{} // packs in dialect forms the generator refuses today, and what it said
	defer func() { c.Cov["dialect_packs_refused"] = dxRefused }()
	for _, g := range groups {
		if _, ex := sc.Excluded[g.Pkg]; ex {
			dup := false // (a package has two groups: through NewClient and through LocalClient)
			for _, fp := range failedPacks {
				if fp == g.Pkg {
					dup = true
				}
			}
			if !dup && !strings.HasPrefix(g.Pkg, "dx") {
				failedPacks = append(failedPacks, g.Pkg)
			}
			if strings.HasPrefix(g.Pkg, "dx") {
				ex := sc.Excluded[g.Pkg]
				dxRefused[g.Pkg] = trunc(ex.Err+" "+strings.Join(ex.TypeErr, "; "), 300)
			}
			continue
		}
		kept = append(kept, g)
	}
	var evs []json.RawMessage
	if len(kept) > 0 {
		evs, _, err = sc.Run(kept, 20*time.Minute)
		if err != nil {
			c.HarnessError(err.Error())
			return
		}
	}
	// A pack of individually building operations that does not build as a whole (an interaction between
	// operations; C01's random compositions report that) is split into packs of three so that the
	// operations are still exercised together with some of their neighbours.
	if len(failedPacks) > 0 {
		sort.Strings(failedPacks)
		c.Cov["packs_not_building_split"] = failedPacks
		jobs, groups = nil, nil
		for _, fp := range failedPacks {
			c.Note("package %s does not build although every operation passed pre-flight (%s); split into smaller packs", fp, trunc(strings.Join(sc.Excluded[fp].TypeErr, "; "), 200))
			idxs := packOps[fp]
			for k := 0; k < len(idxs); k += 3 {
				e := k + 3
				if e > len(idxs) {
					e = len(idxs)
				}
				addPack(fmt.Sprintf("%ss%d", fp, k/3), idxs[k:e], packBase[fp])
			}
		}
		sc2, err := core.BuildScratch(jobs, false)
		if err != nil {
			c.HarnessError(err.Error())
			return
		}
		defer sc2.Close()
		var kept2 []driver.Group
		for _, g := range groups {
			if _, ex := sc2.Excluded[g.Pkg]; !ex {
				kept2 = append(kept2, g)
			}
		}
		if len(kept2) > 0 {
			evs2, _, err := sc2.Run(kept2, 20*time.Minute)
			if err != nil {
				c.HarnessError(err.Error())
				return
			}
			// group indexes of the second run continue after the first
			for _, raw := range evs2 {
				var e map[string]any
				json.Unmarshal(raw, &e)
				if e["ev"] == "Group" {
					e["group"] = e["group"].(float64) + float64(len(kept))
					raw, _ = json.Marshal(e)
				}
				evs = append(evs, raw)
			}
			kept = append(kept, kept2...)
		}
	}
	if len(kept) == 0 {
		c.HarnessError("no wire package builds")
		return
	}
	var events [][]byte
	add := func(v any) {
		bs, _ := json.Marshal(v)
		events = append(events, bs)
	}
	info := map[string][]string{}
	lastRespond := map[string]driver.AVal{}
	nCalls := 0
	distinctCalls := map[string]bool{}
	for _, raw := range evs {
		var e map[string]any
		json.Unmarshal(raw, &e)
		cid, _ := e["case"].(string)
		if strings.HasPrefix(cid, "fw") {
			continue
		}
		if cid != "" && len(info[cid]) < 12 {
			info[cid] = append(info[cid], trunc(string(raw), 700))
		}
		m := metaOf[cid]
		av := func(key string) driver.AVal {
			var a driver.AVal
			bs, _ := json.Marshal(e[key])
			json.Unmarshal(bs, &a)
			return a
		}
		switch e["ev"] {
		case "DriverError":
			c.HarnessError(fmt.Sprintf("driver: %v", e["err"]))
			return
		case "Group":
			add(cfgOf[kept[int(e["group"].(float64))].Pkg])
		case "Call":
			nCalls++
			sent := av("sent")
			add(map[string]any{"ev": "Call", "case": cid, "op": e["op"], "sent": tlaVal(sent), "inject": e["inject"]})
			// non-trivial: the request carries at least one parameter group or a body; distinct by (operation, value sent, injected status)
			if len(sent.F) > 0 {
				bs, _ := json.Marshal(sent)
				distinctCalls[fmt.Sprintf("%v|%v|%s", e["op"], e["inject"], bs)] = true
			}
		case "Wire":
			add(wireEvent(e, m.w, m.base))
		case "Parse":
			ok, _ := e["ok"].(bool)
			pv := map[string]any{"t": "leaf", "s": "-"}
			if ok {
				pv = tlaVal(av("params"))
			}
			add(map[string]any{"ev": "Parse", "ok": ok, "params": pv})
		case "Respond":
			v := av("value")
			lastRespond[cid] = v
			add(map[string]any{"ev": "Respond", "type": e["type"], "value": tlaVal(v)})
		case "ServerDone":
			st := int(e["status"].(float64))
			rv := lastRespond[cid]
			codeV, isDef := fieldOf(rv, "code")
			code := 0
			if isDef {
				code, _ = strconv.Atoi(strings.TrimPrefix(codeV.S, "i:"))
			}
			hdr, _ := e["hdr"].(map[string]any)
			names := []string{}
			for k := range hdr {
				names = append(names, http.CanonicalHeaderKey(k))
			}
			sort.Strings(names)
			hdrVals := []any{}
			for _, n := range names {
				vals := []any{}
				for k, vs := range hdr {
					if http.CanonicalHeaderKey(k) == n {
						for _, x := range vs.([]any) {
							vals = append(vals, denotations(x.(string)))
						}
					}
				}
				hdrVals = append(hdrVals, map[string]any{"canon": n, "vals": vals})
			}
			ctype := ""
			if v, ok := hdr["Content-Type"].([]any); ok && len(v) > 0 {
				ctype, _ = v[0].(string)
			}
			b, _ := e["body"].(string)
			bs, _ := base64.StdEncoding.DecodeString(b)
			add(map[string]any{"ev": "ServerDone", "status": st, "statusText": strconv.Itoa(st), "writes": e["writes"], "isDefault": isDef, "code": code,
				"ctype": ctype, "hdrNames": names, "hdrVals": hdrVals, "body": core.ParseJ(bs), "bodyEmpty": len(bs) == 0})
		case "ServerPanic":
			add(map[string]any{"ev": "ServerPanic"})
		case "Return":
			ok, _ := e["ok"].(bool)
			p, _ := e["panic"].(string)
			out := map[string]any{"ev": "Return", "ok": ok, "panic": trunc(p, 200), "type": "", "value": map[string]any{"t": "leaf", "s": "-"}, "isDefault": false, "code": 0, "injectText": ""}
			if ok {
				v := av("value")
				out["type"] = e["type"]
				out["value"] = tlaVal(v)
				if cv, has := fieldOf(v, "code"); has {
					out["isDefault"] = true
					n, _ := strconv.Atoi(strings.TrimPrefix(cv.S, "i:"))
					out["code"] = n
				}
			}
			for _, wcase := range kept {
				_ = wcase
			}
			out["injectText"] = injectTextOf(info[cid])
			add(out)
		}
	}
	if p := os.Getenv("VERIF_DUMP"); p != "" {
		var buf strings.Builder
		for _, e := range events {
			buf.Write(e)
			buf.WriteByte('\n')
		}
		os.WriteFile(p, []byte(buf.String()), 0o644)
	}
	jr, err := core.Judge("Trace_Wire", events, nil)
	if err != nil {
		c.HarnessError(err.Error())
		return
	}
	c.AddTLC(jr.TLC)
	c.Add("traces_validated_against_impl", int64(nCalls))
	c.Add("evaluations", int64(nCalls))
	c.Add("programs", int64(len(sc.Pkgs)))
	if len(distinctCalls) < jr.Nontriv {
		c.Add("distinct_nontrivial", int64(len(distinctCalls)))
	} else {
		c.Add("distinct_nontrivial", int64(jr.Nontriv))
	}
	mine, other := 0, 0
	byEvent := map[string]int{}
	atOf := map[string][]string{"c09": {"Wire", "Parse"}, "c10": {"Return", "ServerPanic"}, "c02": {"ServerDone", "Respond"}}
	for _, rj := range jr.Rejects {
		var why struct {
			At string `json:"at"`
		}
		json.Unmarshal([]byte(rj.Why), &why)
		byEvent[why.At+"/"+rj.KF]++
		isMine := false
		for _, a := range atOf[which] {
			if a == why.At {
				isMine = true
			}
		}
		if !isMine {
			other++
			continue
		}
		mine++
		if rj.KF != "" && c.Known(rj.KF) {
			continue
		}
		m := metaOf[rj.Case]
		c.Violation(map[string]any{"operation": m.w.op, "template": aspec.TemplateString(m.w.tmpl), "events": info[rj.Case], "reject": rj, "package": m.pkg},
			fmt.Sprintf("client/server (%s): operation %s %s: %s", which, m.w.op.Method, aspec.TemplateString(m.w.tmpl), trunc(strings.Join(info[rj.Case], " | "), 900)))
	}
	c.Cov["rejected_for_other_wire_properties"] = other
	c.Cov["rejected_events_by_kind_and_finding"] = byEvent
	c.Cov["exhaustive"] = false
	c.Cov["rule"] = "seeded operations (0-2 typed path parameters, 0-3 query parameters incl. arrays, 0-2 header parameters, JSON / raw / no body, 1-4 responses from {200,201,404,default} inline / component / alias with typed required and optional headers and JSON / raw / no body) are pre-flighted and packed with the client on under rotating base-path forms; each operation is called through the generated Client with seeded boundary values (domain of §11), the injected HTTPClient records the wire request and serves it through API.ServeHTTP, the handler parses and answers with a seeded value of a seeded documented response type; undocumented statuses are injected; TLC (Trace_Wire) judges wire validity and parsed = sent (C09), the write as documented (C02), returned = produced and the default/error rule (C10); non-trivial = completed calls that carry at least one parameter group or a body, distinct by (operation, value sent, injected status)"
	c.Cov["bounds"] = map[string]any{"operations": nOps, "values_per_operation": nSeeds, "injected_statuses": []int{200, 201, 202, 302, 404, 418, 500}}
	for cid, ev := range info {
		if len(ev) > 4 {
			c.Sample(map[string]any{"case": cid, "events": ev})
			break
		}
	}
	if which == "c02" {
		checkC02Static(c, sc, specOf, kept)
	}
}

func injectTextOf(evs []string) string {
	for _, e := range evs {
		if strings.Contains(e, `"ev":"Call"`) {
			var m map[string]any
			if json.Unmarshal([]byte(e), &m) == nil {
				if n, ok := m["inject"].(float64); ok {
					return strconv.Itoa(int(n))
				}
			}
		}
	}
	return "0"
}

// wireEvent abstracts the request the HTTP client was given.
func wireEvent(e map[string]any, w wireOp, base []string) map[string]any {
	esc, _ := e["escapedPath"].(string)
	kind := "other"
	segs := []string{}
	if strings.HasPrefix(esc, "/") {
		kind = "abs"
		for _, s := range strings.Split(esc[1:], "/") {
			u, err := url.PathUnescape(s)
			if err != nil {
				u = s
			}
			segs = append(segs, u)
		}
	}
	rq, _ := e["rawQuery"].(string)
	q, _ := url.ParseQuery(rq)
	hdr, _ := e["hdr"].(map[string]any)
	sup := []supEntry{}
	declared := map[string]bool{}
	vi := 0
	for _, d := range w.decls {
		se := supEntry{Key: d.key(), Lex: []supLex{}}
		switch d.In {
		case "query":
			declared[d.Name] = true
			for _, v := range q[d.Name] {
				vs := []string{v}
				if d.Joined {
					vs = strings.Split(v, ",") // explode: false - one pair may carry several items
				}
				for _, x := range vs {
					cls, tok := classify(d.Type, x)
					se.Lex = append(se.Lex, supLex{Cls: cls, Tok: tok})
				}
			}
		case "header":
			for k, vs := range hdr {
				if http.CanonicalHeaderKey(k) == http.CanonicalHeaderKey(d.Name) {
					for _, v := range vs.([]any) {
						cls, tok := classify(d.Type, v.(string))
						se.Lex = append(se.Lex, supLex{Cls: cls, Tok: tok})
					}
				}
			}
		case "path":
			// the segment at the variable's template position beneath the base
			pos := -1
			n := 0
			for i, s := range w.tmpl {
				if s.K == "var" {
					if n == vi {
						pos = i
					}
					n++
				}
			}
			vi++
			if pos >= 0 && len(base)+pos < len(segs) {
				cls, tok := classify(d.Type, segs[len(base)+pos])
				se.Lex = append(se.Lex, supLex{Cls: cls, Tok: tok})
			}
		}
		sup = append(sup, se)
	}
	undeclared := []string{}
	for k := range q {
		if !declared[k] {
			undeclared = append(undeclared, k)
		}
	}
	sort.Strings(undeclared)
	b, _ := e["body"].(string)
	bs, _ := base64.StdEncoding.DecodeString(b)
	body := core.J{"t": "null", "c": "null"}
	if w.op.Body.K == "json" || w.op.Body.K == "ref" {
		body = core.ParseJ(bs)
	}
	return map[string]any{"ev": "Wire", "method": e["method"], "kind": kind, "segs": segs, "sup": sup, "undeclared": undeclared, "body": body, "hasBody": len(bs) > 0}
}

// denotations: what a header value on the wire denotes in each lexical space (strconv / time as the trusted
// definition, the same leaf encoding as driver.Project); "" where the text is outside the space.
func denotations(x string) map[string]any {
	d := map[string]any{"s": "s:" + x, "i": "", "f": "", "g": "", "b": "", "t": ""}
	if n, err := strconv.ParseInt(x, 10, 64); err == nil {
		d["i"] = "i:" + strconv.FormatInt(n, 10)
	}
	if f, err := strconv.ParseFloat(x, 64); err == nil {
		d["f"] = "f:" + strconv.FormatFloat(f, 'g', -1, 64)
	}
	if f, err := strconv.ParseFloat(x, 32); err == nil {
		d["g"] = "g:" + strconv.FormatFloat(f, 'g', -1, 32)
	}
	if x == "true" || x == "false" {
		d["b"] = "b:" + x
	}
	if tm, err := time.Parse(time.RFC3339Nano, x); err == nil {
		d["t"] = fmt.Sprintf("t:%d.%09d", tm.Unix(), tm.Nanosecond())
	}
	return d
}

// withSibling: for every sixth operation that has path parameters, those are declared at path-item level and a second
// operation of the path item - read after the first one - re-declares one of them with a neighbouring type.  The
// first operation (the one that is called) must keep formatting and parsing its value by the path item's declaration.
func withSibling(w wireOp, k int) aspec.PathItem {
	pi := aspec.PathItem{Template: w.tmpl, Ops: []aspec.Op{w.op}}
	if k%3 != 2 {
		return pi
	}
	var pathParams, rest []aspec.Param
	for _, p := range w.op.Params {
		if p.In == "path" && p.Ref == "" {
			pathParams = append(pathParams, p)
		} else {
			rest = append(rest, p)
		}
	}
	if len(pathParams) == 0 {
		return pi
	}
	op := w.op
	op.Params = rest
	pi.Params = pathParams
	// a neighbouring type whose formatter gives another text for the same value (were it used by mistake, the value
	// would arrive changed or be refused): integers <-> floats, double -> float
	neighbour := map[string]string{"double": "float", "float": "int64", "int64": "double", "int32": "double", "int": "double"}
	sib := simpleOp("TRACE", w.tmpl) // (operations are read in the order GET, POST, PATCH, PUT, DELETE, ..., TRACE)
	sib.Params = nil
	changed := false
	for _, p := range pathParams {
		q := p
		kind := p.Schema.K
		if kind == "ref" {
			kind = strings.ToLower(strings.TrimPrefix(p.Schema.To, "Ref")) // RefDouble -> double
		}
		if n := neighbour[kind]; n != "" && !changed {
			q.Schema = aspec.Schema{K: n}
			changed = true
		}
		sib.Params = append(sib.Params, q)
	}
	pi.Ops = []aspec.Op{op, sib}
	return pi
}
