package checks

import (
	"encoding/base64"
	"encoding/json"
	"fmt"
	"math/rand"
	"sort"
	"strings"
	"time"

	"verif/driver"
	"verif/internal/aspec"
	"verif/internal/core"
)

// The reader walk (part of C08): spec/Reader.tla is the step-level model of the generated
// unmarshalJSONInnerBody / oneOf UnmarshalJSON; MC_Reader checks that it refines the Prop layer
// and prints its object universe; every object is generated as a component and documents over
// its keys (status ok / null / bad per key) are decoded by the real code; Trace_Reader requires
// each observation to be what the machine computes.

type rField struct {
	K        string `json:"k"`
	Name     string `json:"name,omitempty"`
	Req      bool   `json:"req"`
	Nullable bool   `json:"nullable"`
	Emb      bool   `json:"emb"`
	Obj      *rObj  `json:"obj,omitempty"`
}
type rObj struct {
	Fields []rField `json:"fields"`
	Addl   string   `json:"addl"`
}

func (o rObj) props() []aspec.Prop {
	var ps []aspec.Prop
	for _, f := range o.Fields {
		if f.K == "prop" {
			ps = append(ps, aspec.Prop{Name: f.Name, Req: f.Req, Schema: aspec.Schema{K: "string", Nullable: f.Nullable}})
		}
	}
	return ps
}

func (o rObj) members() []rField {
	var ms []rField
	for _, f := range o.Fields {
		if f.K == "member" {
			ms = append(ms, f)
		}
	}
	return ms
}

// declared lists the declared properties of the object and all its members.
func (o rObj) declared() []rField {
	var out []rField
	for _, f := range o.Fields {
		if f.K == "prop" {
			out = append(out, f)
		} else if f.Obj != nil {
			out = append(out, f.Obj.declared()...)
		}
	}
	return out
}

// schema renders the object; embedded members become components named <name>M<i>.
func (o rObj) schema(a *aspec.ASpec, name string) aspec.Schema {
	ms := o.members()
	own := aspec.Schema{K: "object", Props: o.props()}
	if o.Addl == "typed" {
		own.AddlK, own.Addl = "schema", &aspec.Schema{K: "string"}
	}
	if len(ms) == 0 {
		return own
	}
	of := []aspec.Schema{}
	if len(own.Props) > 0 {
		of = append(of, own)
	}
	for i, m := range ms {
		ms := m.Obj.schema(a, fmt.Sprintf("%sM%d", name, i))
		if m.Emb {
			cn := fmt.Sprintf("%sM%d", name, i)
			a.Schemas = append(a.Schemas, aspec.NamedSchema{Name: cn, Schema: ms})
			ms = aspec.Schema{K: "ref", To: cn}
		}
		of = append(of, ms)
	}
	return aspec.Schema{K: "allOf", Of: of}
}

func readerDocs(o rObj, rng *rand.Rand, max int) []map[string]string {
	keys := []string{}
	for _, d := range o.declared() {
		keys = append(keys, d.Name)
	}
	keys = append(keys, "x1")
	status := []string{"", "ok", "null", "bad"}
	total := 1
	for range keys {
		total *= 4
	}
	mk := func(n int) map[string]string {
		d := map[string]string{}
		for _, k := range keys {
			if s := status[n%4]; s != "" {
				d[k] = s
			}
			n /= 4
		}
		return d
	}
	var out []map[string]string
	if total <= max {
		for n := 0; n < total; n++ {
			out = append(out, mk(n))
		}
		return out
	}
	seen := map[int]bool{}
	// always: everything ok, everything absent; then a seeded sample
	all := 0
	for i := range keys {
		_ = i
		all = all*4 + 1
	}
	for _, n := range []int{0, all} {
		seen[n] = true
		out = append(out, mk(n))
	}
	for len(out) < max {
		n := rng.Intn(total)
		if !seen[n] {
			seen[n] = true
			out = append(out, mk(n))
		}
	}
	return out
}

func readerDocBytes(d map[string]string) []byte {
	m := map[string]any{}
	for k, s := range d {
		switch s {
		case "ok":
			m[k] = "v-" + k
		case "null":
			m[k] = nil
		case "bad":
			m[k] = 7
		}
	}
	bs, _ := json.Marshal(m)
	return bs
}

// observe reads the decoded value back into the vocabulary of Reader.tla.
func readerObserve(o rObj, v driver.AVal) (values, nulls, zeros, extras, wrong []string) {
	values, nulls, zeros, extras, wrong = []string{}, []string{}, []string{}, []string{}, []string{}
	flat := map[string]driver.AVal{}
	var walk func(x driver.AVal)
	walk = func(x driver.AVal) {
		for _, f := range x.F {
			if f.Emb && f.V.T == "struct" {
				walk(f.V)
				continue
			}
			flat[f.N] = f.V
		}
	}
	walk(v)
	leaf := func(k string, x driver.AVal) {
		switch {
		case x.T == "leaf" && x.S == "s:v-"+k:
			values = append(values, k)
		case x.T == "leaf" && x.S == "s:":
			zeros = append(zeros, k)
		default:
			wrong = append(wrong, k)
		}
	}
	var inner func(k string, x driver.AVal)
	inner = func(k string, x driver.AVal) {
		switch x.T {
		case "maybe":
			if x.Set && x.M != nil {
				inner(k, *x.M)
			}
		case "nullable":
			if x.Set && x.M != nil {
				leaf(k, *x.M)
			} else {
				nulls = append(nulls, k)
			}
		default:
			leaf(k, x)
		}
	}
	for _, d := range o.declared() {
		x, ok := flat[driver.Norm(d.Name)]
		if !ok {
			wrong = append(wrong, d.Name)
			continue
		}
		inner(d.Name, x)
	}
	if ap, ok := flat["additionalproperties"]; ok {
		for _, kv := range ap.KV {
			extras = append(extras, kv.K)
		}
	}
	for _, l := range []*[]string{&values, &nulls, &zeros, &extras, &wrong} {
		sort.Strings(*l)
	}
	return
}

// readerWalk runs the design check and the replay; false on a harness error.
func readerWalk(c *core.Check) bool {
	thorough := c.Tier == "thorough"
	cfg, emit, maxDocs := "MC_Reader.cfg", "MC_Reader_emit.cfg", 48
	if thorough {
		cfg, emit, maxDocs = "MC_Reader_thorough.cfg", "MC_Reader_emit_thorough.cfg", 1024
	}
	r, err := core.RunTLC(core.TLCOpts{Module: "MC_Reader", Cfg: cfg, Workers: 8, Timeout: 20 * time.Minute})
	if err != nil || r.Error != "" {
		c.HarnessError(fmt.Sprintf("MC_Reader: %v %s", err, r.Error))
		return false
	}
	if r.InvViolated != "" {
		c.Note("MODEL: design check MC_Reader reports %s violated (reader machine does not refine the Prop layer)", r.InvViolated)
	}
	c.AddTLC(r)
	er, err := core.RunTLC(core.TLCOpts{Module: "MC_Reader", Cfg: emit, Workers: 2, Timeout: 10 * time.Minute})
	if err != nil || er.Error != "" {
		c.HarnessError(fmt.Sprintf("MC_Reader emit: %v %s", err, er.Error))
		return false
	}
	var objs []rObj
	for _, j := range er.JSON {
		var v struct {
			Object *rObj `json:"object"`
		}
		if json.Unmarshal(j, &v) == nil && v.Object != nil {
			objs = append(objs, *v.Object)
		}
	}
	sort.Slice(objs, func(i, j int) bool {
		a, _ := json.Marshal(objs[i])
		b, _ := json.Marshal(objs[j])
		return string(a) < string(b)
	})
	if len(objs) == 0 {
		c.HarnessError("no objects from MC_Reader")
		return false
	}
	rng := rand.New(rand.NewSource(c.Seed + 77))
	carrier := func(id string) *aspec.ASpec {
		a := &aspec.ASpec{Base: aspec.Base{Form: "none"}, SpecName: "openapi.yaml", Flags: aspec.Flags{APIHandler: true, DoNotEdit: true}, Security: aspec.Sec{K: "none"}, Title: id}
		t := []aspec.Seg{{K: "lit", S: "ping"}}
		a.Paths = []aspec.PathItem{{Template: t, Ops: []aspec.Op{simpleOp("GET", t)}}}
		return a
	}
	var pre []core.GenJob
	for i, o := range objs {
		a := carrier(fmt.Sprintf("rp%d", i))
		tn := fmt.Sprintf("R%d", i)
		s := o.schema(a, tn)
		a.Schemas = append(a.Schemas, aspec.NamedSchema{Name: tn, Schema: s})
		j := a.Job(fmt.Sprintf("rp%d", i))
		j.Package, j.Check = "gen", true
		pre = append(pre, j)
	}
	pres := core.RunGenJobs(pre, 0)
	var good []int
	for i, r := range pres {
		if strings.HasPrefix(r.Err, "HARNESS") {
			c.HarnessError("reader pre-flight: " + r.Err)
			return false
		}
		if r.Builds() {
			good = append(good, i)
		}
	}
	c.Cov["reader_objects"] = len(objs)
	c.Cov["reader_objects_excluded_not_building"] = len(objs) - len(good)
	if len(good)*2 < len(objs) {
		c.HarnessError(fmt.Sprintf("reader walk: only %d of %d objects build", len(good), len(objs)))
		return false
	}
	type meta struct {
		obj rObj
		doc map[string]string
	}
	metas := map[string]meta{}
	var jobs []core.GenJob
	var groups []driver.Group
	perPkg, caseN := 60, 0
	for start := 0; start < len(good); start += perPkg {
		end := start + perPkg
		if end > len(good) {
			end = len(good)
		}
		id := fmt.Sprintf("rd%d", start/perPkg)
		a := carrier(id)
		g := driver.Group{Pkg: id, Kind: "codec"}
		for _, oi := range good[start:end] {
			tn := fmt.Sprintf("R%d", oi)
			s := objs[oi].schema(a, tn)
			a.Schemas = append(a.Schemas, aspec.NamedSchema{Name: tn, Schema: s})
			for _, d := range readerDocs(objs[oi], rng, maxDocs) {
				caseN++
				cid := fmt.Sprintf("r%d", caseN)
				g.Codec = append(g.Codec, driver.CodecCase{ID: cid, Type: tn, Op: "decode", Doc: base64.StdEncoding.EncodeToString(readerDocBytes(d))})
				metas[cid] = meta{obj: objs[oi], doc: d}
			}
		}
		jobs = append(jobs, a.Job(id))
		groups = append(groups, g)
	}
	sc, err := core.BuildScratch(jobs, false)
	if err != nil {
		c.HarnessError(err.Error())
		return false
	}
	defer sc.Close()
	if len(sc.Excluded) > 0 {
		c.HarnessError(fmt.Sprintf("reader walk: packed packages do not build although every object passed pre-flight (%d)", len(sc.Excluded)))
		return false
	}
	evs, _, err := sc.Run(groups, 20*time.Minute)
	if err != nil {
		c.HarnessError(err.Error())
		return false
	}
	var events [][]byte
	info := map[string]any{}
	for _, raw := range evs {
		var e map[string]any
		json.Unmarshal(raw, &e)
		if e["ev"] == "DriverError" || e["driverError"] != nil {
			c.HarnessError(fmt.Sprintf("reader walk driver: %v %v", e["err"], e["driverError"]))
			return false
		}
		if e["ev"] != "Codec" {
			continue
		}
		cid, _ := e["case"].(string)
		m, ok := metas[cid]
		if !ok {
			continue
		}
		decOK, _ := e["decOK"].(bool)
		derr, _ := e["decErr"].(string)
		pan, _ := e["panic"].(string)
		named := []string{}
		if !decOK {
			keys := map[string]bool{}
			for _, d := range m.obj.declared() {
				keys[d.Name] = true
			}
			for k := range m.doc {
				keys[k] = true
			}
			for k := range keys {
				if strings.Contains(derr, "'"+k+"'") || strings.Contains(derr, "\""+k+"\"") {
					named = append(named, k)
				}
			}
			sort.Strings(named)
		}
		values, nulls, zeros, extras, wrong := []string{}, []string{}, []string{}, []string{}, []string{}
		if decOK {
			var av driver.AVal
			bs, _ := json.Marshal(e["v"])
			json.Unmarshal(bs, &av)
			values, nulls, zeros, extras, wrong = readerObserve(m.obj, av)
		}
		if pan != "" {
			wrong = append(wrong, "panic")
		}
		// the accepted value marshalled again: its members in order, as tokens of the writer machine
		valid, toks := true, []any{}
		var out []byte
		if decOK {
			encOK, _ := e["encOK"].(bool)
			if b, ok := e["bytes"].(string); ok {
				out, _ = base64.StdEncoding.DecodeString(b)
			}
			var ok bool
			toks, ok = memberTokens(out)
			valid = encOK && ok
		}
		ev := map[string]any{"ev": "Read", "case": cid, "obj": m.obj, "doc": m.doc, "ok": decOK && pan == "", "named": named,
			"values": values, "nulls": nulls, "zeros": zeros, "extras": extras, "wrong": wrong, "valid": valid, "toks": toks}
		bs, _ := json.Marshal(ev)
		events = append(events, bs)
		info[cid] = map[string]any{"object": m.obj, "document": string(readerDocBytes(m.doc)), "decoded_ok": decOK, "error": derr, "panic": trunc(pan, 400),
			"values": values, "nulls": nulls, "zeros": zeros, "extras": extras, "unexpected_content": wrong, "encoded_again": string(out)}
	}
	if len(events) == 0 {
		c.HarnessError("reader walk: no events")
		return false
	}
	jr, err := core.Judge("Trace_Reader", events, nil)
	if err != nil {
		c.HarnessError(err.Error())
		return false
	}
	c.AddTLC(jr.TLC)
	c.Drift("Reader / Codec writer (step-level reader and writer machines)", jr.Drifts)
	c.Add("traces_validated_against_impl", int64(len(events)))
	c.Add("evaluations", int64(len(events)))
	c.Add("distinct_nontrivial", int64(jr.Nontriv))
	c.Cov["reader_walk"] = map[string]any{"objects": len(good), "documents": len(events), "documents_per_object_max": maxDocs, "design_cfg": cfg}
	for _, rj := range jr.Rejects {
		what := "a document with a fault must be rejected naming a faulty property; a document the schema allows must decode losslessly and re-encode equivalently"
		c.Violation(map[string]any{"case": info[rj.Case], "reject": rj}, fmt.Sprintf("reader / writer walk (c08): %s: %v", what, info[rj.Case]))
	}
	return true
}

// memberTokens reads a JSON object into the writer machine's token stream: its members in document order,
// [key, v: "value" | "null"], separated by comma tokens; false when the bytes are not one JSON object.
func memberTokens(bs []byte) ([]any, bool) {
	toks := []any{}
	if !json.Valid(bs) {
		return toks, false
	}
	dec := json.NewDecoder(strings.NewReader(string(bs)))
	if t, err := dec.Token(); err != nil || t != json.Delim('{') {
		return toks, false
	}
	for dec.More() {
		kt, err := dec.Token()
		if err != nil {
			return toks, false
		}
		k, _ := kt.(string)
		var raw json.RawMessage
		if err := dec.Decode(&raw); err != nil {
			return toks, false
		}
		v := "value"
		if strings.TrimSpace(string(raw)) == "null" {
			v = "null"
		}
		if len(toks) > 0 {
			toks = append(toks, map[string]any{"key": ",", "v": ","})
		}
		toks = append(toks, map[string]any{"key": k, "v": v})
	}
	return toks, true
}
