package checks

import (
	"encoding/json"
	"strings"
	"time"

	"github.com/vkd/goag/generator"

	"verif/internal/core"
)

// namingConformance replays every token string TLC enumerates (MC_Naming) through the real
// generator.Title / generator.PublicFieldName and compares with the model's transducers.  A
// disagreement means spec/Naming.tla no longer describes the code (MODEL-DRIFT, not a verdict).
func namingConformance(c *core.Check) {
	r, err := core.RunTLC(core.TLCOpts{Module: "MC_Naming", Workers: 4, Timeout: 10 * time.Minute, Heap: "4g"})
	if err != nil || r.Error != "" {
		c.Note("MC_Naming did not run: %v %s", err, r.Error)
		return
	}
	if r.InvViolated != "" {
		c.Note("MODEL: MC_Naming reports %s violated: a name of the dialect does not derive an exported identifier", r.InvViolated)
	}
	c.AddTLC(r)
	n, drift := 0, 0
	first := ""
	for _, j := range r.JSON {
		var v struct {
			S      []string `json:"s"`
			Title  []string `json:"title"`
			Public []string `json:"public"`
		}
		if json.Unmarshal(j, &v) != nil {
			continue
		}
		in := strings.Join(v.S, "")
		n++
		if generator.Title(in) != strings.Join(v.Title, "") || generator.PublicFieldName(in) != strings.Join(v.Public, "") {
			drift++
			if first == "" {
				first = in + ": Title=" + generator.Title(in) + " (model " + strings.Join(v.Title, "") + "), PublicFieldName=" + generator.PublicFieldName(in) + " (model " + strings.Join(v.Public, "") + ")"
			}
		}
	}
	c.Cov["naming_strings_replayed"] = n
	c.Cov["naming_model_disagreements"] = drift
	if drift > 0 {
		c.Note("MODEL-DRIFT module=Naming what=%d of %d strings, first: %s", drift, n, first)
	}
}
