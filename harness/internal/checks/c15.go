package checks

import (
	"encoding/json"
	"fmt"
	"math/rand"
	"os"
	"os/exec"
	"path/filepath"
	"sort"
	"strconv"
	"strings"
	"time"

	"verif/internal/aspec"
	"verif/internal/core"
)

func init() { register("C15", "exploration", checkC15) }

type mutant struct {
	Carrier string   `json:"carrier"`
	Op      string   `json:"op"`
	Pointer []string `json:"pointer"`
	doc     any
}

func deepCopy(v any) any {
	switch x := v.(type) {
	case map[string]any:
		m := make(map[string]any, len(x))
		for k, e := range x {
			m[k] = deepCopy(e)
		}
		return m
	case []any:
		s := make([]any, len(x))
		for i, e := range x {
			s[i] = deepCopy(e)
		}
		return s
	}
	return v
}

// at returns the parent container and last key of a pointer inside doc.
func navigate(doc any, ptr []string) (parent any, last string) {
	cur := doc
	for i := 0; i < len(ptr)-1; i++ {
		switch x := cur.(type) {
		case map[string]any:
			cur = x[ptr[i]]
		case []any:
			n, _ := strconv.Atoi(ptr[i])
			cur = x[n]
		}
	}
	return cur, ptr[len(ptr)-1]
}

func setAt(doc any, ptr []string, v any, del bool) {
	parent, last := navigate(doc, ptr)
	switch x := parent.(type) {
	case map[string]any:
		if del {
			delete(x, last)
		} else {
			x[last] = v
		}
	case []any:
		n, _ := strconv.Atoi(last)
		if !del {
			x[n] = v
		}
	}
}

func getAt(doc any, ptr []string) any {
	parent, last := navigate(doc, ptr)
	switch x := parent.(type) {
	case map[string]any:
		return x[last]
	case []any:
		n, _ := strconv.Atoi(last)
		return x[n]
	}
	return nil
}

func walk(v any, ptr []string, f func(ptr []string, v any)) {
	if len(ptr) > 0 {
		f(ptr, v)
	}
	switch x := v.(type) {
	case map[string]any:
		keys := make([]string, 0, len(x))
		for k := range x {
			keys = append(keys, k)
		}
		sort.Strings(keys)
		for _, k := range keys {
			walk(x[k], append(append([]string{}, ptr...), k), f)
		}
	case []any:
		for i, e := range x {
			walk(e, append(append([]string{}, ptr...), strconv.Itoa(i)), f)
		}
	}
}

var genericWords = map[string]bool{"paths": true, "components": true, "schemas": true, "schema": true, "properties": true, "parameters": true, "responses": true,
	"content": true, "headers": true, "items": true, "required": true, "type": true, "format": true, "info": true, "servers": true, "security": true, "securitySchemes": true,
	"requestBody": true, "requestBodies": true, "allOf": true, "oneOf": true, "application/json": true, "description": true, "name": true, "in": true, "$ref": true, "url": true,
	"variables": true, "default": false, "additionalProperties": true, "discriminator": true, "mapping": true, "propertyName": true, "nullable": true, "title": true, "version": true, "openapi": true,
	"scheme": true, "flows": true, "summary": true, "operationId": true, "enum": true}

// locators of a pointer: the specific names on the way to the mutation site.
func locators(doc any, ptr []string) []string {
	var out []string
	for i, seg := range ptr {
		if _, err := strconv.Atoi(seg); err == nil && i > 0 {
			// array element: a parameter is named by its "name"
			if ptr[i-1] == "parameters" {
				if m, ok := getAt(doc, ptr[:i+1]).(map[string]any); ok {
					if n, ok := m["name"].(string); ok {
						out = append(out, n)
					}
				}
				continue
			}
			if i > 0 && (ptr[i-1] == "responses") {
				out = append(out, seg) // status code
			}
			continue
		}
		if genericWords[seg] {
			continue
		}
		out = append(out, seg)
	}
	return out
}

func isLocated(msg string, locs []string) bool {
	lm := strings.ToLower(msg)
	for _, l := range locs {
		if l != "" && strings.Contains(lm, strings.ToLower(l)) {
			return true
		}
	}
	return false
}

// mutantsOf enumerates every mutation operator at every site of the document.
func mutantsOf(carrier string, doc map[string]any) []mutant {
	var out []mutant
	add := func(op string, ptr []string, mutate func(d any)) {
		d := deepCopy(doc)
		mutate(d)
		out = append(out, mutant{Carrier: carrier, Op: op, Pointer: append([]string{}, ptr...), doc: d})
	}
	walk(doc, nil, func(ptr []string, v any) {
		p := append([]string{}, ptr...)
		parent, _ := navigate(doc, p)
		if _, isMap := parent.(map[string]any); isMap {
			add("DeleteKey", p, func(d any) { setAt(d, p, nil, true) })
		}
		add("NullValue", p, func(d any) { setAt(d, p, nil, false) })
		switch x := v.(type) {
		case string:
			add("SwapType:string->number", p, func(d any) { setAt(d, p, 7, false) })
			add("SwapType:string->object", p, func(d any) { setAt(d, p, map[string]any{"x": "y"}, false) })
			last := p[len(p)-1]
			if last == "type" {
				add("UnsupportedType", p, func(d any) { setAt(d, p, "weird", false) })
				if x != "object" {
					add("TypeToObject", p, func(d any) { setAt(d, p, "object", false) })
				}
				if x != "array" {
					add("TypeToArrayNoItems", p, func(d any) { setAt(d, p, "array", false) })
				}
			}
			if last == "format" {
				add("UnsupportedFormat", p, func(d any) { setAt(d, p, "uuid-ish", false) })
			}
			if last == "$ref" {
				add("DanglingRef", p, func(d any) { setAt(d, p, x+"Missing", false) })
				add("RefWrongSection", p, func(d any) { setAt(d, p, "#/components/examples/Nope", false) })
			}
			if last == "in" {
				add("CookieParam", p, func(d any) { setAt(d, p, "cookie", false) })
			}
		case map[string]any:
			add("SwapType:object->string", p, func(d any) { setAt(d, p, "text", false) })
			add("SwapType:object->array", p, func(d any) { setAt(d, p, []any{}, false) })
			add("EmptyObject", p, func(d any) { setAt(d, p, map[string]any{}, false) })
			if sch, ok := x["schema"]; ok {
				if _, isParam := x["in"]; isParam {
					add("UseContentParam", p, func(d any) {
						m := getAt(d, p).(map[string]any)
						delete(m, "schema")
						m["content"] = map[string]any{"application/json": map[string]any{"schema": deepCopy(sch)}}
					})
				}
			}
			if _, isSchema := x["type"]; isSchema {
				// goag's own extensions on a schema object: custom Go types in every spelling, time formats
				for _, gt := range []string{"Page", "pkg.Page", "github.com/vkd/Page", "github.com/vkd/x.Page", "a.b/c", ".", "x.", "/", ""} {
					gt := gt
					add("GoType:"+gt, p, func(d any) { getAt(d, p).(map[string]any)["x-goag-go-type"] = gt })
				}
				add("GoType:number", p, func(d any) { getAt(d, p).(map[string]any)["x-goag-go-type"] = 7 })
				if x["format"] == "date-time" {
					for _, tf := range []any{"time.RFC3339", "", "2006-01-02", 7} {
						tf := tf
						add(fmt.Sprintf("TimeFormat:%v", tf), p, func(d any) { getAt(d, p).(map[string]any)["x-goag-go-time-format"] = tf })
					}
				}
			}
			if len(p) >= 2 && p[len(p)-2] == "schemas" {
				name := p[len(p)-1]
				add("CyclicRef", p, func(d any) { setAt(d, p, map[string]any{"$ref": "#/components/schemas/" + name}, false) })
				add("SelfProperty", p, func(d any) {
					setAt(d, p, map[string]any{"type": "object", "properties": map[string]any{"self": map[string]any{"$ref": "#/components/schemas/" + name}}}, false)
				})
			}
		case []any:
			add("SwapType:array->object", p, func(d any) { setAt(d, p, map[string]any{}, false) })
			add("EmptyArray", p, func(d any) { setAt(d, p, []any{}, false) })
		case bool:
			add("SwapType:bool->string", p, func(d any) { setAt(d, p, "yes", false) })
		}
	})
	// whole-document mutations
	if paths, ok := doc["paths"].(map[string]any); ok {
		keys := make([]string, 0)
		for k := range paths {
			keys = append(keys, k)
		}
		sort.Strings(keys)
		for _, k := range keys {
			k := k
			repeated := k
			if i := strings.Index(k, "{"); i >= 0 {
				if j := strings.Index(k[i:], "}"); j > 0 {
					repeated = k + "/again/" + k[i:i+j+1] // the same variable twice
				}
			}
			for _, nk := range []string{k + "/pre{zz}", "/{a}-{b}", "no-leading-slash", k + "/{undeclared}", repeated} {
				if nk == k {
					continue
				}
				nk := nk
				add("PathKey:"+nk, []string{"paths", k}, func(d any) {
					m := d.(map[string]any)["paths"].(map[string]any)
					m[nk] = m[k]
					delete(m, k)
				})
			}
		}
	}
	for _, def := range []any{7, true, []any{"a"}, map[string]any{"x": 1}} {
		def := def
		add(fmt.Sprintf("ServerVariableDefault:%T", def), []string{"servers"}, func(d any) {
			d.(map[string]any)["servers"] = []any{map[string]any{"url": "/{v}", "variables": map[string]any{"v": map[string]any{"default": def, "enum": []any{def}}}}}
		})
	}
	return out
}

func c15Carriers() map[string]map[string]any {
	out := map[string]map[string]any{}
	out["kitchen"] = kitchenSpec().Document()
	// components-rich carrier
	a := &aspec.ASpec{Base: aspec.Base{Form: "servers", Segs: []string{"v1"}, ViaVariables: true}, SpecName: "openapi.yaml", Flags: aspec.Flags{APIHandler: true, Client: true}, Security: aspec.Sec{K: "none"}}
	str := aspec.Schema{K: "string"}
	i64 := aspec.Schema{K: "int64"}
	pet := objSchema(aspec.Prop{Name: "id", Schema: i64, Req: true}, aspec.Prop{Name: "name", Schema: str}, aspec.Prop{Name: "tags", Schema: aspec.Schema{K: "array", Items: &str}}, aspec.Prop{Name: "born", Schema: aspec.Schema{K: "datetime"}})
	pet.AddlK = "any"
	a.Schemas = []aspec.NamedSchema{{Name: "Pet", Schema: pet}, {Name: "NewPet", Schema: aspec.Schema{K: "allOf", Of: []aspec.Schema{{K: "ref", To: "Pet"}, objSchema(aspec.Prop{Name: "owner", Schema: str, Req: true})}}},
		{Name: "Animal", Schema: aspec.Schema{K: "oneOf", Of: []aspec.Schema{{K: "ref", To: "Pet"}, {K: "ref", To: "NewPet"}}}}}
	a.Parameters = []aspec.NamedParam{{Name: "Limit", Param: aspec.Param{In: "query", Name: "limit", Schema: aspec.Schema{K: "int32"}}}}
	a.Headers = []aspec.NamedHeader{{Name: "Next", Header: aspec.Header{Name: "X-Next", Schema: str}}}
	a.Responses = []aspec.NamedResponse{{Name: "PetOut", R: &aspec.Response{Desc: "a pet", Headers: []aspec.Header{{Name: "X-Next", Ref: "Next"}}, Body: aspec.Body{K: "json", Schema: &aspec.Schema{K: "ref", To: "Pet"}}}}, {Name: "Alias", Alias: "PetOut"}}
	a.RequestBodies = []aspec.NamedBody{{Name: "PetIn", Body: aspec.Body{K: "json", Schema: &aspec.Schema{K: "ref", To: "NewPet"}, Req: true}},
		{Name: "Upload", Body: aspec.Body{K: "raw", Media: "application/octet-stream", Req: true}}}
	t1 := []aspec.Seg{{K: "lit", S: "pets"}}
	t2 := []aspec.Seg{{K: "lit", S: "pets"}, {K: "var", S: "petId"}}
	get := simpleOp("GET", t1)
	get.Params = []aspec.Param{{Ref: "Limit", In: "query", Name: "limit"}, {In: "header", Name: "X-Trace", Schema: str}, {In: "query", Name: "tags", Schema: aspec.Schema{K: "array", Items: &str}}}
	get.Responses = []aspec.RespRef{{Status: "200", Ref: "PetOut"}, {Status: "default", R: &aspec.Response{Desc: "err", Body: aspec.Body{K: "json", Schema: &str}}}}
	post := simpleOp("POST", t1)
	post.Body = aspec.Body{K: "ref", To: "PetIn"}
	post.Responses = []aspec.RespRef{{Status: "201", Ref: "Alias"}}
	get2 := simpleOp("GET", t2)
	get2.Params = []aspec.Param{{In: "path", Name: "petId", Req: true, Schema: i64}}
	get2.Responses = []aspec.RespRef{{Status: "200", R: &aspec.Response{Desc: "ok", Body: aspec.Body{K: "json", Schema: &aspec.Schema{K: "ref", To: "Animal"}}}}, {Status: "404", R: &aspec.Response{Desc: "nf", Body: aspec.Body{K: "none"}}}}
	put := simpleOp("PUT", t2)
	put.Params = get2.Params
	put.Body = aspec.Body{K: "raw", Media: "application/octet-stream"}
	t3 := []aspec.Seg{{K: "lit", S: "pets"}, {K: "var", S: "petId"}, {K: "lit", S: "photo"}}
	up := simpleOp("POST", t3)
	up.Params = get2.Params
	up.Body = aspec.Body{K: "ref", To: "Upload"}
	a.Paths = []aspec.PathItem{{Template: t1, Ops: []aspec.Op{get, post}}, {Template: t2, Ops: []aspec.Op{get2, put}}, {Template: t3, Ops: []aspec.Op{up}}}
	out["petstore"] = a.Document()
	return out
}

func checkC15(c *core.Check) {
	c.Assumptions = []string{
		"only documents the OpenAPI loader accepts count; loader rejections ('load spec:' errors) are skipped",
		"'says where' = the error text contains a specific name on the JSON-pointer path to the mutated site (path key, method, status, component, property or parameter name); mutations with no specific name on their path are exempt",
		"generation runs in a worker process under a 60 s limit: a worker that dies or hangs counts as a crash",
	}
	thorough := c.Tier == "thorough"
	r, err := core.RunTLC(core.TLCOpts{Module: "MC_Dialect", Workers: 2, Timeout: 5 * time.Minute})
	if err == nil && r.Error == "" {
		c.AddTLC(r)
	}
	rng := rand.New(rand.NewSource(c.Seed))
	carriers := c15Carriers()
	if thorough {
		// fixture and example specs of the repository join the carriers (JSON form via the YAML loader of the harness is
		// not available offline without goag's loader; they are used as raw text carriers for the line-level mutations)
	}
	var muts []mutant
	var cn []string
	for k := range carriers {
		cn = append(cn, k)
	}
	sort.Strings(cn)
	for _, k := range cn {
		muts = append(muts, mutantsOf(k, carriers[k])...)
	}
	if false && !thorough {
		// quick: all whole-document and keyed mutations, a seeded third of the generic ones
		var keep []mutant
		for _, m := range muts {
			generic := strings.HasPrefix(m.Op, "SwapType") || m.Op == "NullValue" || m.Op == "DeleteKey" || m.Op == "EmptyObject"
			if !generic || rng.Intn(3) == 0 {
				keep = append(keep, m)
			}
		}
		muts = keep
	}
	var jobs []core.GenJob
	for i, m := range muts {
		bs, _ := json.MarshalIndent(m.doc, "", " ")
		jobs = append(jobs, core.GenJob{ID: fmt.Sprintf("m%d", i), Spec: string(bs), SpecName: "openapi.yaml", Package: "gen", SpecHandler: "openapi.yaml", Client: true, APIHandler: true, DoNotEdit: true, Config: "cors:\n  enable: true\n"})
	}
	res := core.RunGenJobs(jobs, 0)

	// a sample of the mutants also goes through the real CLI
	cliOK := map[int]bool{}
	cliDetail := map[int]string{}
	cli, cleanup, err := buildCLI()
	if err != nil {
		c.HarnessError("cannot build cmd/goag: " + err.Error())
		return
	}
	defer cleanup()
	nCLI := 0
	for i := range muts {
		if rng.Intn(50) != 0 && !(res[i].Panic != "" && nCLI < 40) {
			continue
		}
		nCLI++
		ok, detail := runCLI(cli, jobs[i].Spec, res[i].OK)
		cliOK[i] = ok
		cliDetail[i] = detail
	}

	var events [][]byte
	info := map[string]any{}
	nLoader, nOK, nErr, nPanic := 0, 0, 0, 0
	nLoaderCrash := 0
	kfOf := map[string]string{}
	for i, r := range res {
		if strings.HasPrefix(r.Err, "HARNESS") && r.Panic == "" {
			c.HarnessError("generation: " + r.Err)
			return
		}
		if !r.OK && r.Panic == "" && strings.Contains(r.Err, "load spec:") {
			nLoader++
			continue
		}
		if r.Panic != "" && strings.Contains(r.Panic, "openapi3.(*SwaggerLoader)") && !strings.Contains(r.Panic, "goag/specification.") && !strings.Contains(r.Panic, "goag/generator.") {
			// the third-party loader itself crashed on this document: it did not accept it (outside the property's domain)
			nLoaderCrash++
			continue
		}
		id := jobs[i].ID
		locs := locators(carriers[muts[i].Carrier], muts[i].Pointer)
		if len(muts[i].Pointer) > 0 && muts[i].Pointer[0] == "components" {
			// a fault in a component may be reported where the component is used: path keys count as locators
			if ps, ok := carriers[muts[i].Carrier]["paths"].(map[string]any); ok {
				for k := range ps {
					locs = append(locs, "\""+k+"\"")
				}
			}
		}
		if strings.HasPrefix(muts[i].Op, "PathKey:") {
			locs = []string{strings.TrimPrefix(muts[i].Op, "PathKey:")}
		}
		ev := genEventOf(id, r)
		ev.Cell = cellRec{Kind: "mutant", Pos: muts[i].Op, Ref: muts[i].Carrier, Shape: c15ErrClass(r)}
		ev.ParseErrs, ev.FmtDiffs, ev.TypeErrs, ev.SwallowedFormatError = 0, 0, 0, false // output quality is C01's business
		ev.MustLocate = len(locs) > 0
		ev.Located = isLocated(r.Err, locs)
		ev.Nontrivial = !r.OK
		if ok, sampled := cliOK[i]; sampled {
			ev.ExitOK = ok
		}
		bs, _ := json.Marshal(ev)
		events = append(events, bs)
		info[id] = map[string]any{"mutant": muts[i], "locators": locs, "ok": r.OK, "err": trunc(r.Err, 400), "panic": trunc(r.Panic, 1500), "cli": cliDetail[i], "spec": jobs[i].Spec}
		switch {
		case r.Panic != "":
			nPanic++
		case r.OK:
			nOK++
		default:
			nErr++
		}
	}
	if p := os.Getenv("VERIF_DUMP"); p != "" {
		bs, _ := json.Marshal(info)
		os.WriteFile(p, bs, 0o644)
	}
	jr, err := core.Judge("Trace_Gen", events, nil)
	if err != nil {
		c.HarnessError(err.Error())
		return
	}
	c.AddTLC(jr.TLC)
	c.Add("evaluations", int64(len(events)))
	c.Add("distinct_nontrivial", int64(nErr+nPanic))
	c.Cov["outcomes"] = map[string]int{"rejected_by_loader_skipped": nLoader, "loader_crashed_skipped": nLoaderCrash, "success": nOK, "error": nErr, "panic": nPanic, "through_cli": nCLI}
	c.Cov["rule"] = "every mutation operator (delete key, null, type swaps, empty object/array, unsupported type/format, dangling / wrong-section / cyclic $ref, content parameters, cookie parameters, partial and undeclared path templates, non-string server variable defaults) at every JSON-pointer site of the carrier specs (quick: all keyed operators, a seeded third of the generic ones); each mutant the loader accepts is generated in a worker process under recover(); a sample and every panicking mutant also go through the real CLI; TLC (Trace_Gen) applies 'no panic, error => non-empty and located, exit status agrees'; non-trivial = the generator refused the mutant or crashed"
	c.Cov["bounds"] = map[string]any{"carriers": cn, "mutants": len(muts)}
	if len(muts) > 10 {
		c.Sample(map[string]any{"mutant": muts[10]})
	}
	byKF := map[string]int{}
	defer func() { c.Cov["rejected_by_finding"] = byKF }()
	for _, rj := range jr.Rejects {
		kfOf[rj.Case] = rj.KF
		byKF[rj.KF]++
		if rj.KF != "" && c.Known(rj.KF) {
			continue
		}
		c.Violation(map[string]any{"case": info[rj.Case], "reject": rj}, fmt.Sprintf("generator did not fail cleanly: %v", trunc(fmt.Sprint(info[rj.Case]), 600)))
	}
}

// c15ErrClass abstracts the error text to the class the known-finding selectors talk about.
func c15ErrClass(r core.GenResult) string {
	switch {
	case r.Panic != "":
		return "panic"
	case r.OK:
		return "ok"
	case strings.Contains(r.Err, "execute template") || strings.Contains(r.Err, "template:"):
		return "template-error"
	case strings.Contains(r.Err, "could only be a primitive type"):
		return "path-param-primitive"
	}
	return "other-error"
}

func buildCLI() (string, func(), error) {
	dir, err := os.MkdirTemp("", "vcli")
	if err != nil {
		return "", nil, err
	}
	bin := filepath.Join(dir, "goag")
	cmd := exec.Command("go", "build", "-o", bin, "./cmd/goag")
	cmd.Dir = core.RepoDir()
	cmd.Env = append(os.Environ(), "GOFLAGS=-mod=mod", "GOPROXY=off", "GOSUMDB=off", "GOTOOLCHAIN=local")
	if out, err := cmd.CombinedOutput(); err != nil {
		os.RemoveAll(dir)
		return "", nil, fmt.Errorf("%v: %s", err, out)
	}
	return bin, func() { os.RemoveAll(dir) }, nil
}

// runCLI runs the real command on a spec; ok = exit status agrees with the in-process result and no crash trace.
func runCLI(bin, spec string, inProcOK bool) (bool, string) {
	dir, err := os.MkdirTemp("", "vcli-run")
	if err != nil {
		return true, "harness: " + err.Error()
	}
	defer os.RemoveAll(dir)
	os.WriteFile(filepath.Join(dir, "openapi.yaml"), []byte(spec), 0o644)
	os.WriteFile(filepath.Join(dir, ".goag.yaml"), []byte("cors:\n  enable: true\n"), 0o644)
	cmd := exec.Command(bin, "--file", filepath.Join(dir, "openapi.yaml"), "--out", filepath.Join(dir, "out"), "--package", "gen", "--client=true", "--config", filepath.Join(dir, ".goag.yaml"))
	cmd.Dir = dir
	done := make(chan struct{})
	var out []byte
	var rerr error
	go func() { out, rerr = cmd.CombinedOutput(); close(done) }()
	select {
	case <-done:
	case <-time.After(60 * time.Second):
		cmd.Process.Kill()
		<-done
		return false, "CLI did not terminate"
	}
	code := 0
	if ee, ok := rerr.(*exec.ExitError); ok {
		code = ee.ExitCode()
	}
	crashed := strings.Contains(string(out), "goroutine ") || strings.Contains(string(out), "panic:")
	detail := fmt.Sprintf("exit=%d crashed=%v out=%s", code, crashed, trunc(string(out), 300))
	if crashed {
		return false, detail
	}
	return (code == 0) == inProcOK, detail
}
