package checks

import (
	"encoding/json"
	"fmt"
	"sort"
	"strings"
	"time"

	"verif/internal/core"
)

func init() { register("C19", "model_checking", checkC19) }

const c19Head = `openapi: "3.0.3"
info:
  version: 0.0.1
  title: c19
`

// the five spec kinds of MC_GenDir
var c19Specs = map[string]string{
	"s0": c19Head + `paths:
  /shops/{shop}:
    get:
      parameters:
        - {name: shop, in: path, required: true, schema: {type: string}}
        - {name: page, in: query, schema: {type: integer}}
      responses:
        '200': {}
        default: {}
`,
	"s1": c19Head + `paths:
  /pets:
    get:
      responses:
        '200':
          description: ok
          content:
            application/json:
              schema: {$ref: "#/components/schemas/Pet"}
components:
  schemas:
    Pet:
      type: object
      required: [id]
      properties:
        id: {type: integer, format: int64}
        name: {type: string}
`,
	"s2": c19Head + `paths:
  /a:
    post:
      requestBody:
        content:
          application/json:
            schema: {$ref: "#/components/schemas/Big"}
      responses:
        '201': {$ref: "#/components/responses/Made"}
        default: {}
  /b/{id}/c:
    get:
      parameters:
        - {name: id, in: path, required: true, schema: {type: integer}}
        - {name: X-Trace, in: header, schema: {type: string}}
      responses:
        '200': {}
components:
  schemas:
    Big:
      type: object
      required: [a, b]
      properties:
        a: {type: string}
        b: {type: array, items: {type: integer}}
        c: {$ref: "#/components/schemas/Small"}
      additionalProperties: true
    Small:
      type: object
      properties:
        x: {type: boolean}
  responses:
    Made:
      description: made
      headers:
        X-Id: {schema: {type: string}}
      content:
        application/json:
          schema: {$ref: "#/components/schemas/Small"}
`,
	// accepted by the loader, refused by goag while building the generator (nothing is written)
	"sP": c19Head + `paths:
  /x/{p}:
    get:
      parameters:
        - {name: p, in: path, required: true, schema: {type: object, properties: {a: {type: string}}}}
      responses:
        '200': {}
`,
	// components render, handler.go does not (query parameter of object type)
	"sH": c19Head + `paths:
  /q:
    get:
      parameters:
        - {name: f, in: query, schema: {type: object, properties: {a: {type: string}}}}
      responses:
        '200':
          description: ok
          content:
            application/json:
              schema: {$ref: "#/components/schemas/Pet"}
components:
  schemas:
    Pet:
      type: object
      properties:
        id: {type: integer}
`,
}

type c19Step struct {
	K      string `json:"k"`
	Spec   string `json:"spec"`
	Client bool   `json:"client"`
	API    bool   `json:"api"`
	Dne    bool   `json:"dne"`
	F      string `json:"f"`
	How    string `json:"how"`
}

var c19Owned = []string{"client.go", "components.go", "handler.go", "router.go", "spec_file.go"}

func checkC19(c *core.Check) {
	c.Assumptions = []string{
		"file contents are compared by sha256; Fresh(inv) is measured by running each invocation once into an empty directory",
		"invocations: specs s0 (no components), s1/s2 (components), sP (refused before writing), sH (handler.go fails to render) x client x api-handler; other flags fixed",
		"user files are plain files in the output directory (no sub-directories, no permission changes)",
	}
	type mc struct {
		cfg     string
		workers int
	}
	// MC_GenDir_dne*: histories in which the header option changes between runs (length <= 2 / <= 3)
	// MC_GenDir_fail: histories of two runs over specs that fail before writing / while rendering, after or before a
	// run that succeeded (a failure must be reported whatever the directory holds)
	runs := []mc{{"MC_GenDir.cfg", 4}, {"MC_GenDir_dne.cfg", 4}, {"MC_GenDir_fail.cfg", 4}}
	if c.Tier == "thorough" {
		runs = []mc{{"MC_GenDir.cfg", 4}, {"MC_GenDir_dne3.cfg", 8}, {"MC_GenDir_len4.cfg", 8}, {"MC_GenDir_thorough.cfg", 16}}
	}
	if c.Tier == "thorough" {
		// histories of any length: GenDirInd.tla restates the step-level model with type annotations; Apalache checks that
		// IndInv (the directory matches the last successful invocation; files behind the current step already hold what
		// the run leaves; user files untouched) holds initially and is preserved by every step - user edits of owned
		// files and changes of the header option between runs included
		base, out0, err0 := core.RunApalache("GenDirInd", "Init", "IndInv", 0, 10*time.Minute)
		step, out1, err1 := core.RunApalache("GenDirInd", "IndInit", "IndInv", 1, 10*time.Minute)
		if err0 != nil || err1 != nil {
			c.HarnessError(fmt.Sprintf("apalache-mc (GenDirInd): %v %v", err0, err1))
			return
		}
		if !base || !step {
			c.Note("MODEL: GenDirInd.IndInv is not inductive (base=%v step=%v): %s %s", base, step, trunc(out0, 300), trunc(out1, 300))
		}
		c.Cov["inductive_invariant"] = map[string]any{"module": "GenDirInd", "invariant": "IndInv", "base_case": base, "inductive_step": step, "tool": "apalache-mc --length=0 / --length=1"}
	}
	// (among the user's files: Go files other generators left in the same package, with the conventional
	// "Code generated ... DO NOT EDIT." header - not goag's to touch either)
	userFiles := []string{"notes.txt", "zz_user.go", "mock_store.go", "kind_string.go"}
	files := append(append([]string{}, c19Owned...), userFiles...)

	// 1. design check + history generation by TLC
	var hists [][]c19Step
	seen := map[string]bool{}
	for _, m := range runs {
		r, err := core.RunTLC(core.TLCOpts{Module: "MC_GenDir", Cfg: m.cfg, Workers: m.workers, Timeout: 15 * time.Minute})
		if err != nil || r.Error != "" {
			c.HarnessError(fmt.Sprintf("MC_GenDir (%s): %v %s", m.cfg, err, r.Error))
			return
		}
		if r.InvViolated != "" {
			c.HarnessError("design check MC_GenDir failed (model of goag.go Generate violates " + r.InvViolated + "); the Impl layer needs attention")
			return
		}
		c.AddTLC(r)
		for _, j := range r.JSON {
			var h struct {
				Hist []c19Step `json:"hist"`
			}
			if json.Unmarshal(j, &h) != nil || len(h.Hist) == 0 {
				continue
			}
			k := string(j)
			if !seen[k] {
				seen[k] = true
				hists = append(hists, h.Hist)
			}
		}
	}
	if len(hists) == 0 {
		c.HarnessError("TLC produced no histories")
		return
	}
	// deterministic order, optional sampling in the thorough tier is not needed: all are replayed
	sort.Slice(hists, func(i, j int) bool { return fmt.Sprint(hists[i]) < fmt.Sprint(hists[j]) })

	// 2. Fresh(inv): every invocation once into an empty directory
	var invs []c19Inv
	invIdx := map[c19Inv]int{}
	for _, s := range []string{"s0", "s1", "s2", "sP", "sH"} {
		for _, cl := range []bool{false, true} {
			for _, a := range []bool{false, true} {
				for _, dne := range []bool{true, false} {
					invIdx[c19Inv{s, cl, a, dne}] = len(invs) + 1
					invs = append(invs, c19Inv{s, cl, a, dne})
				}
			}
		}
	}
	mkJob := func(k c19Inv, dir string) core.GenJob {
		return core.GenJob{Spec: c19Specs[k.spec], SpecName: "openapi.yaml", OutDir: dir, Package: "gen", Client: k.client, APIHandler: k.api, DoNotEdit: k.dne, SpecHandler: "openapi.yaml"}
	}
	var fjobs []core.GenJob
	for _, k := range invs {
		fjobs = append(fjobs, mkJob(k, ""))
	}
	fres := core.RunGenJobs(fjobs, 0)
	tok := map[string]string{} // sha -> token
	token := func(sha string) string {
		if t, ok := tok[sha]; ok {
			return t
		}
		t := fmt.Sprintf("h%d", len(tok)+1)
		tok[sha] = t
		return t
	}
	dirOf := func(fs map[string]core.FileInfo) (map[string]string, []string) {
		d := map[string]string{}
		for _, f := range files {
			d[f] = "absent"
		}
		extra := []string{}
		for n, fi := range fs {
			if _, ok := d[n]; ok {
				d[n] = token(fi.Sha)
			} else {
				extra = append(extra, n)
			}
		}
		sort.Strings(extra)
		return d, extra
	}
	type cfgInv struct {
		OK    bool              `json:"ok"`
		Fresh map[string]string `json:"fresh"`
	}
	var cinvs []cfgInv
	for i, r := range fres {
		if strings.HasPrefix(r.Err, "HARNESS") || r.Panic != "" {
			c.HarnessError(fmt.Sprintf("fresh run of %v: %s %s", invs[i], r.Err, trunc(r.Panic, 300)))
			return
		}
		d, _ := dirOf(r.Files)
		cinvs = append(cinvs, cfgInv{OK: r.OK, Fresh: d})
		// model drift: the model's idea of which invocations succeed
		wantFail := invs[i].spec == "sP" || (invs[i].spec == "sH" && (invs[i].api || invs[i].client))
		if r.OK == wantFail {
			c.Note("MODEL-DRIFT module=GenDir what=FailStep(%v) model says fail=%v, real ok=%v err=%s", invs[i], wantFail, r.OK, trunc(r.Err, 120))
		}
	}

	// 3. replay every history on the real generator: one chain of runs per history, in one directory
	initial := map[string]string{}
	for _, u := range userFiles {
		initial[u] = "user0:" + u + "\n"
		switch u {
		case "mock_store.go":
			initial[u] = "// Code generated by MockGen. DO NOT EDIT.\n// Source: store.go\n\npackage gen\n\ntype MockStore struct{ calls int }\n"
			continue
		case "kind_string.go":
			initial[u] = "// Code generated by \"stringer -type=Kind\"; DO NOT EDIT.\n\npackage gen\n\nfunc _() {}\n"
			continue
		}
		if strings.HasSuffix(u, ".go") {
			// a real Go file of the user's, in the same package, that binds names the generated code leaves to
			// goimports (log, fmt, strings) to packages of its own: owned files must not pick that up
			initial[u] = "// user0:" + u + "\npackage gen\n\nimport (\n\tfmt \"example.test/user/applog\"\n\tlog \"example.test/user/applog\"\n\tstrings \"example.test/user/applog\"\n)\n\n" +
				"func userLog() {\n\tlog.Println(\"x\")\n\tlog.Printf(\"x\")\n\tfmt.Errorf(\"x\")\n\tfmt.Sprintf(\"x\")\n\tfmt.Sprint(1)\n\tfmt.Fprintf(nil, \"x\")\n\tstrings.Split(\"a\", \"b\")\n\tstrings.HasPrefix(\"a\", \"b\")\n\tstrings.Join(nil, \"\")\n\tstrings.TrimPrefix(\"a\", \"b\")\n\tstrings.Index(\"a\", \"b\")\n\tstrings.NewReader(\"\")\n\tstrings.EqualFold(\"\", \"\")\n\tstrings.Contains(\"\", \"\")\n}\n"
		}
	}
	chains := make([][]core.GenJob, len(hists))
	for hi, h := range hists {
		var pendingFiles map[string]string
		var pendingDel []string
		first := true
		for si, st := range h {
			if st.K == "touch" {
				if st.How == "delete" {
					pendingDel = append(pendingDel, st.F)
				} else {
					if pendingFiles == nil {
						pendingFiles = map[string]string{}
					}
					pendingFiles[st.F] = fmt.Sprintf("edit%d:%s\n", si, st.F)
				}
				continue
			}
			j := mkJob(c19Inv{st.Spec, st.Client, st.API, st.Dne}, "@chain")
			j.PreFiles, j.PreDelete = pendingFiles, pendingDel
			if first {
				if j.PreFiles == nil {
					j.PreFiles = map[string]string{}
				}
				for k, v := range initial {
					j.PreFiles[k] = v
				}
				first = false
			}
			pendingFiles, pendingDel = nil, nil
			chains[hi] = append(chains[hi], j)
		}
	}
	cres := core.RunGenChains(chains, 0)

	var events [][]byte
	add := func(v any) {
		bs, _ := json.Marshal(v)
		events = append(events, bs)
	}
	add(map[string]any{"ev": "Config", "invs": cinvs, "files": files})
	shaOf := func(content string) string {
		return core.ShaOf([]byte(content))
	}
	for hi, h := range hists {
		if len(cres[hi]) != len(chains[hi]) {
			c.HarnessError(fmt.Sprintf("history %d: worker failure: %+v", hi, cres[hi]))
			return
		}
		d0 := map[string]string{}
		for _, f := range files {
			d0[f] = "absent"
		}
		for k, v := range initial {
			d0[k] = token(shaOf(v))
		}
		add(map[string]any{"ev": "Reset", "case": fmt.Sprintf("h%d", hi), "dir": d0})
		ri := 0
		for si, st := range h {
			if st.K == "touch" {
				t := "absent"
				if st.How != "delete" {
					t = token(shaOf(fmt.Sprintf("edit%d:%s\n", si, st.F)))
				}
				add(map[string]any{"ev": "Touch", "f": st.F, "tok": t})
				continue
			}
			r := cres[hi][ri]
			ri++
			if strings.HasPrefix(r.Err, "HARNESS") || r.Panic != "" {
				c.HarnessError(fmt.Sprintf("history %d run %d: %s %s", hi, ri, r.Err, trunc(r.Panic, 300)))
				return
			}
			d, extra := dirOf(r.Files)
			add(map[string]any{"ev": "Run", "inv": invIdx[c19Inv{st.Spec, st.Client, st.API, st.Dne}], "ok": r.OK, "dir": d, "extra": extra})
		}
	}

	// 4. judge
	jr, err := core.Judge("Trace_GenDir", events, nil)
	if err != nil {
		c.HarnessError(err.Error())
		return
	}
	c.AddTLC(jr.TLC)
	c.Add("traces_validated_against_impl", int64(len(hists)))
	c.Add("evaluations", int64(len(hists)))
	c.Cov["distinct_nontrivial"] = jr.Nontriv
	c.Cov["accepted"] = jr.Accepted
	c.Cov["exhaustive"] = true
	c.Cov["rule"] = "TLC (MC_GenDir) enumerates every history of invocations (spec with / without components x client x api handler, the DO NOT EDIT header option switched between runs in the *_dne configurations, and user edits) within the bounds of the cfgs; each is replayed on the real generator in a fresh directory; a history is non-trivial when some successful run found an owned file it had to remove or rewrite with different bytes"
	var cfgNames []string
	for _, m := range runs {
		cfgNames = append(cfgNames, m.cfg)
	}
	c.Cov["bounds"] = map[string]any{"configs": cfgNames, "histories": len(hists), "invocations": len(invs)}
	for i := 0; i < len(hists) && i < 3; i++ {
		c.Sample(hists[(i*7919)%len(hists)])
	}
	for _, rj := range jr.Rejects {
		var hi int
		fmt.Sscanf(rj.Case, "h%d", &hi)
		c.Violation(map[string]any{"history": hists[hi], "reject": rj, "specs": "c19Specs in harness/internal/checks/c19.go"},
			fmt.Sprintf("history %v: directory after run does not reflect the last invocation (event %s)", hists[hi], trunc(string(rj.Event), 300)))
	}
}

type c19Inv struct {
	spec        string
	client, api bool
	dne         bool // the DO NOT EDIT header is written
}

func trunc(s string, n int) string {
	if len(s) > n {
		return s[:n] + "…"
	}
	return s
}
