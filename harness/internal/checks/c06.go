package checks

import (
	"encoding/base64"
	"encoding/json"
	"fmt"
	"math/rand"
	"os"
	"sort"
	"strings"
	"time"

	"verif/driver"
	"verif/internal/aspec"
	"verif/internal/core"
)

func init() {
	register("C06", "model_checking", func(c *core.Check) { checkCodec(c, "c06") })
	register("C07", "model_checking", func(c *core.Check) { checkCodec(c, "c07") })
	register("C08", "model_checking", func(c *core.Check) { checkCodec(c, "c08") })
}

func codecPool(a *aspec.ASpec) {
	str := aspec.Schema{K: "string"}
	i64 := aspec.Schema{K: "int64"}
	a.Schemas = append(a.Schemas,
		aspec.NamedSchema{Name: "PoolA", Schema: objSchema(aspec.Prop{Name: "name", Schema: str, Req: true}, aspec.Prop{Name: "tag", Schema: str})},
		aspec.NamedSchema{Name: "PoolB", Schema: objSchema(aspec.Prop{Name: "id", Schema: i64, Req: true})},
		aspec.NamedSchema{Name: "PoolC", Schema: objSchema(aspec.Prop{Name: "flag", Schema: aspec.Schema{K: "bool"}}, aspec.Prop{Name: "when", Schema: aspec.Schema{K: "datetime"}})},
		aspec.NamedSchema{Name: "PoolD", Schema: func() aspec.Schema {
			o := objSchema(aspec.Prop{Name: "note", Schema: str})
			o.AddlK, o.Addl = "schema", &str
			return o
		}()},
		aspec.NamedSchema{Name: "VarDog", Schema: objSchema(aspec.Prop{Name: "kind", Schema: str, Req: true}, aspec.Prop{Name: "bark", Schema: str, Req: true})},
		aspec.NamedSchema{Name: "VarCat", Schema: objSchema(aspec.Prop{Name: "kind", Schema: str, Req: true}, aspec.Prop{Name: "meow", Schema: i64, Req: true})},
		aspec.NamedSchema{Name: "VarMemo", Schema: objSchema(aspec.Prop{Name: "author", Schema: str}, aspec.Prop{Name: "subject", Schema: str, Req: true})},
		aspec.NamedSchema{Name: "VarLetter", Schema: objSchema(aspec.Prop{Name: "author", Schema: str}, aspec.Prop{Name: "recipient", Schema: str, Req: true})},
		aspec.NamedSchema{Name: "VarCircle", Schema: objSchema(aspec.Prop{Name: "kind", Schema: str, Req: true}, aspec.Prop{Name: "radius", Schema: aspec.Schema{K: "double"}, Req: true})},
		aspec.NamedSchema{Name: "VarSquare", Schema: objSchema(aspec.Prop{Name: "kind", Schema: str, Req: true}, aspec.Prop{Name: "side", Schema: i64, Req: true})},
		aspec.NamedSchema{Name: "VarBird", Schema: objSchema(aspec.Prop{Name: "kind", Schema: str, Req: true}, aspec.Prop{Name: "wings", Schema: aspec.Schema{K: "bool"}, Req: true})},
	)
}

// addNullPools adds the nullable pool components a schema refers to (only then: nullable components
// of some kinds do not build, which is C01's business and must not take the whole package down).
func addNullPools(a *aspec.ASpec, s aspec.Schema) {
	bs, _ := json.Marshal(s)
	has := func(n string) bool {
		for _, x := range a.Schemas {
			if x.Name == n {
				return true
			}
		}
		return false
	}
	if strings.Contains(string(bs), "PoolNames") && !has("PoolNames") {
		a.Schemas = append(a.Schemas, aspec.NamedSchema{Name: "PoolNames", Schema: aspec.Schema{K: "array", Items: &aspec.Schema{K: "string"}}})
	}
	if strings.Contains(string(bs), "AaAliasA") && !has("AaAliasA") {
		a.Schemas = append(a.Schemas, aspec.NamedSchema{Name: "AaAliasA", Schema: aspec.Schema{K: "ref", To: "PoolA"}})
	}
	if strings.Contains(string(bs), "AaAliasNames") && !has("AaAliasNames") {
		a.Schemas = append(a.Schemas, aspec.NamedSchema{Name: "AaAliasNames", Schema: aspec.Schema{K: "ref", To: "PoolNames"}})
		if !has("PoolNames") {
			a.Schemas = append(a.Schemas, aspec.NamedSchema{Name: "PoolNames", Schema: aspec.Schema{K: "array", Items: &aspec.Schema{K: "string"}}})
		}
	}
	if strings.Contains(string(bs), "PoolAliasA") && !has("PoolAliasA") {
		a.Schemas = append(a.Schemas, aspec.NamedSchema{Name: "PoolAliasA", Schema: aspec.Schema{K: "ref", To: "PoolA"}})
	}
	if strings.Contains(string(bs), "PoolNullStr") && !has("PoolNullStr") {
		a.Schemas = append(a.Schemas, aspec.NamedSchema{Name: "PoolNullStr", Schema: aspec.Schema{K: "string", Nullable: true}})
	}
	if strings.Contains(string(bs), "PoolNullObj") && !has("PoolNullObj") {
		o := objSchema(aspec.Prop{Name: "n", Schema: aspec.Schema{K: "int64"}, Req: true})
		o.Nullable = true
		a.Schemas = append(a.Schemas, aspec.NamedSchema{Name: "PoolNullObj", Schema: o})
	}
}

func codecCarrier(id string) *aspec.ASpec {
	a := &aspec.ASpec{Base: aspec.Base{Form: "none"}, SpecName: "openapi.yaml", Flags: aspec.Flags{APIHandler: true, DoNotEdit: true}, Security: aspec.Sec{K: "none"}, Title: id}
	t := []aspec.Seg{{K: "lit", S: "ping"}}
	a.Paths = []aspec.PathItem{{Template: t, Ops: []aspec.Op{simpleOp("GET", t)}}}
	codecPool(a)
	return a
}

// ---- documents generated from the schema (independent of goag's encoder) ----

type docCase struct {
	doc  any    // JSON value
	mut  string // none | drop | swap
	prop string
}

var docStrings = []string{"abc", "", "with \"quote\" and \\ and \n", "é☃\U0001F600", "</x>&", " ", "\t tab and \u0000 nul \u001f us \u007f del", "\u2028line\u2029sep", "null", "true", "17", "{\"a\":1}", strings.Repeat("long-é-", 700), "C:\\users\\u0026", "write \\u003c to get <", "\\n is not a newline", "\\"}
var docTimes = []string{"2024-01-02T03:04:05Z", "2024-02-29T23:59:59.123456789+02:00", "1969-12-31T23:59:59.999-05:30", "0001-01-01T00:00:00Z", "9999-12-31T23:59:59.999999999Z", "2024-01-02T03:04:05+14:00", "2024-01-02T03:04:05.5Z", "2024-12-31T23:59:59-00:00", "2016-12-31T23:59:59.123456789012+05:30"}
var docInt64 = []any{json.Number("0"), json.Number("42"), json.Number("-9223372036854775808"), json.Number("9223372036854775807"), json.Number("-0"), json.Number("-1"), json.Number("9007199254740993")}
var docInt32 = []any{json.Number("0"), json.Number("-7"), json.Number("2147483647"), json.Number("-2147483648")}
var docF64 = []any{json.Number("1.5"), json.Number("-2"), json.Number("1e21"), json.Number("1.7976931348623157e308"), json.Number("5e-324"), json.Number("0.1"), json.Number("-0"), json.Number("1E5"), json.Number("1e-7"), json.Number("0.000001"), json.Number("123456789012345680000"), json.Number("2.5e+3"), json.Number("9007199254740993")}
var docF32 = []any{json.Number("1.5"), json.Number("-2"), json.Number("3.4028235e38"), json.Number("16777216"), json.Number("1e-45"), json.Number("0.1"), json.Number("16777217"), json.Number("-0")}
var docAny = []any{json.Number("1"), "s", true, nil, map[string]any{"a": json.Number("1"), "b": []any{nil, "x"}}, []any{}, map[string]any{}}

// sampleValue returns one valid JSON value for the resolved schema (TLA record form as produced by tlaSchema).
func sampleValue(s map[string]any, rng *rand.Rand, depth int) any {
	if n, _ := s["nullable"].(bool); n && rng.Intn(4) == 0 {
		return nil
	}
	switch s["k"] {
	case "string":
		return docStrings[rng.Intn(len(docStrings))]
	case "datetime":
		return docTimes[rng.Intn(len(docTimes))]
	case "int", "int64":
		return docInt64[rng.Intn(len(docInt64))]
	case "int32":
		return docInt32[rng.Intn(len(docInt32))]
	case "double":
		return docF64[rng.Intn(len(docF64))]
	case "float":
		return docF32[rng.Intn(len(docF32))]
	case "bool":
		return rng.Intn(2) == 0
	case "any":
		return docAny[rng.Intn(len(docAny))]
	case "array":
		n := rng.Intn(3)
		out := []any{}
		for i := 0; i < n; i++ {
			out = append(out, sampleValue(s["items"].(map[string]any), rng, depth+1))
		}
		return out
	case "object":
		out := map[string]any{}
		for _, p := range s["props"].([]any) {
			pm := p.(map[string]any)
			if pm["req"].(bool) || rng.Intn(2) == 0 {
				out[pm["name"].(string)] = sampleValue(pm["s"].(map[string]any), rng, depth+1)
			}
		}
		ad := s["addl"].(map[string]any)
		if ad["k"] != "none" {
			for n := rng.Intn(3); n > 0; n-- {
				k := []string{"extra", "x-y", "zz top", "k2"}[rng.Intn(4)]
				if ad["k"] == "any" {
					out[k] = docAny[rng.Intn(len(docAny))]
				} else {
					out[k] = sampleValue(ad["s"].(map[string]any), rng, depth+1)
				}
			}
		}
		return out
	case "oneOf":
		of := s["of"].([]any)
		k := rng.Intn(len(of))
		v := sampleValue(of[k].(map[string]any), rng, depth+1)
		if d, _ := s["disc"].(string); d != "" {
			if m, ok := v.(map[string]any); ok {
				tg := s["tags"].([]any)[k].([]any)
				m[d] = tg[rng.Intn(len(tg))]
			}
		}
		return v
	}
	return nil
}

func jsonKindOf(v any) string {
	switch v.(type) {
	case nil:
		return "null"
	case bool:
		return "bool"
	case json.Number:
		return "num"
	case string:
		return "str"
	case []any:
		return "arr"
	case map[string]any:
		return "obj"
	}
	return "?"
}

// wrongTyped returns a non-null value of a JSON type the schema does not accept, or nil,false when every type is accepted.
func wrongTyped(s map[string]any, rng *rand.Rand) (any, bool) {
	// (values of another JSON type, in several sizes and shapes: one character, empty containers, negative, fractional)
	pick := func(vs ...any) any { return vs[rng.Intn(len(vs))] }
	switch s["k"] {
	case "string", "datetime":
		return pick(json.Number("17"), json.Number("7"), json.Number("0"), json.Number("-1"), json.Number("1.5"), true, false, map[string]any{}, []any{}, []any{"x"}), true
	case "int", "int32", "int64", "double", "float":
		return pick("seventeen", "7", "", true, map[string]any{}, []any{}, []any{json.Number("1")}), true
	case "bool":
		return pick("true", "", json.Number("1"), json.Number("0"), map[string]any{}, []any{}), true
	case "array":
		return pick(map[string]any{"not": "an array"}, map[string]any{}, "x", json.Number("3"), true), true
	case "object":
		return pick([]any{"not", "an", "object"}, []any{}, "x", json.Number("3"), false), true
	}
	return nil, false
}

// docsFor generates valid documents (with extra keys where the schema is silent) and single-fault mutants.
func docsFor(s map[string]any, rng *rand.Rand, n int) []docCase {
	var out []docCase
	for i := 0; i < n; i++ {
		d := sampleValue(s, rng, 0)
		if m, ok := d.(map[string]any); ok && s["k"] == "object" && s["addl"].(map[string]any)["k"] == "none" && i%3 == 2 {
			m["undeclared-extra"] = json.Number("1") // JSON Schema allows it when additionalProperties is not mentioned
		}
		out = append(out, docCase{doc: d, mut: "none"})
	}
	if s["k"] == "object" {
		// explicit null at every nullable property, one at a time
		for _, p := range s["props"].([]any) {
			pm := p.(map[string]any)
			if n, _ := pm["s"].(map[string]any)["nullable"].(bool); n {
				d, _ := sampleValue(s, rng, 0).(map[string]any)
				if d != nil {
					d[pm["name"].(string)] = nil
					out = append(out, docCase{doc: d, mut: "none"})
				}
			}
		}
	}
	if s["k"] == "array" {
		if n, _ := s["items"].(map[string]any)["nullable"].(bool); n {
			out = append(out, docCase{doc: []any{nil, sampleValue(s["items"].(map[string]any), rng, 1), nil}, mut: "none"})
		}
	}
	if s["k"] == "object" {
		base, _ := sampleValue(s, rng, 0).(map[string]any)
		for base == nil {
			base, _ = sampleValue(s, rng, 0).(map[string]any)
		}
		// make every declared property present in the base document
		for _, p := range s["props"].([]any) {
			pm := p.(map[string]any)
			if _, ok := base[pm["name"].(string)]; !ok {
				v := sampleValue(pm["s"].(map[string]any), rng, 1)
				for v == nil {
					v = sampleValue(pm["s"].(map[string]any), rng, 1)
				}
				base[pm["name"].(string)] = v
			}
		}
		for _, p := range s["props"].([]any) {
			pm := p.(map[string]any)
			name := pm["name"].(string)
			if pm["req"].(bool) {
				d := copyMap(base)
				delete(d, name)
				out = append(out, docCase{doc: d, mut: "drop", prop: name})
			}
			if w, ok := wrongTyped(pm["s"].(map[string]any), rng); ok {
				d := copyMap(base)
				d[name] = w
				out = append(out, docCase{doc: d, mut: "swap", prop: name})
			}
		}
	}
	if s["k"] == "object" {
		// a key that equals a declared property's name up to letter case is another key: with the declared (optional)
		// property absent it is an additional property / an undeclared extra, not that property
		ad, _ := s["addl"].(map[string]any)
		for _, p := range s["props"].([]any) {
			pm := p.(map[string]any)
			name := pm["name"].(string)
			other := strings.ToUpper(name)
			if other == name {
				other = strings.ToLower(name)
			}
			if pm["req"].(bool) || other == name {
				continue
			}
			d, _ := sampleValue(s, rng, 0).(map[string]any)
			if d == nil {
				continue
			}
			delete(d, name)
			if _, clash := d[other]; clash {
				continue
			}
			switch ad["k"] {
			case "schema":
				v := sampleValue(ad["s"].(map[string]any), rng, 1)
				for v == nil {
					v = sampleValue(ad["s"].(map[string]any), rng, 1)
				}
				d[other] = v
			default:
				d[other] = json.Number("7")
			}
			out = append(out, docCase{doc: d, mut: "none"})
		}
	}
	if s["k"] == "object" {
		// integers written in float notation (5.0, 1e3, the int64 limits with ".0" or an exponent): whether a decoder takes
		// them is its own business ("maybe"), but if it does the value must be the integer the text denotes
		for _, p := range s["props"].([]any) {
			pm := p.(map[string]any)
			k, _ := pm["s"].(map[string]any)["k"].(string)
			if k != "int" && k != "int64" && k != "int32" {
				continue
			}
			for _, lex := range []string{"5.0", "1e3", "-0.0", "9007199254740993.0", "9223372036854775807.0", "9.223372036854775808e18", "-9223372036854775808.0", "2147483647.0", "2.147483648e9", "1.5e0"} {
				base, _ := sampleValue(s, rng, 0).(map[string]any)
				if base == nil {
					continue
				}
				base[pm["name"].(string)] = json.Number(lex)
				out = append(out, docCase{doc: base, mut: "maybe", prop: pm["name"].(string)})
			}
			break // (one integer property per schema is enough)
		}
	}
	if d, _ := s["disc"].(string); s["k"] == "oneOf" && d != "" {
		// a oneOf told apart by a discriminator: the discriminator property is a declared (string) property of every
		// variant - a document that lacks it or gives it another JSON type is refused like any other such document
		wrong := []any{json.Number("17"), json.Number("7"), json.Number("0"), json.Number("-1"), json.Number("1.5"), true, false, map[string]any{}, []any{}, []any{"x"}}
		for i := 0; i <= len(wrong); i++ {
			base, _ := sampleValue(s, rng, 0).(map[string]any)
			if base == nil {
				continue
			}
			if _, has := base[d]; !has {
				continue
			}
			m := copyMap(base)
			if i == 0 {
				delete(m, d)
				out = append(out, docCase{doc: m, mut: "drop-disc", prop: d})
				continue
			}
			m[d] = wrong[i-1]
			out = append(out, docCase{doc: m, mut: "swap-disc", prop: d})
		}
	}
	return out
}

func copyMap(m map[string]any) map[string]any {
	out := map[string]any{}
	for k, v := range m {
		out[k] = v
	}
	return out
}

// ---- the check ------------------------------------------------------------------

func checkCodec(c *core.Check, which string) {
	var plans []*driver.ReadPlan
	// the spellings valid documents are written in (spec/Spelling.tla; C08 owns the design check)
	spells := spellPlans(c, which == "c08")
	if spells == nil {
		return
	}
	c.Assumptions = []string{
		"values are compared by projection: nil and empty collections are identified, times are instants, floats by their shortest representation (DESIGN §11)",
		"oneOf: only schemas with pairwise exclusive variants, and only values with exactly one variant set",
		"string formats goag maps to a plain Go string (date, byte, binary, password) are not enforced by the type; extras must survive only under an explicit additionalProperties; null for a non-nullable property is not judged (C08)",
		"struct fields are bound to properties by normalised name; JSON leaves are tokenised with strconv / time.Parse (trusted)",
	}
	thorough := c.Tier == "thorough"
	if which == "c08" {
		if !readerWalk(c) {
			return
		}
	}
	r, err := core.RunTLC(core.TLCOpts{Module: "MC_Codec", Cfg: "MC_Codec.cfg", Workers: 4, Timeout: 10 * time.Minute})
	if err != nil || r.Error != "" {
		c.HarnessError(fmt.Sprintf("MC_Codec: %v %s", err, r.Error))
		return
	}
	if r.InvViolated != "" {
		c.Note("MODEL: design check MC_Codec reports %s violated (object writer comma protocol)", r.InvViolated)
	}
	c.AddTLC(r)
	er, err := core.RunTLC(core.TLCOpts{Module: "MC_Codec", Cfg: "MC_Codec_emit.cfg", Workers: 2, Timeout: 10 * time.Minute})
	if err != nil || er.Error != "" {
		c.HarnessError(fmt.Sprintf("MC_Codec emit: %v %s", err, er.Error))
		return
	}
	var schemas []aspec.Schema
	for _, j := range er.JSON {
		var v struct {
			Schema aspec.Schema `json:"schema"`
		}
		if json.Unmarshal(j, &v) == nil && v.Schema.K != "" {
			schemas = append(schemas, v.Schema)
		}
	}
	sort.Slice(schemas, func(i, j int) bool {
		a, _ := json.Marshal(schemas[i])
		b, _ := json.Marshal(schemas[j])
		return string(a) < string(b)
	})
	if len(schemas) == 0 {
		c.HarnessError("no schemas from TLC")
		return
	}
	// annotation keywords on the properties of every fourth object schema: readOnly / writeOnly (the generated type has
	// one codec for both directions: the dialect knows no direction-specific requiredness), deprecated, example, title
	for i := range schemas {
		if schemas[i].K != "object" || i%4 != 1 {
			continue
		}
		for pi := range schemas[i].Props {
			if schemas[i].Props[pi].Schema.K == "ref" {
				continue
			}
			schemas[i].Props[pi].Schema.Attrs = []map[string]any{{"readOnly": true}, {"writeOnly": true}, {"deprecated": true, "title": "T", "example": "x"}}[(i/4+pi)%3]
		}
	}
	rng := rand.New(rand.NewSource(c.Seed))
	if !thorough {
		// quick: every scalar/array/allOf/oneOf/nested schema, a seeded third of the two-property objects
		var keep []aspec.Schema
		for _, s := range schemas {
			if s.K == "object" && len(s.Props) == 2 && s.Props[0].Name == "alpha" && rng.Intn(3) != 0 {
				continue
			}
			keep = append(keep, s)
		}
		schemas = keep
	}
	// seeded random compositions of all constructs (randschema.go)
	nRand := 150
	if thorough {
		nRand = 1200
	}
	schemas = append(schemas, randSchemas(rand.New(rand.NewSource(c.Seed+4242)), nRand)...)
	c.Cov["random_schema_compositions"] = nRand
	// pre-flight each schema on its own
	var pre []core.GenJob
	for i, s := range schemas {
		a := codecCarrier(fmt.Sprintf("pre%d", i))
		addNullPools(a, s)
		a.Schemas = append(a.Schemas, aspec.NamedSchema{Name: fmt.Sprintf("T%d", i), Schema: s})
		j := a.Job(fmt.Sprintf("pre%d", i))
		j.Package, j.Check = "gen", true
		pre = append(pre, j)
	}
	pres := core.RunGenJobs(pre, 0)
	var good []int
	for i, r := range pres {
		if strings.HasPrefix(r.Err, "HARNESS") {
			c.HarnessError("pre-flight: " + r.Err)
			return
		}
		if r.Builds() {
			good = append(good, i)
		}
	}
	c.Cov["schemas"] = len(schemas)
	c.Cov["schemas_excluded_not_building"] = len(schemas) - len(good)
	if len(good) == 0 {
		c.HarnessError("no schema builds")
		return
	}
	perPkg := 60
	nSeeds, nDocs := 10, 6
	if thorough {
		nSeeds, nDocs = 200, 60
	}
	specs := map[string]*aspec.ASpec{}
	var groups []driver.Group
	type meta struct {
		typ  string
		sch  map[string]any
		doc  []byte
		mut  string
		prop string
		esc  bool // respelled with every string escaped and a date-time string sits in a collection (known finding)
	}
	metas := map[string]meta{}
	typeSchema := map[string]map[string]any{}
	caseN := 0
	var jobs []core.GenJob
	for start := 0; start < len(good); start += perPkg {
		end := start + perPkg
		if end > len(good) {
			end = len(good)
		}
		id := fmt.Sprintf("cd%d", start/perPkg)
		a := codecCarrier(id)
		g := driver.Group{Pkg: id, Kind: "codec"}
		for _, si := range good[start:end] {
			tn := fmt.Sprintf("T%d", si)
			addNullPools(a, schemas[si])
			a.Schemas = append(a.Schemas, aspec.NamedSchema{Name: tn, Schema: schemas[si]})
		}
		for _, si := range good[start:end] {
			tn := fmt.Sprintf("T%d", si)
			rs := tlaSchema(a, schemas[si], 0)
			if rs["k"] == "object" && rs["nullable"] == true {
				// a nullable object component: its Go type is the struct; the null lives in the Nullable[...] wrapper of
				// whoever refers to it (the properties that do are in the universe: NullRefs, NullableRefIdiom)
				rs["nullable"] = false
			}
			typeSchema[id+"/"+tn] = rs
			// a top-level discriminated oneOf over component variants: random values whose discriminator is one
			// of the values the specification declares for the chosen variant (schema name or mapping alias)
			var disc string
			var tagsByType map[string][]string
			if d, _ := rs["disc"].(string); d != "" && schemas[si].K == "oneOf" {
				disc, tagsByType = d, map[string][]string{}
				for vi, m := range schemas[si].Of {
					for _, tg := range rs["tags"].([]any)[vi].([]any) {
						tagsByType[driver.Norm(m.To)] = append(tagsByType[driver.Norm(m.To)], tg.(string))
					}
				}
			}
			for k := 0; k < nSeeds && (!hasDiscriminator(rs) || disc != ""); k++ {
				caseN++
				cid := fmt.Sprintf("e%d", caseN)
				g.Codec = append(g.Codec, driver.CodecCase{ID: cid, Type: tn, Op: "roundtrip", Seed: c.Seed*1000 + int64(caseN), Disc: disc, Tags: tagsByType})
				metas[cid] = meta{typ: id + "/" + tn, sch: rs}
			}
			for _, dc := range docsFor(rs, rng, nDocs) {
				caseN++
				cid := fmt.Sprintf("d%d", caseN)
				bs, _ := json.Marshal(dc.doc)
				esc := false
				if caseN%3 == 0 {
					// the same document as another producer would spell it (escapes, white space)
					sp := spells[(caseN/3)%len(spells)]
					var dv any
					json.Unmarshal(bs, &dv)
					bs = respellJSON(bs, sp)
					esc = sp.escapes() && escapedTimeInCollection(rs, dv)
				}
				g.Codec = append(g.Codec, driver.CodecCase{ID: cid, Type: tn, Op: "decode", Doc: base64.StdEncoding.EncodeToString(bs)})
				metas[cid] = meta{typ: id + "/" + tn, sch: rs, doc: bs, mut: dc.mut, prop: dc.prop, esc: esc}
				if dc.mut == "none" {
					caseN++
					rid := fmt.Sprintf("e%d", caseN)
					g.Codec = append(g.Codec, driver.CodecCase{ID: rid, Type: tn, Op: "docroundtrip", Doc: base64.StdEncoding.EncodeToString(bs)})
					metas[rid] = meta{typ: id + "/" + tn, sch: rs, doc: bs}
				}
			}
		}
		// C08 through the server: every sixth object / array schema also is the request body of an operation
		if which == "c08" {
			if plans == nil {
				// how a request body arrives: every behaviour of Stream.tla's source, in turn
				if plans = streamPlans(c, true); plans == nil {
					return
				}
			}
			bg := driver.Group{Pkg: id, Kind: "pipeline", API: driver.APIConfig{}}
			for k, si := range good[start:end] {
				tn := fmt.Sprintf("T%d", si)
				rs := typeSchema[id+"/"+tn]
				if k%6 != 0 || (rs["k"] != "object" && rs["k"] != "array") {
					continue
				}
				t := []aspec.Seg{{K: "lit", S: "body"}, {K: "lit", S: strings.ToLower(tn)}}
				op := simpleOp("POST", t)
				// (the body is declared required / optional in turn; documents arrive with their length announced or chunked)
				op.Body = aspec.Body{K: "json", Schema: &aspec.Schema{K: "ref", To: tn}, Req: (k/6)%2 == 0}
				a.Paths = append(a.Paths, aspec.PathItem{Template: t, Ops: []aspec.Op{op}})
				for _, dc := range docsFor(rs, rng, 3) {
					caseN++
					cid := fmt.Sprintf("b%d", caseN)
					bs, _ := json.Marshal(dc.doc)
					esc := false
					if caseN%3 == 0 {
						sp := spells[(caseN/3)%len(spells)]
						var dv any
						json.Unmarshal(bs, &dv)
						bs = respellJSON(bs, sp)
						esc = sp.escapes() && escapedTimeInCollection(rs, dv)
					}
					bg.Cases = append(bg.Cases, driver.ReqCase{ID: cid, Method: "POST", Path: "/body/" + strings.ToLower(tn), Headers: map[string][]string{"Content-Type": {"application/json"}},
						Body: string(bs), HasBody: true, Chunked: caseN%2 == 0, Reads: plans[caseN%len(plans)], Script: driver.Script{Parse: true}})
					metas[cid] = meta{typ: id + "/" + tn, sch: rs, doc: bs, mut: dc.mut, prop: dc.prop, esc: esc}
				}
			}
			if len(bg.Cases) > 0 {
				groups = append(groups, bg)
			}
		}
		specs[id] = a
		jobs = append(jobs, a.Job(id))
		groups = append(groups, g)
	}
	sc, err := core.BuildScratch(jobs, false)
	if err != nil {
		c.HarnessError(err.Error())
		return
	}
	defer sc.Close()
	if len(sc.Excluded) > 0 {
		var ex []string
		for id, r := range sc.Excluded {
			ex = append(ex, id+": "+trunc(strings.Join(r.TypeErr, "; "), 200))
		}
		c.HarnessError(fmt.Sprintf("packed codec packages do not build although every schema passed pre-flight: %v", ex))
		return
	}
	evs, _, err := sc.Run(groups, 20*time.Minute)
	if err != nil {
		c.HarnessError(err.Error())
		return
	}
	// events ordered by type so that each Schema event precedes its cases
	byType := map[string][]map[string]any{}
	var typeOrder []string
	for _, raw := range evs {
		var e map[string]any
		json.Unmarshal(raw, &e)
		if e["ev"] == "DriverError" || e["driverError"] != nil {
			c.HarnessError(fmt.Sprintf("driver: %v %v", e["err"], e["driverError"]))
			return
		}
		if e["ev"] == "Parse" || e["ev"] == "Done" {
			cid, _ := e["case"].(string)
			if m, ok := metas[cid]; ok {
				if _, ok := byType[m.typ]; !ok {
					typeOrder = append(typeOrder, m.typ)
				}
				byType[m.typ] = append(byType[m.typ], e)
			}
			continue
		}
		if e["ev"] != "Codec" {
			continue
		}
		cid, _ := e["case"].(string)
		m := metas[cid]
		if _, ok := byType[m.typ]; !ok {
			typeOrder = append(typeOrder, m.typ)
		}
		byType[m.typ] = append(byType[m.typ], e)
	}
	var events [][]byte
	add := func(v any) {
		bs, _ := json.Marshal(v)
		events = append(events, bs)
	}
	invalidJ := core.J{"t": "invalid", "c": "!invalid"}
	noV := map[string]any{"t": "leaf", "s": "-"}
	info := map[string]any{}
	nEnc, nDec := 0, 0
	distinctEnc, distinctDec := map[string]bool{}, map[string]bool{} // distinct (type, bytes) whose document is an object or array
	for _, tn := range typeOrder {
		add(map[string]any{"ev": "Schema", "id": tn, "s": typeSchema[tn]})
		parsedCase := map[string]bool{}
		for _, e := range byType[tn] {
			cid, _ := e["case"].(string)
			m := metas[cid]
			pan, _ := e["panic"].(string)
			if e["ev"] == "Parse" {
				parsedCase[cid] = true
				ok, _ := e["ok"].(bool)
				derr, _ := e["err"].(string)
				names := m.prop != "" && (strings.Contains(derr, "'"+m.prop+"'") || strings.Contains(derr, "\""+m.prop+"\""))
				add(map[string]any{"ev": "Body", "case": cid, "type": tn, "mut": m.mut, "prop": m.prop, "reached": true, "ok": ok, "names": names, "panic": trunc(pan, 200), "escTime": m.esc && strings.Contains(derr, "parsing time")})
				info[cid] = map[string]any{"type": tn, "schema": m.sch, "request_body": string(m.doc), "mutation": m.mut, "property": m.prop, "parse_error": derr, "panic": trunc(pan, 600)}
				nDec++
				continue
			}
			if e["ev"] == "Done" {
				if !parsedCase[cid] {
					add(map[string]any{"ev": "Body", "case": cid, "type": tn, "mut": m.mut, "prop": m.prop, "reached": false, "ok": false, "names": false, "panic": trunc(pan, 200), "escTime": false})
					info[cid] = map[string]any{"type": tn, "request_body": string(m.doc), "note": "the request never reached Parse()", "status": e["status"], "panic": trunc(pan, 600)}
				}
				continue
			}
			proj := func(key string) map[string]any {
				if e[key] == nil {
					return noV
				}
				var av driver.AVal
				bs, _ := json.Marshal(e[key])
				json.Unmarshal(bs, &av)
				return tlaVal(av)
			}
			var out []byte
			if b, ok := e["bytes"].(string); ok {
				out, _ = base64.StdEncoding.DecodeString(b)
			}
			encOK, _ := e["encOK"].(bool)
			decOK, _ := e["decOK"].(bool)
			if e["skipped"] != nil {
				continue // docroundtrip of a document that does not decode: C08 judges that
			}
			if e["op"] == "roundtrip" || e["op"] == "docroundtrip" {
				nEnc++
				j := invalidJ
				if encOK {
					j = core.ParseJ(out)
				}
				if t, _ := j["t"].(string); t == "obj" || t == "arr" {
					distinctEnc[tn+"|"+string(out)] = true
				}
				valid, _ := e["valid"].(bool)
				add(map[string]any{"ev": "Enc", "case": cid, "type": tn, "v": proj("v"), "encOK": encOK, "valid": valid, "j": j, "decOK": decOK, "v2": proj("v2"), "panic": trunc(pan, 200)})
				info[cid] = map[string]any{"type": tn, "schema": m.sch, "value": e["v"], "bytes": string(out), "encErr": e["encErr"], "decErr": e["decErr"], "decoded": e["v2"], "panic": trunc(pan, 600)}
			} else {
				nDec++
				if len(m.doc) > 0 && (m.doc[0] == '{' || m.doc[0] == '[') {
					distinctDec[tn+"|"+m.mut+"|"+string(m.doc)] = true
				}
				re := invalidJ
				if encOK {
					re = core.ParseJ(out)
				}
				derr, _ := e["decErr"].(string)
				names := m.prop != "" && (strings.Contains(derr, "'"+m.prop+"'") || strings.Contains(derr, "\""+m.prop+"\""))
				add(map[string]any{"ev": "Dec", "case": cid, "type": tn, "doc": core.ParseJ(m.doc), "mut": m.mut, "prop": m.prop, "decOK": decOK, "names": names, "encOK": encOK, "re": re, "panic": trunc(pan, 200), "escTime": m.esc && strings.Contains(derr, "parsing time")})
				info[cid] = map[string]any{"type": tn, "schema": m.sch, "document": string(m.doc), "mutation": m.mut, "property": m.prop, "decErr": derr, "reencoded": string(out), "panic": trunc(pan, 600)}
			}
		}
	}
	jr, err := core.Judge("Trace_Codec", events, nil)
	if err != nil {
		c.HarnessError(err.Error())
		return
	}
	c.AddTLC(jr.TLC)
	c.Add("programs", int64(len(sc.Pkgs)))
	if p := os.Getenv("VERIF_DUMP"); p != "" {
		dump := map[string]any{}
		for _, rj := range jr.Rejects {
			dump[rj.Case] = map[string]any{"why": json.RawMessage(rj.Why), "info": info[rj.Case]}
		}
		bs, _ := json.Marshal(dump)
		os.WriteFile(p, bs, 0o644)
	}
	mine := 0
	other := 0
	kfCount := map[string]int{}
	for _, rj := range jr.Rejects {
		var why struct {
			C06 bool `json:"c06"`
			C07 bool `json:"c07"`
			C08 bool `json:"c08"`
		}
		json.Unmarshal([]byte(rj.Why), &why)
		failed := map[string]bool{"c06": !why.C06, "c07": !why.C07, "c08": !why.C08}
		if !failed[which] {
			other++
			continue
		}
		mine++
		kf := rj.KF
		kfCount[kf]++
		if kf != "" && c.Known(kf) {
			continue
		}
		c.Violation(map[string]any{"case": info[rj.Case], "reject": rj}, fmt.Sprintf("codec (%s): %s", which, trunc(fmt.Sprint(info[rj.Case]), 700)))
	}
	if which == "c08" {
		c.Add("traces_validated_against_impl", int64(nDec))
		c.Add("evaluations", int64(nDec))
		c.Add("distinct_nontrivial", int64(len(distinctDec)))
	} else {
		c.Add("traces_validated_against_impl", int64(nEnc))
		c.Add("evaluations", int64(nEnc))
		c.Add("distinct_nontrivial", int64(len(distinctEnc)))
	}
	c.Cov["rejected_for_other_codec_properties"] = other
	c.Cov["rejected_by_finding"] = kfCount
	c.Cov["exhaustive"] = false
	c.Cov["rule"] = "TLC (MC_Codec) checks the generated object writer's comma protocol for every allOf of two members (inline / embedded) x every subset of set properties, and enumerates the schema universe (all scalars and arrays of them x nullable, objects with <= 2 properties x required x nullable x additionalProperties {silent, true, string, int64}, allOf in all inline/$ref orders, oneOf with and without discriminator, nested objects/arrays); each schema is pre-flighted, packed as a component and (C06/C07) seeded boundary-biased values are marshalled, validated and unmarshalled, (C08) documents generated from the schema and their single-fault mutants are unmarshalled and re-encoded; TLC (Trace_Codec) judges; non-trivial = object or array documents"
	c.Cov["bounds"] = map[string]any{"schemas": len(schemas), "values_per_schema": nSeeds, "documents_per_schema": nDocs}
	for cid, v := range info {
		if strings.HasPrefix(cid, map[string]string{"c06": "e", "c07": "e", "c08": "d"}[which]) {
			c.Sample(v)
			break
		}
	}
}

func hasDiscriminator(s map[string]any) bool {
	if d, _ := s["disc"].(string); d != "" {
		return true
	}
	for _, k := range []string{"items"} {
		if m, ok := s[k].(map[string]any); ok && hasDiscriminator(m) {
			return true
		}
	}
	if ad, ok := s["addl"].(map[string]any); ok {
		if m, ok := ad["s"].(map[string]any); ok && ad["k"] == "schema" && hasDiscriminator(m) {
			return true
		}
	}
	if ps, ok := s["props"].([]any); ok {
		for _, p := range ps {
			if hasDiscriminator(p.(map[string]any)["s"].(map[string]any)) {
				return true
			}
		}
	}
	if of, ok := s["of"].([]any); ok {
		for _, o := range of {
			if hasDiscriminator(o.(map[string]any)) {
				return true
			}
		}
	}
	return false
}
