package checks

import (
	"encoding/json"
	"fmt"
	"go/ast"
	"go/constant"
	"go/parser"
	"go/token"
	"go/types"
	"math/rand"
	"os"
	"path/filepath"
	"sort"
	"strings"
	"time"
	"unicode/utf8"

	"github.com/vkd/goag/generator"

	"verif/internal/core"
)

func init() { register("C13", "model_checking", checkC13) }

var embedTokBytes = map[string]string{
	"bt": "`", "dq": `"`, "bs": `\`, "lf": "\n", "cr": "\r", "dl": "$", "n": "n", "z": "z",
	"nul": "\x00", "bad8": "\xff", "bom": "\ufeff",
}

func detok(toks []string) []byte {
	var b []byte
	for _, t := range toks {
		if s, ok := embedTokBytes[t]; ok {
			b = append(b, s...)
		} else {
			b = append(b, t...)
		}
	}
	return b
}

// tokenize maps bytes to the alphabet of Embed.tla; every other character is its own token.
func tokenize(bs []byte) []string {
	out := []string{}
	for len(bs) > 0 {
		r, n := utf8.DecodeRune(bs)
		switch {
		case r == utf8.RuneError && n == 1:
			out = append(out, "bad8")
		case r == '`':
			out = append(out, "bt")
		case r == '"':
			out = append(out, "dq")
		case r == '\\':
			out = append(out, "bs")
		case r == '\n':
			out = append(out, "lf")
		case r == '\r':
			out = append(out, "cr")
		case r == '$':
			out = append(out, "dl")
		case r == 0:
			out = append(out, "nul")
		case r == 0xFEFF:
			out = append(out, "bom")
		default:
			out = append(out, string(bs[:n]))
		}
		bs = bs[n:]
	}
	return out
}

// evalSpecConst evaluates the constant SpecFile of a generated spec_file.go the way the
// compiler does (scanner, parser, constant folding).
func evalSpecConst(src []byte) (compiled bool, val []byte, why string) {
	fset := token.NewFileSet()
	f, err := parser.ParseFile(fset, "spec_file.go", src, 0)
	if err != nil {
		return false, nil, err.Error()
	}
	conf := types.Config{Error: func(error) {}}
	pkg, err := conf.Check("p", fset, []*ast.File{f}, nil)
	if err != nil {
		return false, nil, err.Error()
	}
	obj := pkg.Scope().Lookup("SpecFile")
	c, ok := obj.(*types.Const)
	if !ok || c.Val().Kind() != constant.String {
		return false, nil, "SpecFile is not a string constant"
	}
	return true, []byte(constant.StringVal(c.Val())), ""
}

func checkC13(c *core.Check) {
	c.Assumptions = []string{
		"the constant is evaluated with go/parser + go/types (the compiler's front end semantics for string literals)",
		"exhaustive part: contents over the token alphabet of spec/Embed.tla; other bytes are ordinary characters for Go's literal syntax",
		"served half: GET of <base>/<spec name> through API.ServeHTTP of compiled generated packages (see evidence key served)",
	}
	cfg := "MC_Embed.cfg"
	if c.Tier == "thorough" {
		cfg = "MC_Embed_thorough.cfg"
	}
	// 1. design check + content enumeration
	var contents [][]string
	for _, cf := range []string{"MC_Embed.cfg", cfg} {
		if cf == "MC_Embed.cfg" && cfg != cf && false {
			continue
		}
		r, err := core.RunTLC(core.TLCOpts{Module: "MC_Embed", Cfg: cf, Workers: 8, Timeout: 20 * time.Minute, Heap: "8g"})
		if err != nil || r.Error != "" {
			c.HarnessError(fmt.Sprintf("MC_Embed: %v %s", err, r.Error))
			return
		}
		if r.InvViolated != "" {
			c.Note("MODEL: design check MC_Embed reports %s violated: the model of encodeRawFileAsString is not faithful for some content (see spec/Embed.tla)", r.InvViolated)
		}
		c.AddTLC(r)
		for _, j := range r.JSON {
			var v struct {
				C []string `json:"c"`
			}
			if json.Unmarshal(j, &v) == nil {
				contents = append(contents, v.C)
			}
		}
		if cf == cfg {
			break
		}
	}
	if len(contents) == 0 {
		c.HarnessError("TLC produced no contents")
		return
	}
	// de-duplicate (the quick universe is contained in neither/both)
	{
		seen := map[string]bool{}
		var u [][]string
		for _, x := range contents {
			k := strings.Join(x, ",")
			if !seen[k] {
				seen[k] = true
				u = append(u, x)
			}
		}
		contents = u
	}
	nModel := len(contents)

	// random longer contents by seed (random text part of the quantifier)
	rng := rand.New(rand.NewSource(c.Seed))
	alpha := []string{"bt", "dq", "bs", "lf", "cr", "dl", "n", "z", "nul", "bad8", "bom", "a", " ", "é", "{", "}", "%", "'", "\t", "0", "x", "u", "r"}
	nRand := 2000
	if c.Tier == "thorough" {
		nRand = 20000
	}
	for i := 0; i < nRand; i++ {
		n := 1 + rng.Intn(40)
		x := make([]string, n)
		for k := range x {
			if rng.Intn(3) == 0 {
				x[k] = alpha[rng.Intn(11)]
			} else {
				x[k] = alpha[rng.Intn(len(alpha))]
			}
		}
		contents = append(contents, x)
	}

	var events [][]byte
	add := func(v any) {
		bs, _ := json.Marshal(v)
		events = append(events, bs)
	}
	g := &generator.Generator{}
	g.Options.PackageName = "gen"
	caseInfo := map[string]any{}
	for i, toks := range contents {
		content := detok(toks)
		text, err := g.SpecFile(content).Render()
		if err != nil {
			c.HarnessError("SpecFile.Render: " + err.Error())
			return
		}
		ok, val, why := evalSpecConst([]byte(text))
		id := fmt.Sprintf("e%d", i)
		add(map[string]any{"ev": "Embed", "case": id, "content": tokenize(content), "compiled": ok, "value": tokenize(val)})
		caseInfo[id] = map[string]any{"content_tokens": toks, "content_quoted": fmt.Sprintf("%q", content), "compiled": ok, "why": trunc(why, 200), "value_quoted": fmt.Sprintf("%q", val)}
		if i%4000 == 1 {
			c.Sample(caseInfo[id])
		}
	}

	// 2. whole files through the real generator
	fileCases := c13FileCases(c)
	var jobs []core.GenJob
	for _, fc := range fileCases {
		jobs = append(jobs, core.GenJob{ID: fc.name, Spec: fc.content, SpecName: fc.specName, Package: "gen", APIHandler: true, DoNotEdit: true, SpecHandler: fc.specName, ReturnFiles: true})
	}
	res := core.RunGenJobs(jobs, 0)
	nFiles := 0
	for i, r := range res {
		if strings.HasPrefix(r.Err, "HARNESS") {
			c.HarnessError("file case " + fileCases[i].name + ": " + r.Err)
			return
		}
		if !r.OK {
			// the loader or goag refused this surface form: not a case of C13
			continue
		}
		sf, ok := r.Files["spec_file.go"]
		if !ok {
			c.HarnessError("no spec_file.go for " + fileCases[i].name)
			return
		}
		okc, val, why := evalSpecConst([]byte(sf.Content))
		id := "f:" + fileCases[i].name
		add(map[string]any{"ev": "Embed", "case": id, "content": tokenize([]byte(fileCases[i].content)), "compiled": okc, "value": tokenize(val)})
		caseInfo[id] = map[string]any{"file": fileCases[i].name, "specName": fileCases[i].specName, "content_quoted": trunc(fmt.Sprintf("%q", fileCases[i].content), 2000), "compiled": okc, "why": trunc(why, 200)}
		nFiles++
	}
	if nFiles > 0 {
		c.Sample(caseInfo["f:"+fileCases[0].name])
	}

	// 3. served half
	served := c13Served(c, &events, caseInfo)

	jr, err := core.Judge("Trace_Embed", events, nil)
	if err != nil {
		c.HarnessError(err.Error())
		return
	}
	c.AddTLC(jr.TLC)
	c.Add("traces_validated_against_impl", int64(len(events)))
	c.Add("evaluations", int64(len(events)))
	c.Add("distinct_nontrivial", int64(jr.Nontriv))
	c.Cov["exhaustive"] = true
	c.Cov["bounds"] = map[string]any{"model_cfg": cfg, "model_contents": nModel, "random_contents": nRand, "file_cases": nFiles, "served_cases": served}
	c.Cov["rule"] = "TLC (MC_Embed) enumerates every content up to the cfg's length over the token alphabet and checks the model of the encoder against the model of Go's literal syntax; every enumerated content, seeded random contents and real spec files in several surface forms are embedded by the real generator and the compiled constant is compared with the content by TLC (Trace_Embed); non-trivial = contains a character that is special in Go literals (or, for served cases, the handler answered)"
	for _, rj := range jr.Rejects {
		c.Violation(map[string]any{"case": caseInfo[rj.Case], "reject": rj}, fmt.Sprintf("embedded/served spec differs from the input: %s %v", rj.Case, trunc(fmt.Sprint(caseInfo[rj.Case]), 300)))
	}
}

type c13File struct {
	name, specName, content string
}

const c13JSONSpec = `{"openapi":"3.0.3","info":{"version":"1","title":"t","description":"line1\nline2 \"q\" back\\slash ` + "`tick`" + ` $x"},"paths":{"/a":{"get":{"responses":{"200":{"description":"ok"}}}}}}`

func c13FileCases(c *core.Check) []c13File {
	var out []c13File
	add := func(name, specName, content string) { out = append(out, c13File{name, specName, content}) }
	add("json-oneline", "openapi.json", c13JSONSpec)
	add("json-oneline-nl", "openapi.json", c13JSONSpec+"\n")
	add("json-crlf", "openapi.json", strings.ReplaceAll(strings.ReplaceAll(c13JSONSpec, `,"paths"`, ",\n\"paths\""), "\n", "\r\n"))
	yamlSpec := c19Specs["s2"] + "# comment with `backticks` \"quotes\" back\\slash $dollar\n"
	add("yaml", "openapi.yaml", yamlSpec)
	add("yaml-crlf", "openapi.yaml", strings.ReplaceAll(yamlSpec, "\n", "\r\n"))
	add("yaml-no-trailing-nl", "openapi.yaml", strings.TrimRight(yamlSpec, "\n"))
	add("yaml-cr-in-comment", "openapi.yaml", c19Specs["s0"]+"# a\rb\n")
	add("yaml-bom", "openapi.yaml", "\ufeff"+c19Specs["s0"])
	add("yaml-nbsp-utf8", "openapi.yaml", c19Specs["s0"]+"# café ☃ \U0001F600\n")
	// long contents on the quoted path (one line, or a carriage return somewhere) that are dense in multi-byte
	// characters, at three byte alignments: whatever chunking or wrapping an encoder applies meets a character boundary
	// question at every offset
	dense := strings.Repeat("日本語の説明テキスト、café ☃ \U0001F600 Привет мир ", 260) // about 17 KB
	for shift := 0; shift < 3; shift++ {
		pad := strings.Repeat("x", shift)
		add(fmt.Sprintf("json-oneline-long-utf8+%d", shift), "openapi.json",
			`{"openapi":"3.0.3","info":{"version":"1","title":"t`+pad+`","description":"`+dense+`"},"paths":{"/a":{"get":{"responses":{"200":{"description":"ok"}}}}}}`)
		add(fmt.Sprintf("yaml-cr-long-utf8+%d", shift), "openapi.yaml", c19Specs["s0"]+"# "+pad+"a\rb "+dense+"\n# "+dense+"\n")
	}
	// fixture and example specs of the repository, as they are and with CRLF line ends
	var paths []string
	for _, pat := range []string{core.RepoDir() + "/tests/*/openapi.yaml", core.RepoDir() + "/examples/*/openapi.yaml"} {
		m, _ := filepath.Glob(pat)
		paths = append(paths, m...)
	}
	sort.Strings(paths)
	max := 10
	if c.Tier == "thorough" {
		max = len(paths)
	}
	rng := rand.New(rand.NewSource(c.Seed + 7))
	rng.Shuffle(len(paths), func(i, j int) { paths[i], paths[j] = paths[j], paths[i] })
	for i, p := range paths {
		if i >= max {
			break
		}
		bs, err := os.ReadFile(p)
		if err != nil {
			continue
		}
		name := filepath.Base(filepath.Dir(p))
		// fixtures with custom Go types need user code; generation itself still works
		add("fixture:"+name, "openapi.yaml", string(bs))
		add("fixture-crlf:"+name, "openapi.yaml", strings.ReplaceAll(string(bs), "\n", "\r\n"))
	}
	return out
}
