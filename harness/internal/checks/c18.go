package checks

import (
	"encoding/base64"
	"encoding/json"
	"fmt"
	"math/rand"
	"net/http"
	"net/url"
	"os"
	"sort"
	"strings"
	"time"

	"verif/driver"
	"verif/internal/aspec"
	"verif/internal/core"
)

func init() { register("C18", "model_checking", checkC18) }

type refObs struct {
	sent, parsed, responded, ret map[string]any
	wire, done                   map[string]any
	parseOK, hasResp, retOK      bool
	errKey                       string
	// raw
	status  int
	handler string
	panic   string
	seen    bool
}

func noVal() map[string]any { return map[string]any{"t": "leaf", "s": "-"} }

func sortedKV(m map[string][]string, canonKeys bool) []string {
	var out []string
	for k, vs := range m {
		for _, v := range vs {
			out = append(out, k+"="+v)
		}
	}
	sort.Strings(out)
	if out == nil {
		out = []string{}
	}
	return out
}

func bodyCanon(bs []byte) string {
	j := core.ParseJ(bs)
	if j["t"] == "invalid" {
		return "raw:" + base64.StdEncoding.EncodeToString(bs)
	}
	return j["c"].(string)
}

// collectObs turns the driver's events of one package run into per-case observations.
func collectObs(evs []json.RawMessage) (map[string]*refObs, error) {
	out := map[string]*refObs{}
	get := func(id string) *refObs {
		o := out[id]
		if o == nil {
			o = &refObs{sent: noVal(), parsed: noVal(), responded: noVal(), ret: noVal(),
				wire: map[string]any{"method": "", "path": "", "query": []string{}, "hdrs": []string{}, "body": ""},
				done: map[string]any{"status": 0, "ctype": "", "hdrs": []string{}, "body": ""}}
			out[id] = o
		}
		o.seen = true
		return o
	}
	for _, raw := range evs {
		var e map[string]any
		json.Unmarshal(raw, &e)
		cid, _ := e["case"].(string)
		av := func(key string) map[string]any {
			if e[key] == nil {
				return noVal()
			}
			var a driver.AVal
			bs, _ := json.Marshal(e[key])
			json.Unmarshal(bs, &a)
			return tlaVal(a)
		}
		hdrList := func(key string) []string {
			m := map[string][]string{}
			if h, ok := e[key].(map[string]any); ok {
				for k, vs := range h {
					for _, v := range vs.([]any) {
						m[k] = append(m[k], v.(string))
					}
				}
			}
			return sortedKV(m, true)
		}
		if e["ev"] == "Probe" && os.Getenv("VERIF_DEBUG_PROBE") != "" {
			fmt.Println("probe:", string(raw))
		}
		switch e["ev"] {
		case "DriverError":
			return nil, fmt.Errorf("driver: %v", e["err"])
		case "Call":
			get(cid).sent = av("sent")
		case "Wire":
			o := get(cid)
			q, _ := url.ParseQuery(e["rawQuery"].(string))
			b, _ := e["body"].(string)
			bs, _ := base64.StdEncoding.DecodeString(b)
			o.wire = map[string]any{"method": e["method"], "path": e["escapedPath"], "query": sortedKV(q, false), "hdrs": hdrList("hdr"), "body": bodyCanon(bs)}
		case "Handler":
			get(cid).handler, _ = e["op"].(string)
		case "Parse":
			o := get(cid)
			if p, _ := e["panic"].(string); p != "" {
				o.panic = "parse panic"
			}
			o.parseOK, _ = e["ok"].(bool)
			if o.parseOK {
				o.parsed = av("params")
			} else {
				in, _ := e["errIn"].(string)
				par, _ := e["errParam"].(string)
				msg, _ := e["err"].(string)
				if in == "" && par == "" {
					if m := reParamErr.FindStringSubmatch(msg); m != nil {
						in, par = m[1], m[2]
					} else if strings.Contains(msg, "decode request body") {
						in, par = "body", ""
					}
				}
				o.errKey = in + ":" + par
			}
		case "Respond":
			o := get(cid)
			o.hasResp = true
			o.responded = av("value")
		case "ServerDone", "Done":
			o := get(cid)
			b, _ := e["body"].(string)
			bs, _ := base64.StdEncoding.DecodeString(b)
			hs := hdrList("hdr")
			ctype := ""
			for _, h := range hs {
				if strings.HasPrefix(h, "Content-Type=") {
					ctype = strings.TrimPrefix(h, "Content-Type=")
				}
			}
			o.status = int(e["status"].(float64))
			o.done = map[string]any{"status": o.status, "ctype": ctype, "hdrs": hs, "body": bodyCanon(bs)}
			if p, _ := e["panic"].(string); p != "" {
				o.panic = "serve panic"
			}
		case "Return":
			o := get(cid)
			o.retOK, _ = e["ok"].(bool)
			if o.retOK {
				o.ret = av("value")
			}
		}
	}
	return out, nil
}

func (o *refObs) wireRec() map[string]any {
	return map[string]any{"sent": o.sent, "wire": o.wire, "parseOK": o.parseOK, "errKey": o.errKey, "parsed": o.parsed, "hasResp": o.hasResp,
		"responded": o.responded, "done": o.done, "retOK": o.retOK, "ret": o.ret}
}

func (o *refObs) rawRec() map[string]any {
	return map[string]any{"status": o.status, "handler": o.handler, "panic": o.panic, "parseOK": o.parseOK, "errKey": o.errKey, "parsed": o.parsed}
}

func checkC18(c *core.Check) {
	c.Assumptions = []string{
		"the two packages of a pair are generated from specs that differ only by the rewrite; both are driven with the same seeds (wire calls) and the same raw requests; a wire pair is compared when both clients were given the same request value (equal projections)",
		"values are compared after merging embedded allOf members and regardless of field order; bodies as canonical JSON; headers and query as sorted multisets",
		"oneOf variants stay references (a discriminator needs named variants)",
	}
	thorough := c.Tier == "thorough"
	r, err := core.RunTLC(core.TLCOpts{Module: "MC_Refs", Workers: 4, Timeout: 5 * time.Minute})
	if err != nil || r.Error != "" || r.InvViolated != "" {
		c.HarnessError(fmt.Sprintf("MC_Refs: %v %s %s", err, r.Error, r.InvViolated))
		return
	}
	c.AddTLC(r)
	var tlcVariants []aspec.Variant
	for _, j := range r.JSON {
		var v struct {
			Variant aspec.Variant `json:"variant"`
		}
		if json.Unmarshal(j, &v) == nil && v.Variant.Params != "" {
			tlcVariants = append(tlcVariants, v.Variant)
		}
	}
	sort.Slice(tlcVariants, func(i, j int) bool { return fmt.Sprint(tlcVariants[i]) < fmt.Sprint(tlcVariants[j]) })
	if len(tlcVariants) == 0 {
		c.HarnessError("no variants from TLC")
		return
	}
	rng := rand.New(rand.NewSource(c.Seed))
	all := func(x string) aspec.Variant {
		return aspec.Variant{ParamSchemas: x, Params: x, Bodies: x, Responses: x, Headers: x}
	}
	nPacks, opsPerPack, nPartial, nSeeds := 2, 12, 2, 4
	if thorough {
		nPacks, opsPerPack, nPartial, nSeeds = 20, 15, 8, 12
	}
	// operations, pre-flighted
	nOps := nPacks * opsPerPack * 2
	var seeds []int64
	var pre []core.GenJob
	for k := 0; k < nOps; k++ {
		sd := rng.Int63()
		seeds = append(seeds, sd)
		a := wireCarrier(fmt.Sprintf("pre%d", k), aspec.Base{Form: "none"})
		a.NoComposite = true // (hoisting / inlining random schema compositions runs into the open C01 findings on inline items and nullable: C18 keeps to the wire universe)
		w := randWireOp(a, k, rand.New(rand.NewSource(sd)))
		a.Paths = []aspec.PathItem{{Template: w.tmpl, Ops: []aspec.Op{w.op}}}
		j := a.Job(fmt.Sprintf("pre%d", k))
		j.Package, j.Check = "gen", true
		pre = append(pre, j)
	}
	pres := core.RunGenJobs(pre, 0)
	var good []int
	for i, r := range pres {
		if strings.HasPrefix(r.Err, "HARNESS") {
			c.HarnessError("pre-flight: " + r.Err)
			return
		}
		if r.Builds() {
			good = append(good, i)
		}
	}
	if len(good) < opsPerPack {
		c.HarnessError("too few operations build")
		return
	}
	type member struct {
		id      string
		pack    int
		variant aspec.Variant
		name    string
		spec    *aspec.ASpec
	}
	var members []member
	var jobs []core.GenJob
	packCases := map[int][]driver.WireCase{}
	packRaw := map[int][]driver.ReqCase{}
	packBase := map[int]string{}
	viaOf := map[string]string{}
	bases := baseForms()
	caseN := 0
	for p := 0; p < nPacks && (p+1)*opsPerPack <= len(good); p++ {
		base := bases[p%len(bases)]
		packBase[p] = base.NF()
		a := wireCarrier(fmt.Sprintf("b%do", p), base)
		a.NoComposite = true // (hoisting / inlining random schema compositions runs into the open C01 findings on inline items and nullable: C18 keeps to the wire universe)
		// one component request body so that the "bodies" category has a reference site
		a.RequestBodies = append(a.RequestBodies, aspec.NamedBody{Name: "SharedBody", Body: aspec.Body{K: "json", Schema: &aspec.Schema{K: "ref", To: "Thing"}, Req: true}})
		a.Headers = append(a.Headers, aspec.NamedHeader{Name: "SharedHeader", Header: aspec.Header{Name: "X-Shared", Schema: aspec.Schema{K: "string"}}})
		for oi, k := range good[p*opsPerPack : (p+1)*opsPerPack] {
			w := randWireOp(a, k, rand.New(rand.NewSource(seeds[k])))
			if w.op.Body.K == "json" && oi%3 == 0 {
				w.op.Body = aspec.Body{K: "ref", To: "SharedBody"}
			}
			for ri := range w.op.Responses {
				if w.op.Responses[ri].R != nil && oi%2 == 0 {
					w.op.Responses[ri].R.Headers = append(w.op.Responses[ri].R.Headers, aspec.Header{Name: "X-Shared", Ref: "SharedHeader"})
				}
				// a header whose name is the key of another header component than the one it refers to (wirePool)
				if r := w.op.Responses[ri].R; r != nil && oi%2 == 1 {
					dup := false
					for _, h := range r.Headers {
						dup = dup || http.CanonicalHeaderKey(h.Name) == "Location"
					}
					if !dup {
						r.Headers = append(r.Headers, aspec.Header{Name: "Location", Ref: "LocationHint"})
					}
				}
			}
			a.Paths = append(a.Paths, aspec.PathItem{Template: w.tmpl, Ops: []aspec.Op{w.op}})
			opID := w.op.Method + " " + aspec.TemplateString(w.tmpl)
			for s := 0; s < nSeeds; s++ {
				caseN++
				packCases[p] = append(packCases[p], driver.WireCase{ID: fmt.Sprintf("w%d", caseN), Op: opID, Seed: rng.Int63(), RespSeed: rng.Int63n(1 << 40)})
				viaOf[fmt.Sprintf("w%d", caseN)] = bodyVia(a, w.op.Body)
			}
			valid := validRequest(a, w, base.NF(), rng)
			for _, rc := range nearMisses(valid, base.NF(), func() string { caseN++; return fmt.Sprintf("r%d", caseN) }) {
				viaOf[rc.ID] = bodyVia(a, w.op.Body)
				if len(rc.Path) > 500 {
					continue
				}
				packRaw[p] = append(packRaw[p], rc)
			}
		}
		variants := []struct {
			name string
			v    aspec.Variant
		}{{"inline-all", all("inline")}, {"hoist-all", all("hoist")}, {"hoist-props", func() aspec.Variant { v := all("keep"); v.HoistProps = true; return v }()}}
		for k := 0; k < nPartial; k++ {
			v := tlcVariants[rng.Intn(len(tlcVariants))]
			variants = append(variants, struct {
				name string
				v    aspec.Variant
			}{fmt.Sprintf("partial:%+v", v), v})
		}
		members = append(members, member{id: fmt.Sprintf("b%do", p), pack: p, name: "original", spec: a})
		jobs = append(jobs, a.Job(fmt.Sprintf("b%do", p)))
		for vi, vv := range variants {
			id := fmt.Sprintf("b%dv%d", p, vi)
			sp := a.Rewrite(vv.v)
			members = append(members, member{id: id, pack: p, variant: vv.v, name: vv.name, spec: sp})
			jobs = append(jobs, sp.Job(id))
		}
	}
	sc, err := core.BuildScratch(jobs, false)
	if err != nil {
		c.HarnessError(err.Error())
		return
	}
	defer sc.Close()
	var groups []driver.Group
	for _, m := range members {
		if _, ex := sc.Excluded[m.id]; ex {
			continue
		}
		groups = append(groups, driver.Group{Pkg: m.id, Kind: "wire", ByStatus: true, API: driver.APIConfig{Mw: 1, NotFound: true}, Base: packBase[m.pack], Wire: packCases[m.pack]})
		groups = append(groups, driver.Group{Pkg: m.id, Kind: "pipeline", API: driver.APIConfig{Mw: 1, NotFound: true}, Cases: packRaw[m.pack]})
	}
	evs, _, err := sc.Run(groups, 20*time.Minute)
	if err != nil {
		c.HarnessError(err.Error())
		return
	}
	// split the event stream per package
	perPkg := map[string][]json.RawMessage{}
	cur := ""
	for _, raw := range evs {
		var e struct {
			Ev  string `json:"ev"`
			Pkg string `json:"pkg"`
		}
		json.Unmarshal(raw, &e)
		if e.Ev == "Group" {
			cur = e.Pkg
			continue
		}
		perPkg[cur] = append(perPkg[cur], raw)
	}
	obs := map[string]map[string]*refObs{}
	for id, es := range perPkg {
		o, err := collectObs(es)
		if err != nil {
			c.HarnessError(err.Error())
			return
		}
		obs[id] = o
	}
	var events [][]byte
	add := func(v any) {
		bs, _ := json.Marshal(v)
		events = append(events, bs)
	}
	info := map[string]any{}
	pairs := 0
	for _, m := range members {
		if m.name == "original" {
			continue
		}
		orig := fmt.Sprintf("b%do", m.pack)
		ra, rb := sc.Results[orig], sc.Results[m.id]
		bid := "build:" + m.id
		add(map[string]any{"ev": "Pair", "case": bid, "kind": "build", "variant": m.name, "hoistsProps": m.variant.HoistProps, "hoistsHeaders": m.variant.Headers == "hoist",
			"headerArrayError": strings.Contains(rb.Err, "HeaderComponent") && strings.Contains(rb.Err, "SliceType"),
			"a":                map[string]any{"ok": ra.OK, "builds": ra.Builds()}, "b": map[string]any{"ok": rb.OK, "builds": rb.Builds()}})
		info[bid] = map[string]any{"variant": m.name, "original_builds": ra.Builds(), "variant_builds": rb.Builds(), "variant_errors": append(append([]string{rb.Err}, rb.TypeErr...), rb.ParseErr...), "variant_spec": m.spec}
		pairs++
		oa, ob := obs[orig], obs[m.id]
		if oa == nil || ob == nil {
			continue
		}
		for _, wc := range packCases[m.pack] {
			a, b := oa[wc.ID], ob[wc.ID]
			if a == nil || b == nil {
				continue
			}
			cid := m.id + "/" + wc.ID
			add(map[string]any{"ev": "Pair", "case": cid, "kind": "wire", "variant": m.name, "hoistsProps": m.variant.HoistProps, "bodyVia": viaOf[wc.ID], "a": a.wireRec(), "b": b.wireRec()})
			info[cid] = map[string]any{"variant": m.name, "operation": wc.Op, "original": a.wireRec(), "rewritten": b.wireRec()}
			pairs++
		}
		for _, rc := range packRaw[m.pack] {
			a, b := oa[rc.ID], ob[rc.ID]
			if a == nil || b == nil {
				continue
			}
			cid := m.id + "/" + rc.ID
			add(map[string]any{"ev": "Pair", "case": cid, "kind": "raw", "variant": m.name, "hoistsProps": m.variant.HoistProps, "bodyVia": viaOf[rc.ID], "a": a.rawRec(), "b": b.rawRec()})
			info[cid] = map[string]any{"variant": m.name, "request": map[string]any{"method": rc.Method, "path": rc.Path, "rawQuery": rc.RawQuery, "headers": rc.Headers, "body": trunc(rc.Body, 300)}, "original": a.rawRec(), "rewritten": b.rawRec()}
			pairs++
		}
	}
	jr, err := core.Judge("Trace_Refs", events, nil)
	if err != nil {
		c.HarnessError(err.Error())
		return
	}
	c.AddTLC(jr.TLC)
	c.Add("traces_validated_against_impl", int64(pairs))
	c.Add("evaluations", int64(pairs))
	c.Add("programs", int64(len(sc.Pkgs)))
	c.Add("distinct_nontrivial", int64(jr.Nontriv))
	c.Cov["exhaustive"] = false
	c.Cov["rule"] = "TLC (MC_Refs) enumerates every rewrite variant (category of reference sites -> keep / inline / hoist) and checks that a rewritten site resolves to the same target; packs of pre-flighted wire operations (schemas, parameters, request bodies, responses, headers, each partly inline and partly $ref / alias) are rewritten inline-all, hoist-all, hoist-props and by seeded TLC variants; original and rewritten packages are generated, compiled and given the same client calls (same seeds) and the same raw near-miss requests; TLC (Trace_Refs) compares build outcome, wire request, parse outcome, written response and returned value; non-trivial = pairs that were given equal request values / whose raw request reached a handler"
	c.Cov["bounds"] = map[string]any{"packs": nPacks, "operations_per_pack": opsPerPack, "variants_per_pack": 3 + nPartial, "tlc_variants": len(tlcVariants)}
	for cid, v := range info {
		if strings.Contains(cid, "/w") {
			c.Sample(map[string]any{"case": cid, "pair": v})
			break
		}
	}
	byKF := map[string]int{}
	for _, rj := range jr.Rejects {
		byKF[rj.KF]++
		if rj.KF != "" && c.Known(rj.KF) {
			continue
		}
		c.Violation(map[string]any{"case": rj.Case, "pair": info[rj.Case], "reject": rj}, fmt.Sprintf("$ref and inline forms behave differently: %s: %s", rj.Case, trunc(fmt.Sprint(info[rj.Case]), 900)))
	}
	c.Cov["rejected_by_finding"] = byKF
}
