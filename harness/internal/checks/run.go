// Package checks holds one file per property (or property family).
package checks

import (
	"encoding/json"
	"fmt"
	"os"
	"sort"

	"verif/internal/core"
)

type checkFn func(c *core.Check)

var registry = map[string]struct {
	level string
	fn    checkFn
}{}

func register(id, level string, fn checkFn) {
	registry[id] = struct {
		level string
		fn    checkFn
	}{level, fn}
}

// Run executes one property's check and returns the exit code.
func Run(id, tier string, seed int64) (code int) {
	e, ok := registry[id]
	if !ok {
		ids := []string{}
		for k := range registry {
			ids = append(ids, k)
		}
		sort.Strings(ids)
		fmt.Printf("unknown property %q (have %v)\n", id, ids)
		return 2
	}
	if !core.HooksEnabled {
		fmt.Println("HARNESS-ERROR verifctl was built without -tags verif")
		return 2
	}
	c := core.NewCheck(id, tier, seed, e.level)
	defer func() {
		if p := recover(); p != nil {
			c.HarnessError(fmt.Sprintf("panic in check: %v", p))
			code = c.Finish()
			if code == 0 {
				code = 2
			}
		}
	}()
	e.fn(c)
	return c.Finish()
}

// Replay re-runs the check a replay file came from, with its tier and seed, and
// reports whether the recorded case is rejected again.
func Replay(path string) int {
	bs, err := os.ReadFile(path)
	if err != nil {
		fmt.Println("HARNESS-ERROR " + err.Error())
		return 2
	}
	var r struct {
		Property string `json:"property"`
		Tier     string `json:"tier"`
		Seed     int64  `json:"seed"`
	}
	if err := json.Unmarshal(bs, &r); err != nil {
		fmt.Println("HARNESS-ERROR " + err.Error())
		return 2
	}
	os.Setenv("VERIF_REPLAY_FILE", path)
	code := Run(r.Property, r.Tier, r.Seed)
	if code == 0 {
		fmt.Printf("replay: the recorded case of %s is no longer rejected\n", path)
	}
	return code
}
