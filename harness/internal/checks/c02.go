package checks

import (
	"encoding/json"
	"fmt"
	"sort"
	"time"

	"verif/driver"
	"verif/internal/aspec"
	"verif/internal/core"
)

// checkC02Static is the "what does not type-check" half of C02: for every operation the set of
// concrete package types that implement its response interface must be exactly its documented
// responses (inline ones, component responses through alias chains, a component shared by two
// statuses counted once).  Implementer sets come from reflection over the registry of all
// package-level named types; the expected count is computed from the ASpec.
func checkC02Static(c *core.Check, sc *core.Scratch, specs map[string]*aspec.ASpec, groups []driver.Group) {
	var ig []driver.Group
	for _, g := range groups {
		ig = append(ig, driver.Group{Pkg: g.Pkg, Kind: "iface"})
	}
	evs, _, err := sc.Run(ig, 5*time.Minute)
	if err != nil {
		c.HarnessError(err.Error())
		return
	}
	pkg := ""
	nOps := 0
	for _, raw := range evs {
		var e map[string]any
		json.Unmarshal(raw, &e)
		switch e["ev"] {
		case "Group":
			pkg, _ = e["pkg"].(string)
		case "Iface":
			nOps++
			opID, _ := e["op"].(string)
			a := specs[pkg]
			want := -1
			for _, pi := range a.Paths {
				for _, op := range pi.Ops {
					if op.Method+" "+aspec.TemplateString(pi.Template) == opID {
						ids := map[string]bool{}
						for _, rr := range op.Responses {
							if rr.Ref == "" {
								ids["inline:"+rr.Status] = true
								continue
							}
							name := rr.Ref
							for hops := 0; hops < 6; hops++ {
								for _, nr := range a.Responses {
									if nr.Name == name && nr.Alias != "" {
										name = nr.Alias
									}
								}
							}
							ids["component:"+name] = true
						}
						want = len(ids)
					}
				}
			}
			var impl []string
			for _, x := range e["implementers"].([]any) {
				impl = append(impl, x.(string))
			}
			sort.Strings(impl)
			if want >= 0 && len(impl) != want {
				c.Violation(map[string]any{"package": pkg, "operation": opID, "implementers": impl, "documented_identities": want, "aspec": a},
					fmt.Sprintf("operation %s: %d package types implement its response interface %v, the spec documents %d responses", opID, len(impl), impl, want))
			}
		}
	}
	c.Cov["static_operations_checked"] = nOps
}
