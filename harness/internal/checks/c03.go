package checks

import (
	"encoding/json"
	"fmt"
	"math/rand"
	"sort"
	"strings"
	"time"

	"verif/driver"
	"verif/internal/aspec"
	"verif/internal/core"
)

func init() { register("C03", "model_checking", checkC03) }

type tset struct {
	Set []struct {
		T  []aspec.Seg `json:"t"`
		Ms []string    `json:"ms"`
	} `json:"set"`
}

// routerSets asks TLC (MC_Router, emission configuration) for every template set of the universe.
func routerSets(c *core.Check, cfg string) ([]tset, bool) {
	r, err := core.RunTLC(core.TLCOpts{Module: "MC_Router", Cfg: cfg, Workers: 8, Timeout: 10 * time.Minute, Heap: "8g"})
	if err != nil || r.Error != "" || r.InvViolated != "" {
		c.HarnessError(fmt.Sprintf("MC_Router %s: %v %s %s", cfg, err, r.Error, r.InvViolated))
		return nil, false
	}
	var out []tset
	for _, j := range r.JSON {
		var s tset
		if json.Unmarshal(j, &s) == nil && len(s.Set) > 0 {
			out = append(out, s)
		}
	}
	sort.Slice(out, func(i, j int) bool { return fmt.Sprint(out[i]) < fmt.Sprint(out[j]) })
	return out, len(out) > 0
}

func simpleOp(method string, tmpl []aspec.Seg) aspec.Op {
	op := aspec.Op{Method: method, Security: aspec.Sec{K: "inherit"}, Body: aspec.Body{K: "none"},
		Responses: []aspec.RespRef{{Status: "200"}}}
	for _, s := range tmpl {
		if s.K == "var" {
			op.Params = append(op.Params, aspec.Param{In: "path", Name: s.S, Req: true, Schema: aspec.Schema{K: "string"}})
		}
	}
	return op
}

// mount renames variables by position and prepends literal prefix segments.
func mount(prefix []string, t []aspec.Seg) []aspec.Seg {
	return mountNamed(prefix, t, "x")
}

// varLetters: templates of one set get different variable names for the same position (and names that
// sort before and after literal segments), as real specs do: /{account}/{kind}/items next to /{org}/admin.
var varLetters = []string{"x", "org", "account", "zeta", "Kind", "b", "m_id"}

func mountNamed(prefix []string, t []aspec.Seg, letter string) []aspec.Seg {
	var out []aspec.Seg
	for _, p := range prefix {
		out = append(out, aspec.Seg{K: "lit", S: p})
	}
	n := 0
	for _, s := range t {
		if s.K == "var" {
			n++
			out = append(out, aspec.Seg{K: "var", S: fmt.Sprintf("%s%d", letter, n)})
		} else {
			out = append(out, s)
		}
	}
	return out
}

func allPaths(alpha []string, depth int) [][]string {
	out := [][]string{{}}
	level := [][]string{{}}
	for d := 1; d <= depth; d++ {
		var next [][]string
		for _, p := range level {
			for _, a := range alpha {
				q := append(append([]string{}, p...), a)
				next = append(next, q)
			}
		}
		out = append(out, next...)
		level = next
	}
	return out
}

func baseForms() []aspec.Base {
	return []aspec.Base{
		{Form: "none"},
		{Form: "servers", Segs: []string{"v1"}},
		{Form: "servers", Segs: []string{"v1"}, TrailingSlash: true},
		{Form: "servers", Segs: []string{}},                                // url "/"
		{Form: "servers", Segs: []string{"api", "v1"}, Absolute: true},     // https://host:port/api/v1
		{Form: "servers", Segs: []string{"api", "v2"}, ViaVariables: true}, // /api/{ver}
		{Form: "servers", Segs: []string{"v3"}, ViaVariables: true, Absolute: true, TrailingSlash: true},
		{Form: "flag", Segs: []string{"f1"}},
		{Form: "flag", Segs: []string{"f1", "f2"}, TrailingSlash: true},
		{Form: "flag", Segs: []string{}, AlsoServers: true}, // --basepath / overrides servers[0] (no base path at all)
		{Form: "flag", Segs: []string{"f3"}, AlsoServers: true},
		{Form: "servers", Segs: []string{"eu", "x", "eu"}, ViaVariables: true, RepeatVar: true},             // /{ver}/x/{ver}
		{Form: "servers", Segs: []string{"api", "v7"}, ViaVariables: true, Absolute: true, RepeatVar: true}, // https://{ver}.{host}/api/{ver}
		{Form: "servers", Segs: []string{"café", "my api"}, Absolute: true},                                 // percent-encoded in the URL: /caf%C3%A9/my%20api
		{Form: "flag", Segs: []string{"a+b", "50%"}},
	}
}

func checkC03(c *core.Check) {
	c.Assumptions = []string{
		"reading of DESIGN §11: candidates have the request's method and match segment for segment beneath the normalised base path; any non-dominated candidate is an admissible dispatch; a variable matches any segment including the empty one",
		"requests are http.Request values with arbitrary URL.Path served through API.ServeHTTP in-process (no net/http path cleaning)",
		"path variables are declared as string parameters; handlers answer with the operation's first documented response",
	}
	thorough := c.Tier == "thorough"
	// 1. design check(s)
	cfgs := []string{"MC_Router.cfg"}
	if thorough {
		cfgs = []string{"MC_Router_thorough.cfg", "MC_Router_set3.cfg"}
	}
	for _, cf := range cfgs {
		r, err := core.RunTLC(core.TLCOpts{Module: "MC_Router", Cfg: cf, Workers: 16, Timeout: 40 * time.Minute, Heap: "24g"})
		if err != nil || r.Error != "" {
			c.HarnessError(fmt.Sprintf("MC_Router %s: %v %s", cf, err, r.Error))
			return
		}
		if r.InvViolated != "" {
			c.Note("MODEL: design check %s reports %s violated: the model of the generated route functions admits a dispatch the Prop layer forbids", cf, r.InvViolated)
		}
		c.AddTLC(r)
	}
	// 2. template sets from TLC
	sets, ok := routerSets(c, "MC_Router_emit.cfg")
	if !ok {
		return
	}
	rng := rand.New(rand.NewSource(c.Seed))
	rng.Shuffle(len(sets), func(i, j int) { sets[i], sets[j] = sets[j], sets[i] })
	// stratified sample: sets whose templates interact (same length, unifiable: some request matches both, or they
	// share a variable prefix and then diverge literal / variable) come first - that is where precedence,
	// fall-back and tree-construction order matter; the rest follows
	sort.SliceStable(sets, func(i, j int) bool { return interacting(sets[i]) && !interacting(sets[j]) })
	{
		var inter, rest []tset
		for _, s := range sets {
			if interacting(s) {
				inter = append(inter, s)
			} else {
				rest = append(rest, s)
			}
		}
		var mixed []tset
		for len(inter) > 0 || len(rest) > 0 {
			for k := 0; k < 2 && len(inter) > 0; k++ {
				mixed = append(mixed, inter[0])
				inter = inter[1:]
			}
			if len(rest) > 0 {
				mixed = append(mixed, rest[0])
				rest = rest[1:]
			}
		}
		sets = mixed
	}
	nPacked, nRoot, depth := 48, 8, 4
	if thorough {
		nPacked, nRoot, depth = 120, 12, 5
	}
	if nPacked > len(sets) {
		nPacked = len(sets)
	}
	specs := map[string]*aspec.ASpec{}
	var groups []pGroup
	alpha := []string{"a", "b", "z", ""}
	methods := []string{"GET", "POST", "DELETE"}
	// further undeclared methods, one per request path in turn (to the model they are all "a method no operation has";
	// an implementation may be tempted to relate them to declared ones: HEAD to GET, case folding, ...)
	oddMethods := []string{"HEAD", "get", "PATCH", "OPTIONS", "PUT", "TRACE", "Post", "PURGE", "CONNECT"}
	reqPaths := allPaths(alpha, depth)
	caseN := 0
	newCase := func() string { caseN++; return fmt.Sprintf("c%d", caseN) }

	// 2a. packed: sets mounted under unique literal prefixes of one ASpec (per 150 sets)
	perPkg := 150
	for start := 0; start < nPacked; start += perPkg {
		end := start + perPkg
		if end > nPacked {
			end = nPacked
		}
		id := fmt.Sprintf("pk%d", start/perPkg)
		a := &aspec.ASpec{Base: aspec.Base{Form: "servers", Segs: []string{"v1"}}, SpecName: "openapi.yaml", Flags: aspec.Flags{APIHandler: true, DoNotEdit: true}, Security: aspec.Sec{K: "none"}}
		g := pGroup{Pkg: id, ASpec: a, API: driver.APIConfig{Mw: 1, NotFound: true, Spec: true}}
		for si := start; si < end; si++ {
			prefix := fmt.Sprintf("s%04d", si)
			for mi, m := range sets[si].Set {
				// variable names differ between the templates of a set; which template's names sort first alternates
				li := mi
				if si%2 == 1 {
					li = len(sets[si].Set) - 1 - mi
				}
				t := mountNamed([]string{prefix}, m.T, []string{"acct", "org", "zeta"}[li%3])
				pi := aspec.PathItem{Template: t}
				for _, meth := range m.Ms {
					pi.Ops = append(pi.Ops, simpleOp(meth, t))
				}
				a.Paths = append(a.Paths, pi)
			}
			for _, p := range reqPaths {
				for _, meth := range methods {
					path := "/v1/" + prefix
					for _, s := range p {
						path += "/" + s
					}
					g.Cases = append(g.Cases, mkReq(newCase(), meth, path, nil, a))
					if meth == "GET" {
						g.Cases = append(g.Cases, mkReq(newCase(), oddMethods[caseN%len(oddMethods)], path, nil, a))
					}
				}
			}
		}
		// base-path near misses and foreign prefixes for the packed spec
		for _, path := range []string{"", "*", "/", "/v1", "/v1/", "/v1x/s0000/a", "/v", "/s0000/a", "//v1/s0000/a", "/v1//s0000/a", "/v1/openapi.yaml", "/openapi.yaml", "/v1/openapi.yaml/", "/V1/s0000/a"} {
			for _, meth := range []string{"GET", "POST"} {
				g.Cases = append(g.Cases, mkReq(newCase(), meth, path, nil, a))
			}
		}
		specs[id] = a
		groups = append(groups, g)
	}
	// 2a'. deep: the same sets under literal prefixes of three and of five segments, so that their templates part at
	// depth 4 .. 8 (tree nodes with several children far from the root)
	for di, deep := range [][]string{{"m", "n"}, {"m", "n", "o", "q"}} {
		nDeep := 12
		if thorough {
			nDeep = 80
		}
		taken := 0
		for si := 0; taken < nDeep && si < len(sets); si++ {
			// (sets in which two templates part at their first segment and both go on below it: the node at the end of
			// the prefix then has two inner children; one package per set, so that a set whose package does not build -
			// C01's business - does not hide the others)
			inner := map[string]bool{}
			for _, m := range sets[si].Set {
				if len(m.T) >= 2 {
					inner[m.T[0].K+":"+m.T[0].S] = true
				}
			}
			if len(inner) < 2 {
				continue
			}
			taken++
			id := fmt.Sprintf("dp%dx%d", di, taken)
			a := &aspec.ASpec{Base: aspec.Base{Form: "servers", Segs: []string{"v1"}}, SpecName: "openapi.yaml", Flags: aspec.Flags{APIHandler: true, DoNotEdit: true}, Security: aspec.Sec{K: "none"}}
			g := pGroup{Pkg: id, ASpec: a, API: driver.APIConfig{Mw: 1, NotFound: true}}
			prefix := append([]string{fmt.Sprintf("s%04d", si)}, deep...)
			for mi, m := range sets[si].Set {
				t := mountNamed(prefix, m.T, []string{"acct", "org", "zeta"}[mi%3])
				pi := aspec.PathItem{Template: t}
				for _, meth := range m.Ms {
					pi.Ops = append(pi.Ops, simpleOp(meth, t))
				}
				a.Paths = append(a.Paths, pi)
			}
			for _, p := range reqPaths {
				if len(p) > 3 {
					continue
				}
				path := "/v1/" + strings.Join(prefix, "/")
				for _, s := range p {
					path += "/" + s
				}
				g.Cases = append(g.Cases, mkReq(newCase(), "GET", path, nil, a))
			}
			specs[id] = a
			groups = append(groups, g)
		}
	}
	// 2b. root-level: sets unpacked at the root under every base form
	bases := baseForms()
	for k := 0; k < nRoot && k < len(sets); k++ {
		s := sets[len(sets)-1-k]
		for bi, b := range bases {
			if !thorough && (k+bi)%3 != 0 && bi > 3 {
				continue
			}
			id := fmt.Sprintf("rt%db%d", k, bi)
			a := &aspec.ASpec{Base: b, SpecName: "spec.json", Flags: aspec.Flags{APIHandler: true, DoNotEdit: true}, Security: aspec.Sec{K: "none"}}
			for mi, m := range s.Set {
				t := mountNamed(nil, m.T, varLetters[(k+bi+mi*2)%len(varLetters)])
				pi := aspec.PathItem{Template: t}
				for _, meth := range m.Ms {
					pi.Ops = append(pi.Ops, simpleOp(meth, t))
				}
				a.Paths = append(a.Paths, pi)
			}
			for _, api := range []driver.APIConfig{{Mw: 2, NotFound: false, Spec: true}, {Mw: 0, NotFound: true, Spec: false}} {
				g := pGroup{Pkg: id, ASpec: a, API: api}
				nf := b.NF()
				for _, p := range reqPaths {
					if len(p) > 4 {
						continue
					}
					for _, meth := range methods[:2] {
						path := nf
						for _, sg := range p {
							path += "/" + sg
						}
						g.Cases = append(g.Cases, mkReq(newCase(), meth, path, nil, a))
						if meth == "GET" {
							g.Cases = append(g.Cases, mkReq(newCase(), oddMethods[caseN%len(oddMethods)], path, nil, a))
						}
					}
				}
				near := []string{"", "*", "/", nf, nf + "/", nf + "x/a", nf + "/spec.json", "/spec.json", nf + "//a", "/a", "/a/b"}
				if len(b.Segs) > 0 {
					near = append(near, "/"+b.Segs[0], "/"+strings.ToUpper(b.Segs[0])+"/a", "/"+b.Segs[0]+"/", "//"+strings.Join(b.Segs, "/")+"/a")
				}
				for _, path := range near {
					g.Cases = append(g.Cases, mkReq(newCase(), "GET", path, nil, a))
				}
				groups = append(groups, g)
			}
			specs[id] = a
		}
	}
	// 2c. template pairs whose inner nodes derive the same route function name (spec/RouteNames.tla): numbered apart
	// by the generator, they must still route as their templates say
	if rsets, ok := routeNameSets(c, false); ok {
		n := 60
		if thorough {
			n = 600
		}
		step := len(rsets)/n + 1
		a := &aspec.ASpec{Base: aspec.Base{Form: "none"}, SpecName: "openapi.yaml", Flags: aspec.Flags{APIHandler: true, DoNotEdit: true}, Security: aspec.Sec{K: "none"}}
		g := pGroup{Pkg: "rn0", ASpec: a, API: driver.APIConfig{Mw: 1, NotFound: true}}
		vals := []string{"a", "d", "ad", "a_d", "Ad", "1", "zz", ""}
		k := 0
		for i := rng.Intn(step); i < len(rsets); i += step {
			prefix := fmt.Sprintf("k%04d", k)
			k++
			seen := map[string]bool{}
			for ti, t := range rsets[i].T {
				mt := append([]aspec.Seg{{K: "lit", S: prefix}}, t...)
				op := simpleOp("GET", mt)
				op.OpID = fmt.Sprintf("%sOp%d", prefix, ti)
				a.Paths = append(a.Paths, aspec.PathItem{Template: mt, Ops: []aspec.Op{op}})
			}
			// every instantiation of either template over the literals and names of the universe, plus one level less / more
			for _, t := range rsets[i].T {
				var paths []string
				paths = []string{"/" + prefix}
				for _, sg := range t {
					var next []string
					for _, p := range paths {
						if sg.K == "lit" {
							next = append(next, p+"/"+sg.S)
							continue
						}
						for _, v := range vals {
							next = append(next, p+"/"+v)
						}
					}
					for _, p := range paths {
						if !seen[p] {
							seen[p] = true
							g.Cases = append(g.Cases, mkReq(newCase(), "GET", p, nil, a))
						}
					}
					paths = next
				}
				for _, p := range paths {
					for _, q := range []string{p, p + "/s"} {
						if !seen[q] {
							seen[q] = true
							g.Cases = append(g.Cases, mkReq(newCase(), "GET", q, nil, a))
						}
					}
				}
			}
		}
		specs["rn0"] = a
		groups = append(groups, g)
		c.Cov["route_name_collision_sets_routed"] = k
	} else {
		return
	}
	run, ok := runPipeline(c, specs, groups)
	if !ok {
		return
	}
	c.Cov["exhaustive"] = false
	c.Cov["rule"] = "TLC (MC_Router) checks the model of the generated route functions against path matching for every template set x every request path of the cfg's bounds and enumerates the template sets; a seeded sample of those sets is mounted (packed under literal prefixes, and unpacked at the root under every base-path form) and EVERY request path up to the stated depth over {a,b,z,\"\"} x methods, plus base-path near misses, is served by the real generated router; TLC (Trace_Pipeline) judges which handler ran / not-found / spec file and the reported template; non-trivial = a handler, CORS or spec-file dispatch (not a plain 404)"
	c.Cov["bounds"] = map[string]any{"template_sets_in_universe": len(sets), "sets_packed": nPacked, "sets_at_root": nRoot, "base_forms": len(bases), "request_depth": depth, "design_cfgs": cfgs}
	c.Sample(map[string]any{"set": sets[0], "example_request": groups[0].Cases[0]})
	judgePipeline(c, run, specs, "routing")
}

// interacting: the set has two templates of equal length that some request path matches both,
// or that agree on a variable prefix and then diverge.
func interacting(s tset) bool {
	for i := 0; i < len(s.Set); i++ {
		for j := i + 1; j < len(s.Set); j++ {
			a, b := s.Set[i].T, s.Set[j].T
			if len(a) != len(b) {
				continue
			}
			unify := true
			hasVar := false
			for k := range a {
				if a[k].K == "lit" && b[k].K == "lit" && a[k].S != b[k].S {
					unify = false
				}
				if a[k].K == "var" || b[k].K == "var" {
					hasVar = true
				}
			}
			if unify && hasVar {
				return true
			}
			if len(a) >= 3 && a[0].K == "var" && b[0].K == "var" && a[1].K != b[1].K {
				return true
			}
		}
	}
	return false
}
