package checks

import (
	"encoding/json"
	"fmt"
	"math/rand"
	"sort"
	"strings"
	"time"

	"verif/driver"
	"verif/internal/aspec"
	"verif/internal/core"
)

func init() { register("C03", "model_checking", checkC03) }

type tset struct {
	Set []struct {
		T  []aspec.Seg `json:"t"`
		Ms []string    `json:"ms"`
	} `json:"set"`
}

// routerSets asks TLC (MC_Router, emission configuration) for every template set of the universe.
func routerSets(c *core.Check, cfg string) ([]tset, bool) {
	r, err := core.RunTLC(core.TLCOpts{Module: "MC_Router", Cfg: cfg, Workers: 8, Timeout: 10 * time.Minute, Heap: "8g"})
	if err != nil || r.Error != "" || r.InvViolated != "" {
		c.HarnessError(fmt.Sprintf("MC_Router %s: %v %s %s", cfg, err, r.Error, r.InvViolated))
		return nil, false
	}
	var out []tset
	for _, j := range r.JSON {
		var s tset
		if json.Unmarshal(j, &s) == nil && len(s.Set) > 0 {
			out = append(out, s)
		}
	}
	sort.Slice(out, func(i, j int) bool { return fmt.Sprint(out[i]) < fmt.Sprint(out[j]) })
	return out, len(out) > 0
}

func simpleOp(method string, tmpl []aspec.Seg) aspec.Op {
	op := aspec.Op{Method: method, Security: aspec.Sec{K: "inherit"}, Body: aspec.Body{K: "none"},
		Responses: []aspec.RespRef{{Status: "200"}}}
	for _, s := range tmpl {
		if s.K == "var" {
			op.Params = append(op.Params, aspec.Param{In: "path", Name: s.S, Req: true, Schema: aspec.Schema{K: "string"}})
		}
	}
	return op
}

// mount renames variables by position and prepends literal prefix segments.
func mount(prefix []string, t []aspec.Seg) []aspec.Seg {
	var out []aspec.Seg
	for _, p := range prefix {
		out = append(out, aspec.Seg{K: "lit", S: p})
	}
	n := 0
	for _, s := range t {
		if s.K == "var" {
			n++
			out = append(out, aspec.Seg{K: "var", S: fmt.Sprintf("x%d", n)})
		} else {
			out = append(out, s)
		}
	}
	return out
}

func allPaths(alpha []string, depth int) [][]string {
	out := [][]string{{}}
	level := [][]string{{}}
	for d := 1; d <= depth; d++ {
		var next [][]string
		for _, p := range level {
			for _, a := range alpha {
				q := append(append([]string{}, p...), a)
				next = append(next, q)
			}
		}
		out = append(out, next...)
		level = next
	}
	return out
}

func baseForms() []aspec.Base {
	return []aspec.Base{
		{Form: "none"},
		{Form: "servers", Segs: []string{"v1"}},
		{Form: "servers", Segs: []string{"v1"}, TrailingSlash: true},
		{Form: "servers", Segs: []string{}},                                // url "/"
		{Form: "servers", Segs: []string{"api", "v1"}, Absolute: true},     // https://host:port/api/v1
		{Form: "servers", Segs: []string{"api", "v2"}, ViaVariables: true}, // /api/{ver}
		{Form: "servers", Segs: []string{"v3"}, ViaVariables: true, Absolute: true, TrailingSlash: true},
		{Form: "flag", Segs: []string{"f1"}},
		{Form: "flag", Segs: []string{"f1", "f2"}, TrailingSlash: true},
	}
}

func checkC03(c *core.Check) {
	c.Assumptions = []string{
		"reading of DESIGN §11: candidates have the request's method and match segment for segment beneath the normalised base path; any non-dominated candidate is an admissible dispatch; a variable matches any segment including the empty one",
		"requests are http.Request values with arbitrary URL.Path served through API.ServeHTTP in-process (no net/http path cleaning)",
		"path variables are declared as string parameters; handlers answer with the operation's first documented response",
	}
	thorough := c.Tier == "thorough"
	// 1. design check(s)
	cfgs := []string{"MC_Router.cfg"}
	if thorough {
		cfgs = []string{"MC_Router_thorough.cfg", "MC_Router_set3.cfg"}
	}
	for _, cf := range cfgs {
		r, err := core.RunTLC(core.TLCOpts{Module: "MC_Router", Cfg: cf, Workers: 16, Timeout: 40 * time.Minute, Heap: "24g"})
		if err != nil || r.Error != "" {
			c.HarnessError(fmt.Sprintf("MC_Router %s: %v %s", cf, err, r.Error))
			return
		}
		if r.InvViolated != "" {
			c.Note("MODEL: design check %s reports %s violated: the model of the generated route functions admits a dispatch the Prop layer forbids", cf, r.InvViolated)
		}
		c.AddTLC(r)
	}
	// 2. template sets from TLC
	sets, ok := routerSets(c, "MC_Router_emit.cfg")
	if !ok {
		return
	}
	rng := rand.New(rand.NewSource(c.Seed))
	rng.Shuffle(len(sets), func(i, j int) { sets[i], sets[j] = sets[j], sets[i] })
	nPacked, nRoot, depth := 48, 8, 4
	if thorough {
		nPacked, nRoot, depth = 600, 40, 5
	}
	if nPacked > len(sets) {
		nPacked = len(sets)
	}
	specs := map[string]*aspec.ASpec{}
	var groups []pGroup
	alpha := []string{"a", "b", "z", ""}
	methods := []string{"GET", "POST", "DELETE"}
	reqPaths := allPaths(alpha, depth)
	caseN := 0
	newCase := func() string { caseN++; return fmt.Sprintf("c%d", caseN) }

	// 2a. packed: sets mounted under unique literal prefixes of one ASpec (per 150 sets)
	perPkg := 150
	for start := 0; start < nPacked; start += perPkg {
		end := start + perPkg
		if end > nPacked {
			end = nPacked
		}
		id := fmt.Sprintf("pk%d", start/perPkg)
		a := &aspec.ASpec{Base: aspec.Base{Form: "servers", Segs: []string{"v1"}}, SpecName: "openapi.yaml", Flags: aspec.Flags{APIHandler: true, DoNotEdit: true}, Security: aspec.Sec{K: "none"}}
		g := pGroup{Pkg: id, ASpec: a, API: driver.APIConfig{Mw: 1, NotFound: true, Spec: true}}
		for si := start; si < end; si++ {
			prefix := fmt.Sprintf("s%04d", si)
			for _, m := range sets[si].Set {
				t := mount([]string{prefix}, m.T)
				pi := aspec.PathItem{Template: t}
				for _, meth := range m.Ms {
					pi.Ops = append(pi.Ops, simpleOp(meth, t))
				}
				a.Paths = append(a.Paths, pi)
			}
			for _, p := range reqPaths {
				for _, meth := range methods {
					path := "/v1/" + prefix
					for _, s := range p {
						path += "/" + s
					}
					g.Cases = append(g.Cases, mkReq(newCase(), meth, path, nil, a))
				}
			}
		}
		// base-path near misses and foreign prefixes for the packed spec
		for _, path := range []string{"", "*", "/", "/v1", "/v1/", "/v1x/s0000/a", "/v", "/s0000/a", "//v1/s0000/a", "/v1//s0000/a", "/v1/openapi.yaml", "/openapi.yaml", "/v1/openapi.yaml/", "/V1/s0000/a"} {
			for _, meth := range []string{"GET", "POST"} {
				g.Cases = append(g.Cases, mkReq(newCase(), meth, path, nil, a))
			}
		}
		specs[id] = a
		groups = append(groups, g)
	}
	// 2b. root-level: sets unpacked at the root under every base form
	bases := baseForms()
	for k := 0; k < nRoot && k < len(sets); k++ {
		s := sets[len(sets)-1-k]
		for bi, b := range bases {
			if !thorough && (k+bi)%3 != 0 && bi > 3 {
				continue
			}
			id := fmt.Sprintf("rt%db%d", k, bi)
			a := &aspec.ASpec{Base: b, SpecName: "spec.json", Flags: aspec.Flags{APIHandler: true, DoNotEdit: true}, Security: aspec.Sec{K: "none"}}
			for _, m := range s.Set {
				t := mount(nil, m.T)
				pi := aspec.PathItem{Template: t}
				for _, meth := range m.Ms {
					pi.Ops = append(pi.Ops, simpleOp(meth, t))
				}
				a.Paths = append(a.Paths, pi)
			}
			for _, api := range []driver.APIConfig{{Mw: 2, NotFound: false, Spec: true}, {Mw: 0, NotFound: true, Spec: false}} {
				g := pGroup{Pkg: id, ASpec: a, API: api}
				nf := b.NF()
				for _, p := range reqPaths {
					if len(p) > 4 {
						continue
					}
					for _, meth := range methods[:2] {
						path := nf
						for _, sg := range p {
							path += "/" + sg
						}
						g.Cases = append(g.Cases, mkReq(newCase(), meth, path, nil, a))
					}
				}
				near := []string{"", "*", "/", nf, nf + "/", nf + "x/a", nf + "/spec.json", "/spec.json", nf + "//a", "/a", "/a/b"}
				if len(b.Segs) > 0 {
					near = append(near, "/"+b.Segs[0], "/"+strings.ToUpper(b.Segs[0])+"/a", "/"+b.Segs[0]+"/", "//"+strings.Join(b.Segs, "/")+"/a")
				}
				for _, path := range near {
					g.Cases = append(g.Cases, mkReq(newCase(), "GET", path, nil, a))
				}
				groups = append(groups, g)
			}
			specs[id] = a
		}
	}
	run, ok := runPipeline(c, specs, groups)
	if !ok {
		return
	}
	c.Cov["exhaustive"] = false
	c.Cov["rule"] = "TLC (MC_Router) checks the model of the generated route functions against path matching for every template set x every request path of the cfg's bounds and enumerates the template sets; a seeded sample of those sets is mounted (packed under literal prefixes, and unpacked at the root under every base-path form) and EVERY request path up to the stated depth over {a,b,z,\"\"} x methods, plus base-path near misses, is served by the real generated router; TLC (Trace_Pipeline) judges which handler ran / not-found / spec file and the reported template; non-trivial = a handler, CORS or spec-file dispatch (not a plain 404)"
	c.Cov["bounds"] = map[string]any{"template_sets_in_universe": len(sets), "sets_packed": nPacked, "sets_at_root": nRoot, "base_forms": len(bases), "request_depth": depth, "design_cfgs": cfgs}
	c.Sample(map[string]any{"set": sets[0], "example_request": groups[0].Cases[0]})
	judgePipeline(c, run, specs, "routing")
}
