package checks

import (
	"encoding/json"
	"fmt"
	"sort"
	"strings"
	"time"

	"verif/internal/aspec"
	"verif/internal/core"
)

// routeNameSets: the template pairs of spec/MC_RouteNames.tla whose inner nodes derive the same route function name
// (variable and literal of one name, separators that vanish, segments without letters). design: also run the design
// check of the numbering pass (Distinct, Stable).
type routeNameSet struct {
	T          [][]aspec.Seg
	OpCollides bool // RouteNames.OpCollides: the derived operation names of the two templates coincide
}

func routeNameSets(c *core.Check, design bool) ([]routeNameSet, bool) {
	if design {
		r, err := core.RunTLC(core.TLCOpts{Module: "MC_RouteNames", Cfg: "MC_RouteNames.cfg", Workers: 8, Timeout: 20 * time.Minute})
		if err != nil || r.Error != "" {
			c.HarnessError(fmt.Sprintf("MC_RouteNames: %v %s", err, r.Error))
			return nil, false
		}
		if r.InvViolated != "" {
			c.Note("MODEL: design check MC_RouteNames reports %s violated (the numbering pass does not make the route function names distinct, or renames a unique one)", r.InvViolated)
		}
		c.AddTLC(r)
	}
	er, err := core.RunTLC(core.TLCOpts{Module: "MC_RouteNames", Cfg: "MC_RouteNames_emit.cfg", Workers: 1, Timeout: 10 * time.Minute})
	if err != nil || er.Error != "" {
		c.HarnessError(fmt.Sprintf("MC_RouteNames emit: %v %s", err, er.Error))
		return nil, false
	}
	type seg struct {
		K string   `json:"k"`
		S []string `json:"s"`
	}
	seen := map[string]bool{}
	var keys []string
	sets := map[string]routeNameSet{}
	for _, j := range er.JSON {
		var v struct {
			RouteSet   [][]seg `json:"routeSet"`
			OpCollides bool    `json:"opCollides"`
		}
		if json.Unmarshal(j, &v) != nil || len(v.RouteSet) == 0 {
			continue
		}
		k := string(j)
		if seen[k] {
			continue
		}
		seen[k] = true
		var set [][]aspec.Seg
		for _, t := range v.RouteSet {
			var tt []aspec.Seg
			for _, s := range t {
				tt = append(tt, aspec.Seg{K: s.K, S: strings.Join(s.S, "")})
			}
			set = append(set, tt)
		}
		sets[k] = routeNameSet{T: set, OpCollides: v.OpCollides}
		keys = append(keys, k)
	}
	sort.Strings(keys)
	out := make([]routeNameSet, 0, len(keys))
	for _, k := range keys {
		out = append(out, sets[k])
	}
	return out, len(out) > 0
}
