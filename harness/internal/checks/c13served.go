package checks

import (
	"fmt"

	"verif/driver"
	"verif/internal/aspec"
	"verif/internal/core"
)

// c13Served runs the served half of C13: GET <base>/<spec name> through compiled generated
// packages under 0..3 middlewares, with and without SpecFileHandler; judged by Trace_Pipeline
// (Spec event iff installed and the path is <BaseNF>/<spec name>, outside every middleware,
// body byte-equal to the input file).
func c13Served(c *core.Check, events *[][]byte, caseInfo map[string]any) int {
	specs := map[string]*aspec.ASpec{}
	var groups []pGroup
	caseN := 0
	newCase := func() string { caseN++; return fmt.Sprintf("s%d", caseN) }
	// (names with one, several and no extension, a leading dot, a trailing dot)
	names := []string{"openapi.yaml", "spec.json", "api.v1.yml", "spec", ".hidden", "openapi.", "v1"}
	// (the served bytes are the file, not a rendering of it: format verbs and template actions in the text stay text)
	descs := []string{"", "one \\ back\\slash \"q\" `tick` 100% %d %s %% %v %", "multi\nline\r\nwith\ttab and unicode é ☃ {{ .Name }} %[1]d ${HOME}"}
	bases := baseForms()
	// names and base paths that need percent-encoding in a URL (the route is compared with the decoded request path)
	nB := len(bases)
	bases = append(bases, aspec.Base{Form: "servers", Segs: []string{"pet store", "v1"}}, aspec.Base{Form: "flag", Segs: []string{"caf\u00e9"}}, aspec.Base{Form: "none"})
	odd := map[int]string{nB: "openapi.yaml", nB + 1: "sp\u00e9c file.json", nB + 2: "pet store.yaml"}
	for bi, b := range bases {
		if c.Tier != "thorough" && bi%2 == 1 && bi != 3 && bi < nB {
			continue
		}
		id := fmt.Sprintf("sv%d", bi)
		name := names[bi%len(names)]
		if n, ok := odd[bi]; ok {
			name = n
		}
		a := &aspec.ASpec{Base: b, SpecName: name, InfoDesc: descs[bi%len(descs)],
			Flags: aspec.Flags{APIHandler: true, DoNotEdit: bi%2 == 0}, Security: aspec.Sec{K: "none"}}
		t := []aspec.Seg{{K: "lit", S: "a"}}
		tv := []aspec.Seg{{K: "var", S: "x"}}
		a.Paths = []aspec.PathItem{{Template: t, Ops: []aspec.Op{simpleOp("GET", t)}}, {Template: tv, Ops: []aspec.Op{simpleOp("GET", tv)}}}
		specs[id] = a
		nf := b.NF()
		for mw := 0; mw <= 3; mw++ {
			for _, installed := range []bool{true, false} {
				g := pGroup{Pkg: id, ASpec: a, API: driver.APIConfig{Mw: mw, NotFound: mw%2 == 0, Spec: installed}}
				for _, p := range []string{nf + "/" + a.SpecName, nf + "/" + a.SpecName + "/", nf + "//" + a.SpecName, "/" + a.SpecName, nf + "/x/" + a.SpecName, nf + "/a", nf + "/" + a.SpecName + "x", "/other/" + a.SpecName} {
					for _, m := range []string{"GET", "POST", "HEAD"} {
						g.Cases = append(g.Cases, mkReq(newCase(), m, p, nil, a))
					}
				}
				groups = append(groups, g)
			}
		}
	}
	run, ok := runPipeline(c, specs, groups)
	if !ok {
		return 0
	}
	judgePipeline(c, run, specs, "served spec")
	c.Cov["served"] = map[string]any{"packages": len(specs), "requests": run.requests}
	return run.requests
}
