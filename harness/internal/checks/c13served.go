package checks

import "verif/internal/core"

// c13Served runs the served half of C13 (filled in by the pipeline driver).
func c13Served(c *core.Check, events *[][]byte, caseInfo map[string]any) int { return 0 }
