package checks

import (
	"fmt"
	"math/rand"
	"strings"

	"verif/driver"
	"verif/internal/aspec"
	"verif/internal/core"
)

func init() { register("C16", "model_checking", checkC16) }

// kitchenSpec is a small spec with public and secured operations, a declared OPTIONS operation,
// header parameters and CORS enabled; extra path items (router sets) are appended by the callers.
func kitchenSpec() *aspec.ASpec {
	lit := func(s ...string) []aspec.Seg {
		var out []aspec.Seg
		for _, x := range s {
			if len(x) > 0 && x[0] == '{' {
				out = append(out, aspec.Seg{K: "var", S: x[1 : len(x)-1]})
			} else {
				out = append(out, aspec.Seg{K: "lit", S: x})
			}
		}
		return out
	}
	sec := func(alts ...[]string) aspec.Sec { return aspec.Sec{K: "list", List: alts} }
	a := &aspec.ASpec{Base: aspec.Base{Form: "servers", Segs: []string{"v1"}}, SpecName: "openapi.yaml",
		Flags: aspec.Flags{APIHandler: true, DoNotEdit: true, Cors: true}, Security: aspec.Sec{K: "none"},
		Schemes: []aspec.Scheme{{Key: "A", Kind: "bearer"}, {Key: "B", Kind: "apiKeyHeader", Name: "X-Key-B"}, {Key: "Q", Kind: "apiKeyQuery", Name: "kq"}}}
	op := func(m string, t []aspec.Seg, s aspec.Sec, hdrs ...string) aspec.Op {
		o := simpleOp(m, t)
		o.Security = s
		for _, h := range hdrs {
			o.Params = append(o.Params, aspec.Param{In: "header", Name: h, Schema: aspec.Schema{K: "string"}})
		}
		return o
	}
	inherit := aspec.Sec{K: "inherit"}
	a.Paths = []aspec.PathItem{
		{Template: lit("pub"), Ops: []aspec.Op{op("GET", lit("pub"), inherit)}},
		{Template: lit("sec"), Ops: []aspec.Op{op("GET", lit("sec"), sec([]string{"A"})), op("POST", lit("sec"), sec([]string{"B"}), "X-Req-Id"), op("PUT", lit("sec"), sec([]string{"A"}, []string{"B"})), op("DELETE", lit("sec"), sec([]string{"Q"}))}},
		{Template: lit("sec", "{id}"), Ops: []aspec.Op{op("GET", lit("sec", "{id}"), sec([]string{"A"}), "x-trace", "X-Other"), op("PATCH", lit("sec", "{id}"), sec(), "X-Trace")}},
		{Template: lit("opt"), Ops: []aspec.Op{op("GET", lit("opt"), inherit), op("OPTIONS", lit("opt"), inherit)}},
		{Template: lit("opt", "{x}"), Ops: []aspec.Op{op("GET", lit("opt", "{x}"), inherit)}},
		// a catch-all single segment: it also matches the spec-file URL, which must still win
		{Template: lit("{page}"), Ops: []aspec.Op{op("GET", lit("{page}"), inherit)}},
	}
	return a
}

func kitchenRequests(a *aspec.ASpec, newCase func() string) []driver.ReqCase {
	var out []driver.ReqCase
	creds := [][]pCred{nil, {{S: "A", C: "valid"}}, {{S: "A", C: "invalid"}}, {{S: "B", C: "valid"}}, {{S: "Q", C: "valid"}}, {{S: "A", C: "invalid"}, {S: "B", C: "valid"}}}
	for _, p := range []string{"/v1/pub", "/v1/sec", "/v1/sec/7", "/v1/sec/", "/v1/opt", "/v1/opt/zz", "/v1/nope", "/v1/pub/", "/pub", "/v1", "/v1/openapi.yaml", "/openapi.yaml", "/v1/openapi.yaml/x", "", "*"} {
		for _, m := range []string{"GET", "POST", "PUT", "DELETE", "PATCH", "OPTIONS", "HEAD"} {
			for _, cr := range creds {
				if cr != nil && (p != "/v1/sec" && p != "/v1/sec/7") {
					continue
				}
				out = append(out, mkReq(newCase(), m, p, cr, a))
			}
		}
	}
	return out
}

func checkC16(c *core.Check) {
	c.Assumptions = []string{
		"instrumented middlewares always call next; events are recorded at the call-backs (enter before next, leave after next returns)",
		"request universe: a kitchen-sink spec (public / bearer / apiKey / alternatives / declared OPTIONS / CORS) plus TLC-enumerated template sets, served under every API configuration mw in 0..4 x NotFoundHandler x SpecFileHandler x CORSHandler",
	}
	thorough := c.Tier == "thorough"
	dcfg := "MC_Pipeline.cfg"
	if thorough {
		dcfg = "MC_Pipeline_thorough.cfg"
	}
	if !pipelineDesign(c, dcfg) {
		return
	}
	sets, ok := routerSets(c, "MC_Router_emit.cfg")
	if !ok {
		return
	}
	rng := rand.New(rand.NewSource(c.Seed))
	rng.Shuffle(len(sets), func(i, j int) { sets[i], sets[j] = sets[j], sets[i] })
	nSets, depth := 10, 3
	if thorough {
		nSets, depth = 40, 3
	}
	a := kitchenSpec()
	caseN := 0
	newCase := func() string { caseN++; return fmt.Sprintf("c%d", caseN) }
	var setPaths []string
	for si := 0; si < nSets; si++ {
		prefix := fmt.Sprintf("s%04d", si)
		for mi, m := range sets[si].Set {
			t := mountNamed([]string{prefix}, m.T, varLetters[(si+mi*3)%len(varLetters)])
			pi := aspec.PathItem{Template: t}
			for _, meth := range m.Ms {
				pi.Ops = append(pi.Ops, simpleOp(meth, t))
			}
			a.Paths = append(a.Paths, pi)
		}
		for _, p := range allPaths([]string{"a", "b", "z", ""}, depth) {
			path := "/v1/" + prefix
			for _, s := range p {
				path += "/" + s
			}
			setPaths = append(setPaths, path)
		}
	}
	specs := map[string]*aspec.ASpec{"k0": a}
	var groups []pGroup
	for mw := 0; mw <= 4; mw++ {
		for _, nf := range []bool{false, true} {
			for _, sp := range []bool{false, true} {
				for _, co := range []bool{false, true} {
					if !thorough && (mw+b2i(nf)+b2i(sp)+b2i(co))%2 == 1 && mw != 4 {
						continue
					}
					g := pGroup{Pkg: "k0", ASpec: a, API: driver.APIConfig{Mw: mw, NotFound: nf, Spec: sp, Cors: co, Auth: map[string]bool{"A": true, "B": true, "Q": true}}}
					g.Cases = kitchenRequests(a, newCase)
					for _, p := range setPaths {
						for _, m := range []string{"GET", "POST", "OPTIONS"} {
							if !thorough && rng.Intn(4) != 0 {
								continue
							}
							g.Cases = append(g.Cases, mkReq(newCase(), m, p, nil, a))
						}
					}
					// every fifth request is forwarded internally by its handler to the path of another request
					for i := range g.Cases {
						if t := g.Cases[(i*7+3)%len(g.Cases)].Path; i%5 == 2 && strings.HasPrefix(t, "/") {
							g.Cases[i].Script.Forward = t
						}
					}
					groups = append(groups, g)
				}
			}
		}
	}
	nComp := 8
	if thorough {
		nComp = 60
	}
	groups = append(groups, randKitchenGroups(rng, nComp, "rk", specs, newCase)...)
	run, ok := runPipeline(c, specs, groups)
	if !ok {
		return
	}
	c.Cov["exhaustive"] = false
	c.Cov["random_compositions"] = nComp
	c.Cov["rule"] = "TLC (MC_Pipeline) explores every interleaving-free step sequence of one request through the model of ServeHTTP for middleware stacks {0,MaxMw} x targets {operation, not found, spec file, CORS} x security outcomes and checks MwAround/SingleWrite; the real generated API is then served the kitchen-sink and TLC-enumerated router universes under API configurations mw 0..4 x NotFound/Spec/CORS handlers, plus seeded random compositions of all pipeline features at once (base form x CORS x global / per-operation security over three schemes x path items with 1-4 operations x header parameters x 3 API configurations), and TLC (Trace_Pipeline) validates every MwEnter/MwLeave/Auth/Handler/NotFound/Cors/Spec/Done event; non-trivial = a handler, CORS or spec dispatch or a 401"
	c.Cov["bounds"] = map[string]any{"api_configurations": len(groups), "router_sets": nSets, "request_depth": depth}
	c.Sample(map[string]any{"api": groups[len(groups)-1].API, "request": groups[len(groups)-1].Cases[3]})
	judgePipeline(c, run, specs, "middlewares")
}

func b2i(b bool) int {
	if b {
		return 1
	}
	return 0
}
