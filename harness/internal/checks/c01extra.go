package checks

import (
	"fmt"
	"math/rand"
	"net/http"
	"os"
	"path/filepath"
	"regexp"
	"sort"
	"strings"

	"verif/internal/aspec"
	"verif/internal/core"
)

var nameShapes = []string{"lower", "camelCase", "snake_case", "kebab-case", "X-Header-Uuid", "v2", "2fa", "id", "ids", "userId", "user_ids", "a.b", "type", "func", "Upper", "with space", "émile", "x_"}
var textShapes = []string{"", "one line", "multi\nline\ntext", "has */ comment end", "has \"quotes\"", "back\\slash", "tick ` tick", "trailing newline\n", "// slashes", "tab\tseparated", "percent %d %s",
	"+build ignore", "first\n+build ignore\nlast", "go:build ignore", "first\n\n+build linux\n\nlast"}

// longText: a line of more than 100 bytes of words in several scripts (multi-byte characters around every
// byte offset a generator might wrap or cut at).
func longText(rng *rand.Rand) string {
	words := []string{"Российская", "охрана", "Århus", "voilà", "mąka", "Škoda", "你好世界", "naïve", "non\u00a0breaking", "x", "of", "the", "żółć", "Ελληνικά", "日本語のテキスト", "emoji😀face", "a"}
	var b strings.Builder
	n := 110 + rng.Intn(200)
	for b.Len() < n {
		if b.Len() > 0 {
			b.WriteByte(' ')
		}
		b.WriteString(words[rng.Intn(len(words))])
	}
	return b.String()
}

// c01ExtraSpecs: name-shape and free-text-shape axes and a few compositions.
func c01ExtraSpecs(c *core.Check, rng *rand.Rand) ([]*aspec.ASpec, []string) {
	var specs []*aspec.ASpec
	var names []string
	add := func(name string, a *aspec.ASpec) { specs = append(specs, a); names = append(names, name) }
	lit := func(x string) []aspec.Seg { return []aspec.Seg{{K: "lit", S: x}} }
	str := aspec.Schema{K: "string"}
	mk := func() (*aspec.ASpec, *aspec.Op) {
		a := &aspec.ASpec{Base: aspec.Base{Form: "none"}, SpecName: "openapi.yaml", Flags: aspec.Flags{APIHandler: true, Client: true, DoNotEdit: true}, Security: aspec.Sec{K: "none"}}
		op := simpleOp("GET", lit("n"))
		a.Paths = []aspec.PathItem{{Template: lit("n"), Ops: []aspec.Op{op}}}
		return a, &a.Paths[0].Ops[0]
	}
	for _, n := range nameShapes {
		for _, site := range []string{"property", "query", "header", "path", "schema", "responseHeader", "operationId", "twoProps"} {
			a, op := mk()
			switch site {
			case "property":
				a.Schemas = []aspec.NamedSchema{{Name: "Holder", Schema: objSchema(aspec.Prop{Name: n, Schema: str, Req: true}, aspec.Prop{Name: "zz", Schema: str})}}
				op.Responses = []aspec.RespRef{{Status: "200", R: &aspec.Response{Desc: "ok", Body: aspec.Body{K: "json", Schema: &aspec.Schema{K: "ref", To: "Holder"}}}}}
			case "twoProps":
				other := strings.ToUpper(n[:1]) + n[1:]
				if other == n {
					other = n + "_"
				}
				a.Schemas = []aspec.NamedSchema{{Name: "Holder", Schema: objSchema(aspec.Prop{Name: n, Schema: str}, aspec.Prop{Name: other, Schema: str})}}
				op.Responses = []aspec.RespRef{{Status: "200", R: &aspec.Response{Desc: "ok", Body: aspec.Body{K: "json", Schema: &aspec.Schema{K: "ref", To: "Holder"}}}}}
			case "query", "header":
				if site == "header" && strings.ContainsAny(n, " é") {
					continue
				}
				op.Params = append(op.Params, aspec.Param{In: site, Name: n, Schema: aspec.Schema{K: "int32"}})
			case "path":
				if strings.ContainsAny(n, " ./") {
					continue
				}
				t := []aspec.Seg{{K: "lit", S: "n"}, {K: "var", S: n}}
				o2 := simpleOp("GET", t)
				a.Paths = []aspec.PathItem{{Template: t, Ops: []aspec.Op{o2}}}
			case "schema":
				if strings.ContainsAny(n, " é") {
					continue
				}
				a.Schemas = []aspec.NamedSchema{{Name: n, Schema: objSchema(aspec.Prop{Name: "a", Schema: str})}}
				op.Responses = []aspec.RespRef{{Status: "200", R: &aspec.Response{Desc: "ok", Body: aspec.Body{K: "json", Schema: &aspec.Schema{K: "ref", To: n}}}}}
			case "responseHeader":
				if strings.ContainsAny(n, " é") {
					continue
				}
				op.Responses = []aspec.RespRef{{Status: "200", R: &aspec.Response{Desc: "ok", Headers: []aspec.Header{{Name: n, Schema: str}}, Body: aspec.Body{K: "none"}}}}
			case "operationId":
				op.OpID = n
			}
			add(fmt.Sprintf("name:%s@%s", n, site), a)
		}
	}
	shapes := append([]string{}, textShapes...)
	for i := 0; i < 6; i++ {
		shapes = append(shapes, longText(rng))
	}
	shapes = append(shapes, longText(rng)+"\n"+longText(rng))
	for _, tx := range shapes {
		for _, site := range []string{"info", "summary", "opDescription", "schema", "property", "param", "response", "componentResponse", "title"} {
			a, op := mk()
			switch site {
			case "info":
				a.InfoDesc = tx
			case "title":
				a.Title = "t " + tx
			case "summary":
				op.Summary = tx
			case "opDescription":
				op.Desc = tx
			case "schema":
				s := objSchema(aspec.Prop{Name: "a", Schema: str})
				s.Desc = tx
				a.Schemas = []aspec.NamedSchema{{Name: "Holder", Schema: s}}
				op.Responses = []aspec.RespRef{{Status: "200", R: &aspec.Response{Desc: "ok", Body: aspec.Body{K: "json", Schema: &aspec.Schema{K: "ref", To: "Holder"}}}}}
			case "property":
				ps := str
				ps.Desc = tx
				a.Schemas = []aspec.NamedSchema{{Name: "Holder", Schema: objSchema(aspec.Prop{Name: "a", Schema: ps})}}
				op.Responses = []aspec.RespRef{{Status: "200", R: &aspec.Response{Desc: "ok", Body: aspec.Body{K: "json", Schema: &aspec.Schema{K: "ref", To: "Holder"}}}}}
			case "param":
				op.Params = append(op.Params, aspec.Param{In: "query", Name: "q", Schema: str, Desc: tx})
			case "response":
				op.Responses = []aspec.RespRef{{Status: "200", R: &aspec.Response{Desc: tx, Body: aspec.Body{K: "json", Schema: &str}}}}
			case "componentResponse":
				a.Responses = []aspec.NamedResponse{{Name: "R", R: &aspec.Response{Desc: tx, Body: aspec.Body{K: "json", Schema: &str}}}}
				op.Responses = []aspec.RespRef{{Status: "200", Ref: "R"}}
			}
			add(fmt.Sprintf("text:%q@%s", tx, site), a)
		}
	}
	// flags and special configurations
	for i, fl := range []aspec.Flags{{}, {Client: true}, {APIHandler: true}, {Client: true, Cors: true}, {APIHandler: true, Cors: true, DoNotEdit: true}} {
		a := kitchenSpec()
		a.Flags = fl
		nm := fmt.Sprintf("kitchen:flags%d", i)
		if fl.Client && !fl.APIHandler {
			nm = "kitchen:client-without-handler"
		}
		add(nm, a)
	}
	// names of the spec file (and with them of the served spec): no extension, a leading dot, a trailing dot, several dots
	for _, n := range []string{"spec", ".hidden", "openapi.", "api.v1.yml", "v1"} {
		a := kitchenSpec()
		a.SpecName = n
		add("specname:"+n, a)
	}
	{
		a, op := mk()
		a.Schemes = []aspec.Scheme{{Key: "Q", Kind: "apiKeyQuery", Name: "key"}}
		op.Security = aspec.Sec{K: "list", List: [][]string{{"Q"}}}
		add("security:query-only-apikey", a)
	}
	{
		a, op := mk()
		a.Schemes = []aspec.Scheme{{Key: "H", Kind: "apiKeyHeader", Name: "X-Api-Key"}}
		op.Security = aspec.Sec{K: "list", List: [][]string{{"H"}}}
		op.Params = append(op.Params, aspec.Param{In: "header", Name: "X-Api-Key", Schema: str})
		add("security:apikey-header-also-declared-parameter", a)
	}
	{
		// two templates whose route function names coincide
		a, _ := mk()
		t1 := []aspec.Seg{{K: "lit", S: "a"}, {K: "var", S: "b"}, {K: "lit", S: "c"}}
		t2 := []aspec.Seg{{K: "lit", S: "a"}, {K: "lit", S: "b"}, {K: "lit", S: "d"}}
		a.Paths = []aspec.PathItem{{Template: t1, Ops: []aspec.Op{simpleOp("GET", t1)}}, {Template: t2, Ops: []aspec.Op{simpleOp("GET", t2)}}}
		add("router:static-and-variable-child-same-name", a)
	}
	// template pairs whose inner nodes derive the same route function name (MC_RouteNames): every one must compile
	if rsets, ok := routeNameSets(c, c.Tier == "thorough"); ok {
		step := 1
		if c.Tier != "thorough" {
			step = len(rsets)/150 + 1
		}
		for i := rng.Intn(step); i < len(rsets); i += step {
			// with operationIds (only the route functions are derived names) and without (the operations' names are
			// derived too; where the model says those coincide the cell is the open finding)
			for _, ids := range []bool{true, false} {
				a, _ := mk()
				a.Paths = nil
				for ti, t := range rsets[i].T {
					op := simpleOp("GET", t)
					if ids {
						op.OpID = fmt.Sprintf("op%d", ti)
					}
					a.Paths = append(a.Paths, aspec.PathItem{Template: t, Ops: []aspec.Op{op}})
				}
				axis := "routenames"
				if !ids && rsets[i].OpCollides {
					axis = "routenames-opcollide"
				}
				add(fmt.Sprintf("%s:%s+%s ids=%v", axis, aspec.TemplateString(rsets[i].T[0]), aspec.TemplateString(rsets[i].T[1]), ids), a)
			}
		}
	} else {
		return nil, nil
	}
	// the same pairs far from the root: mounted under three and under five literal segments
	if rsets, ok := routeNameSets(c, false); ok {
		for di, deep := range [][]string{{"k", "m", "n"}, {"k", "m", "n", "o", "q"}} {
			step := len(rsets)/40 + 1
			for i := rng.Intn(step); i < len(rsets); i += step {
				a, _ := mk()
				a.Paths = nil
				for ti, t := range rsets[i].T {
					var mt []aspec.Seg
					for _, d := range deep {
						mt = append(mt, aspec.Seg{K: "lit", S: d})
					}
					mt = append(mt, t...)
					op := simpleOp("GET", mt)
					op.OpID = fmt.Sprintf("op%d", ti)
					a.Paths = append(a.Paths, aspec.PathItem{Template: mt, Ops: []aspec.Op{op}})
				}
				add(fmt.Sprintf("routenames-deep%d:%s+%s", di, aspec.TemplateString(rsets[i].T[0]), aspec.TemplateString(rsets[i].T[1])), a)
			}
		}
	}
	// names taken from the generator's own vocabulary: every word of an identifier or string in goag's sources and
	// templates, as a literal path segment next to a variable segment (route function names), as a property name
	// (field names next to generated methods) and as a query parameter name - the names most likely to meet a name
	// the generated code uses for itself
	words := generatorWords()
	for start := 0; start < len(words); start += 40 {
		end := start + 40
		if end > len(words) {
			end = len(words)
		}
		a, _ := mk()
		a.Paths = nil
		var props []aspec.Prop
		for i, w := range words[start:end] {
			n := fmt.Sprintf("n%d", i)
			t1 := []aspec.Seg{{K: "lit", S: n}, {K: "var", S: "v"}, {K: "lit", S: "x"}}
			t2 := []aspec.Seg{{K: "lit", S: n}, {K: "lit", S: w}, {K: "lit", S: "y"}}
			o1 := simpleOp("GET", t1)
			o1.Params = append(o1.Params, aspec.Param{In: "query", Name: w, Schema: str})
			a.Paths = append(a.Paths, aspec.PathItem{Template: t1, Ops: []aspec.Op{o1}}, aspec.PathItem{Template: t2, Ops: []aspec.Op{simpleOp("GET", t2)}})
			props = append(props, aspec.Prop{Name: w, Schema: str, Req: i%2 == 0})
		}
		a.Schemas = []aspec.NamedSchema{{Name: "Holder", Schema: objSchema(props...)}}
		t := lit("holder")
		op := simpleOp("GET", t)
		op.Responses = []aspec.RespRef{{Status: "200", R: &aspec.Response{Desc: "ok", Body: aspec.Body{K: "json", Schema: &aspec.Schema{K: "ref", To: "Holder"}}}}}
		a.Paths = append(a.Paths, aspec.PathItem{Template: t, Ops: []aspec.Op{op}})
		add(fmt.Sprintf("vocabulary:%s..%s", words[start], words[end-1]), a)
	}
	{
		// an alias of a component response whose JSON body is an inline object
		a, op := mk()
		body := objSchema(aspec.Prop{Name: "ok", Schema: aspec.Schema{K: "bool"}, Req: true})
		a.Responses = []aspec.NamedResponse{{Name: "Base", R: &aspec.Response{Desc: "b", Body: aspec.Body{K: "json", Schema: &body}}}, {Name: "BaseAlias", Alias: "Base"}}
		op.Responses = []aspec.RespRef{{Status: "200", Ref: "BaseAlias"}}
		add("wireop:fixed@aliasResponseInlineObjectBody", a)
	}
	{
		// primitive components whose names carry initialism-like tails, and components that are nothing but a $ref
		// to them, used where values are parsed and formatted (names are built at several sites: they must agree)
		for vi, base := range []string{"UserId", "OrderIds", "userid", "ApiURL", "HTTPCode", "X2y", "Id"} {
			a, op := mk()
			kind := []string{"string", "int64", "string", "string", "int32", "double", "string"}[vi]
			a.Schemas = []aspec.NamedSchema{{Name: base, Schema: aspec.Schema{K: kind}}, {Name: "Alias" + base, Schema: aspec.Schema{K: "ref", To: base}},
				{Name: "AliasOfAlias" + base, Schema: aspec.Schema{K: "ref", To: "Alias" + base}}}
			refTo := func(n string) aspec.Schema { return aspec.Schema{K: "ref", To: n} }
			op.Params = append(op.Params, aspec.Param{In: "query", Name: "direct", Schema: refTo(base)}, aspec.Param{In: "query", Name: "via", Req: true, Schema: refTo("Alias" + base)},
				aspec.Param{In: "header", Name: "X-Via", Schema: refTo("AliasOfAlias" + base)})
			// (not as object properties: a $ref to a primitive component there is the open finding c01-ref-nonstruct)
			op.Responses = []aspec.RespRef{{Status: "200", R: &aspec.Response{Desc: "ok", Headers: []aspec.Header{{Name: "X-Direct", Schema: refTo(base)}, {Name: "X-Alias", Req: true, Schema: refTo("Alias" + base)}},
				Body: aspec.Body{K: "none"}}}}
			t2 := []aspec.Seg{{K: "lit", S: "by"}, {K: "var", S: "key"}}
			o2 := simpleOp("GET", t2)
			o2.Params = []aspec.Param{{In: "path", Name: "key", Req: true, Schema: refTo("Alias" + base)}}
			a.Paths = append(a.Paths, aspec.PathItem{Template: t2, Ops: []aspec.Op{o2}})
			add(fmt.Sprintf("config:primitive-component-%s-and-aliases", base), a)
		}
	}
	{
		// one operation documents a component response and things that resolve to the same component under other
		// statuses: an alias of it, an alias of the alias, the component itself twice (refused today: fine, as long
		// as it is refused cleanly or what comes out compiles)
		for vi, refs := range [][]string{{"Err", "ErrAlias"}, {"ErrAlias", "Err"}, {"ErrAlias", "ErrAlias2"}, {"Err", "Err"}, {"Err", "ErrAlias", "ErrAlias2"}} {
			a, op := mk()
			a.Responses = []aspec.NamedResponse{{Name: "Err", R: &aspec.Response{Desc: "e", Headers: []aspec.Header{{Name: "X-Why", Schema: str}}, Body: aspec.Body{K: "json", Schema: &str}}},
				{Name: "ErrAlias", Alias: "Err"}, {Name: "ErrAlias2", Alias: "ErrAlias"}}
			op.Responses = []aspec.RespRef{{Status: "200", R: &aspec.Response{Desc: "ok", Body: aspec.Body{K: "none"}}}}
			for ri, r := range refs {
				op.Responses = append(op.Responses, aspec.RespRef{Status: []string{"400", "404", "409"}[ri], Ref: r})
			}
			// and a second operation using the alias alone
			t2 := []aspec.Seg{{K: "lit", S: "other"}}
			o2 := simpleOp("GET", t2)
			o2.Responses = []aspec.RespRef{{Status: "404", Ref: "ErrAlias"}}
			a.Paths = append(a.Paths, aspec.PathItem{Template: t2, Ops: []aspec.Op{o2}})
			add(fmt.Sprintf("config:component-response-and-its-alias-in-one-operation-%d", vi), a)
		}
	}
	{
		// component responses on the root path and on a trailing-slash path, no operationId
		a, _ := mk()
		a.Responses = []aspec.NamedResponse{{Name: "Ok", R: &aspec.Response{Desc: "ok", Body: aspec.Body{K: "json", Schema: &str}}}}
		root := []aspec.Seg{{K: "lit", S: ""}}
		slash := []aspec.Seg{{K: "lit", S: "a"}, {K: "lit", S: ""}}
		plain := []aspec.Seg{{K: "lit", S: "a"}}
		var items []aspec.PathItem
		for _, t := range [][]aspec.Seg{root, slash, plain} {
			o := simpleOp("GET", t)
			o.Responses = []aspec.RespRef{{Status: "200", Ref: "Ok"}}
			items = append(items, aspec.PathItem{Template: t, Ops: []aspec.Op{o}})
		}
		a.Paths = items
		add("config:component-response-on-root-and-trailing-slash", a)
	}
	// every registered status code (and a few unregistered ones), documented inline and through a shared component
	// response, with the client on: names and constants derived from a code must exist for all of them
	{
		var codes []int
		for code := 100; code < 600; code++ {
			if http.StatusText(code) != "" {
				codes = append(codes, code)
			}
		}
		codes = append(codes, 299, 499, 599)
		for start := 0; start < len(codes); start += 8 {
			end := start + 8
			if end > len(codes) {
				end = len(codes)
			}
			a, op := mk()
			a.Responses = []aspec.NamedResponse{{Name: "SharedStatus", R: &aspec.Response{Desc: "s", Headers: []aspec.Header{{Name: "X-Why", Schema: str}}, Body: aspec.Body{K: "json", Schema: &str}}}}
			op.Responses = nil
			for i, code := range codes[start:end] {
				rr := aspec.RespRef{Status: fmt.Sprint(code), R: &aspec.Response{Desc: "r", Body: aspec.Body{K: []string{"json", "none"}[i%2], Schema: &str}}}
				if i == 3 {
					rr = aspec.RespRef{Status: fmt.Sprint(code), Ref: "SharedStatus"}
				}
				op.Responses = append(op.Responses, rr)
			}
			op.Responses = append(op.Responses, aspec.RespRef{Status: "default", R: &aspec.Response{Desc: "d", Body: aspec.Body{K: "none"}}})
			// a second operation uses the shared component under another code of the chunk
			t2 := []aspec.Seg{{K: "lit", S: "again"}}
			o2 := simpleOp("POST", t2)
			o2.Responses = []aspec.RespRef{{Status: fmt.Sprint(codes[start]), Ref: "SharedStatus"}}
			a.Paths = append(a.Paths, aspec.PathItem{Template: t2, Ops: []aspec.Op{o2}})
			add(fmt.Sprintf("config:status-codes-%d-%d", codes[start], codes[end-1]), a)
		}
	}
	// random compositions of the pipeline features (randkitchen.go), with and without client
	{
		rk := rand.New(rand.NewSource(c.Seed + 101))
		nk := 12
		if c.Tier == "thorough" {
			nk = 120
		}
		for k := 0; k < nk; k++ {
			a := randKitchen(rk, k+rk.Intn(1000)*13)
			a.Flags.Client = k%2 == 0
			add(fmt.Sprintf("config:random-kitchen-%d", k), a)
		}
	}
	// random compositions: seeded operations of the wire universe one by one, and packed (client on)
	nOps := 60
	if c.Tier == "thorough" {
		nOps = 1500
	}
	var pre []core.GenJob
	var ops []wireOp
	var seeds []int64
	for k := 0; k < nOps; k++ {
		sd := rng.Int63()
		seeds = append(seeds, sd)
		a := wireCarrier(fmt.Sprintf("op%d", k), aspec.Base{Form: "none"})
		a.NoComposite = true
		w := randWireOp(a, k, rand.New(rand.NewSource(sd)))
		ops = append(ops, w)
		a.Paths = []aspec.PathItem{{Template: w.tmpl, Ops: []aspec.Op{w.op}}}
		feature := "plain"
		for _, rr := range w.op.Responses {
			if strings.HasSuffix(rr.Ref, "Alias") {
				for _, nr := range a.Responses {
					if nr.Name == strings.TrimSuffix(rr.Ref, "Alias") && nr.R != nil && nr.R.Body.K == "json" && nr.R.Body.Schema != nil && nr.R.Body.Schema.K == "object" {
						feature = "aliasResponseInlineObjectBody"
					}
				}
			}
		}
		add(fmt.Sprintf("wireop:%d@%s", k, feature), a)
		j := a.Job(fmt.Sprintf("op%d", k))
		j.Package, j.Check = "gen", true
		pre = append(pre, j)
	}
	pres := core.RunGenJobs(pre, 0)
	var good []int
	for i, r := range pres {
		if r.Builds() {
			good = append(good, i)
		}
	}
	for start := 0; start+15 <= len(good); start += 15 {
		a := wireCarrier(fmt.Sprintf("compose%d", start/15), baseForms()[(start/15)%len(baseForms())])
		a.NoComposite = true
		for _, k := range good[start : start+15] {
			w := randWireOp(a, k, rand.New(rand.NewSource(seeds[k])))
			a.Paths = append(a.Paths, aspec.PathItem{Template: w.tmpl, Ops: []aspec.Op{w.op}})
		}
		add(fmt.Sprintf("compose:%d@pack", start/15), a)
	}
	_ = ops
	return specs, names
}

var reWord = regexp.MustCompile(`[A-Za-z][a-z]{2,11}`)

// generatorWords: the lower-cased words (3-12 letters) of goag's own sources and templates, sorted.
func generatorWords() []string {
	seen := map[string]bool{}
	for _, pat := range []string{"generator/*.go", "generator/*.gotmpl", "*.go", "specification/*.go"} {
		files, _ := filepath.Glob(filepath.Join(core.RepoDir(), pat))
		for _, f := range files {
			if strings.HasSuffix(f, "_test.go") {
				continue
			}
			bs, err := os.ReadFile(f)
			if err != nil {
				continue
			}
			for _, w := range reWord.FindAllString(string(bs), -1) {
				seen[strings.ToLower(w)] = true
			}
		}
	}
	out := make([]string, 0, len(seen))
	for w := range seen {
		out = append(out, w)
	}
	sort.Strings(out)
	return out
}
