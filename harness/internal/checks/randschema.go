package checks

import (
	"encoding/json"
	"math/rand"

	"verif/internal/aspec"
)

// randSchemas: seeded random compositions of every schema construct the codec checks know - scalars, nullable,
// arrays, objects with optional / required / nullable properties and every kind of additionalProperties (scalars,
// objects, arrays, references), references to pool components and their aliases, allOf over members with disjoint
// property names (inline and $ref, one to three members, with and without a nullable wrapper), oneOf over pairwise
// exclusive variants (with and without discriminator / mapping) - nested up to depth 3.  The enumerated universe of
// MC_Codec covers each construct; these cover their combinations.  Schemas goag cannot build are sorted out by the
// pre-flight like everywhere else.
func randSchemas(rng *rand.Rand, n int) []aspec.Schema {
	seen := map[string]bool{}
	var out []aspec.Schema
	for tries := 0; len(out) < n && tries < n*20; tries++ {
		s := randSchema(rng, 0)
		if s.K != "object" && s.K != "array" && s.K != "allOf" && s.K != "oneOf" {
			continue // top level: something with structure
		}
		bs, _ := json.Marshal(s)
		if seen[string(bs)] {
			continue
		}
		seen[string(bs)] = true
		out = append(out, s)
	}
	return out
}

var rsScalarKinds = []string{"string", "int32", "int64", "double", "float", "bool", "datetime", "any"}
var rsPropNames = []string{"id", "title", "note", "count", "alpha", "beta-two", "x_y", "CamelCase", "owner", "items"}

func rsRef(n string) aspec.Schema { return aspec.Schema{K: "ref", To: n} }

func randSchema(rng *rand.Rand, depth int) aspec.Schema {
	r := rng.Intn(100)
	if depth >= 3 && r >= 40 && r < 85 {
		r = rng.Intn(40) // leaves only
	}
	switch {
	case r < 40:
		k := rsScalarKinds[rng.Intn(len(rsScalarKinds))]
		return aspec.Schema{K: k, Nullable: k != "any" && rng.Intn(5) == 0}
	case r < 55:
		it := randSchema(rng, depth+1)
		return aspec.Schema{K: "array", Items: &it}
	case r < 80:
		o := aspec.Schema{K: "object"}
		names := append([]string{}, rsPropNames...)
		rng.Shuffle(len(names), func(i, j int) { names[i], names[j] = names[j], names[i] })
		for _, n := range names[:rng.Intn(4)] {
			o.Props = append(o.Props, aspec.Prop{Name: n, Req: rng.Intn(2) == 0, Schema: randSchema(rng, depth+1)})
		}
		switch rng.Intn(6) {
		case 0:
			o.AddlK = "any"
		case 1, 2:
			// (an inline object / allOf / oneOf as the value schema is the open finding codec-addl-inline-composite;
			// MC_Codec's universe holds its representatives)
			ad := randSchema(rng, depth+2)
			for ad.K == "object" || ad.K == "allOf" || ad.K == "oneOf" || (ad.K == "array" && ad.Items != nil && (ad.Items.K == "object" || ad.Items.K == "allOf" || ad.Items.K == "oneOf")) {
				ad = randSchema(rng, depth+2)
			}
			o.AddlK, o.Addl = "schema", &ad
		}
		return o
	case r < 90:
		return rsRef([]string{"PoolA", "PoolB", "PoolC", "PoolNames", "PoolAliasA", "AaAliasA", "PoolNullStr", "PoolNullObj", "VarDog"}[rng.Intn(9)])
	case r < 95:
		// allOf: members with pairwise disjoint property names
		members := []aspec.Schema{rsRef("PoolA"), rsRef("PoolB"), rsRef("PoolC"),
			{K: "object", Props: []aspec.Prop{{Name: "extra", Schema: aspec.Schema{K: "string"}, Req: rng.Intn(2) == 0}, {Name: "more", Schema: randSchema(rng, 3)}}},
			{K: "object", Props: []aspec.Prop{{Name: "zed", Schema: aspec.Schema{K: "int64"}}}}}
		rng.Shuffle(len(members), func(i, j int) { members[i], members[j] = members[j], members[i] })
		return aspec.Schema{K: "allOf", Of: members[:1+rng.Intn(3)], Nullable: depth > 0 && rng.Intn(4) == 0}
	default:
		// oneOf: pairwise exclusive variants (every variant has a required property of its own)
		switch rng.Intn(4) {
		case 0:
			return aspec.Schema{K: "oneOf", Of: []aspec.Schema{rsRef("VarMemo"), rsRef("VarLetter")}}
		case 1:
			return aspec.Schema{K: "oneOf", Of: []aspec.Schema{rsRef("VarCircle"), rsRef("VarSquare")}, DiscProp: []string{"", "kind"}[rng.Intn(2)]}
		case 2:
			return aspec.Schema{K: "oneOf", Of: []aspec.Schema{rsRef("VarDog"), rsRef("VarCat"), rsRef("VarBird")}, DiscProp: "kind",
				DiscMap: [][]aspec.KV{nil, {{K: "kitty", V: "VarCat"}}, {{K: "d", V: "VarDog"}, {K: "b", V: "VarBird"}, {K: "b2", V: "VarBird"}}}[rng.Intn(3)]}
		}
		return aspec.Schema{K: "oneOf", Of: []aspec.Schema{rsRef("VarCat"), rsRef("VarDog")}}
	}
}
