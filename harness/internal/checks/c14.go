package checks

import (
	"encoding/json"
	"fmt"
	"math/rand"
	"net/url"
	"strings"
	"time"

	"verif/driver"
	"verif/internal/aspec"
	"verif/internal/core"
)

func init() { register("C14", "exploration", checkC14) }

// validRequest builds a request that is valid for the operation (canonical lexemes, a valid body).
func validRequest(a *aspec.ASpec, w wireOp, base string, rng *rand.Rand) driver.ReqCase {
	path := base
	for _, s := range w.tmpl {
		if s.K == "var" {
			typ := "string"
			for _, d := range w.decls {
				if d.In == "path" && d.Name == s.S {
					typ = d.Type
				}
			}
			path += "/" + pathLex[typ][0]
		} else {
			path += "/" + s.S
		}
	}
	rc := driver.ReqCase{Method: w.op.Method, Path: path, Headers: map[string][]string{}, Script: driver.Script{Parse: true, ReadBody: true}}
	q := url.Values{}
	for _, d := range w.decls {
		lx := lexOf(d.Type, "canon", rng)
		switch d.In {
		case "query":
			q.Add(d.Name, lx.Text)
		case "header":
			rc.Headers[d.Name] = []string{lx.Text}
		}
	}
	rc.RawQuery = q.Encode()
	switch rb := resolveBody(a, w.op.Body); rb.K {
	case "json":
		v := sampleValue(tlaSchema(a, *rb.Schema, 0), rng, 0)
		bs, _ := json.Marshal(v)
		rc.Body, rc.HasBody = string(bs), true
	case "raw":
		rc.Body, rc.HasBody = "raw \x00 bytes", true
	}
	return rc
}

var brokenBodies = []string{"", "{", "[1,2", "{\"a\":1}trailing", "null", "\"just a string\"", "[[[[[[[[[[[[[[[[[[[[[[[[[[[[[[[[", "{\"id\":\"not a number\"}", "\xff\xfe", "{\"id\":1,\"id\":2}", strings.Repeat("9", 400), "{\"count\":1e400}"}

// nearMisses derives structured mutations of a valid request.
func nearMisses(valid driver.ReqCase, base string, newID func() string) []driver.ReqCase {
	var out []driver.ReqCase
	add := func(mut func(rc *driver.ReqCase)) {
		rc := valid
		rc.Headers = map[string][]string{}
		for k, v := range valid.Headers {
			rc.Headers[k] = append([]string{}, v...)
		}
		mut(&rc)
		rc.ID = newID()
		out = append(out, rc)
	}
	add(func(rc *driver.ReqCase) {})
	segs := strings.Split(strings.TrimPrefix(valid.Path, "/"), "/")
	for cut := 0; cut < len(segs); cut++ {
		cut := cut
		add(func(rc *driver.ReqCase) { rc.Path = "/" + strings.Join(segs[:cut], "/") })       // truncated
		add(func(rc *driver.ReqCase) { rc.Path = "/" + strings.Join(segs[:cut], "/") + "/" }) // truncated with slash
	}
	add(func(rc *driver.ReqCase) { rc.Path = valid.Path + "/" })
	add(func(rc *driver.ReqCase) { rc.Path = valid.Path + "/extra/segments" })
	add(func(rc *driver.ReqCase) { rc.Path = strings.Replace(valid.Path, "/", "//", 2) })
	add(func(rc *driver.ReqCase) { rc.Path = strings.TrimPrefix(valid.Path, "/") })
	add(func(rc *driver.ReqCase) { rc.Path = base + "x" + strings.TrimPrefix(valid.Path, base) })
	add(func(rc *driver.ReqCase) { rc.Path = "" })
	add(func(rc *driver.ReqCase) { rc.Path = "*" })
	add(func(rc *driver.ReqCase) { rc.Path = valid.Path + strings.Repeat("/a", 3000) })
	for _, m := range []string{"", "HEAD", "OPTIONS", "TRACE", "get", "CONNECT"} {
		m := m
		add(func(rc *driver.ReqCase) { rc.Method = m })
	}
	add(func(rc *driver.ReqCase) { rc.RawQuery = "" })
	add(func(rc *driver.ReqCase) { rc.RawQuery = valid.RawQuery + "&" + valid.RawQuery })
	add(func(rc *driver.ReqCase) { rc.RawQuery = "%zz&=&&a=%" })
	add(func(rc *driver.ReqCase) {
		q, _ := url.ParseQuery(valid.RawQuery)
		for k := range q {
			q[k] = []string{""}
		}
		rc.RawQuery = q.Encode()
	})
	add(func(rc *driver.ReqCase) {
		q, _ := url.ParseQuery(valid.RawQuery)
		for k := range q {
			q[k] = []string{strings.Repeat("9", 5000)}
		}
		rc.RawQuery = q.Encode()
	})
	add(func(rc *driver.ReqCase) { rc.Headers = map[string][]string{} })
	add(func(rc *driver.ReqCase) {
		for k := range rc.Headers {
			rc.Headers[k] = []string{"", "x", strings.Repeat("h", 9000)}
		}
	})
	for _, b := range brokenBodies {
		b := b
		add(func(rc *driver.ReqCase) { rc.Body, rc.HasBody = b, true })
	}
	add(func(rc *driver.ReqCase) { rc.HasBody = false })
	add(func(rc *driver.ReqCase) { rc.Chunked = true }) // the valid body, length unknown (chunked upload)
	add(func(rc *driver.ReqCase) { rc.Chunked = true; rc.Body, rc.HasBody = "{", true })
	// the client goes away: writes fail / the context is cancelled (generated code reports through LogError)
	add(func(rc *driver.ReqCase) { rc.FailWrites = true; rc.Script.Random = true; rc.Script.Seed = 7 })
	add(func(rc *driver.ReqCase) { rc.Cancelled = true })
	add(func(rc *driver.ReqCase) {
		rc.FailWrites, rc.Cancelled = true, true
		rc.Script.Random = true
		rc.Script.Seed = 11
	})
	return out
}

func checkC14(c *core.Check) {
	c.Assumptions = []string{
		"requests are http.Request values handed to API.ServeHTTP in-process (arbitrary method, URL.Path, RawQuery, headers, body); every handler calls Parse() and answers with a documented response",
		"panics are observed with recover() around ServeHTTP and around Parse(); 'exactly one response' = exactly one WriteHeader (an implicit one counts)",
		"absence of panics is observed on the explored inputs, not proven (exploration); Go's coverage-guided fuzzer is not used in this build - the byte-level part is seeded random generation near the declared shapes",
	}
	plans := streamPlans(c, false)
	if plans == nil {
		return
	}
	thorough := c.Tier == "thorough"
	if thorough {
		// "always answers" at the design level: under weak fairness every received request reaches "done" (liveness,
		// checked without a state constraint)
		if !pipelineDesign(c, "MC_Pipeline_live.cfg") {
			return
		}
		c.Cov["liveness_checked"] = "MC_Pipeline_live.cfg: (pc = recv) ~> (pc = done) under WF_vars(Next)"
	}
	if !pipelineDesign(c, "MC_Pipeline.cfg") {
		return
	}
	rng := rand.New(rand.NewSource(c.Seed))
	nOps, perPkg, fuzzN := 40, 20, 40000
	nBodyDocs := 8
	if thorough {
		nOps, fuzzN = 400, 3000000
		nBodyDocs = 20
	}
	// operations: the wire universe (typed parameters, JSON / raw bodies), pre-flighted
	var seeds []int64
	var pre []core.GenJob
	for k := 0; k < nOps; k++ {
		sd := rng.Int63()
		seeds = append(seeds, sd)
		a := wireCarrier(fmt.Sprintf("pre%d", k), aspec.Base{Form: "none"})
		a.Flags.Client = false
		w := randWireOp(a, k, rand.New(rand.NewSource(sd)))
		a.Paths = []aspec.PathItem{{Template: w.tmpl, Ops: []aspec.Op{w.op}}}
		j := a.Job(fmt.Sprintf("pre%d", k))
		j.Package, j.Check = "gen", true
		pre = append(pre, j)
	}
	pres := core.RunGenJobs(pre, 0)
	var good []int
	for i, r := range pres {
		if strings.HasPrefix(r.Err, "HARNESS") {
			c.HarnessError("pre-flight: " + r.Err)
			return
		}
		if r.Builds() {
			good = append(good, i)
		}
	}
	if len(good) < 3 {
		c.HarnessError("too few operations build")
		return
	}
	var jobs []core.GenJob
	var groups []driver.Group
	caseN := 0
	newID := func() string { caseN++; return fmt.Sprintf("c%d", caseN) }
	info := map[string]driver.ReqCase{}
	bases := baseForms()
	for start := 0; start < len(good); start += perPkg {
		end := start + perPkg
		if end > len(good) {
			end = len(good)
		}
		id := fmt.Sprintf("an%d", start/perPkg)
		base := bases[(start/perPkg)%len(bases)]
		a := wireCarrier(id, base)
		a.Flags.Client = false
		a.Flags.Cors = true
		a.Schemes = []aspec.Scheme{{Key: "A", Kind: "bearer"}}
		g := driver.Group{Pkg: id, Kind: "pipeline", API: driver.APIConfig{Mw: 1, Spec: true, Cors: true, Auth: map[string]bool{"A": true}, Schemes: []driver.SchemeInfo{{Key: "A", Kind: "bearer"}}}}
		var names []string
		for _, k := range good[start:end] {
			w := randWireOp(a, k, rand.New(rand.NewSource(seeds[k])))
			if k%5 == 0 {
				w.op.Security = aspec.Sec{K: "list", List: [][]string{{"A"}}}
			}
			a.Paths = append(a.Paths, aspec.PathItem{Template: w.tmpl, Ops: []aspec.Op{w.op}})
			for _, d := range w.decls {
				names = append(names, d.Name)
			}
			valid := validRequest(a, w, base.NF(), rng)
			for _, rc := range nearMisses(valid, base.NF(), newID) {
				g.Cases = append(g.Cases, rc)
				info[rc.ID] = rc
			}
			// documents of the body schema (optional properties present / absent, 0..2 additional properties,
			// explicit nulls) and their single-fault mutants as request bodies
			if rb := resolveBody(a, w.op.Body); rb.K == "json" && rb.Schema != nil {
				for _, dc := range docsFor(tlaSchema(a, *rb.Schema, 0), rng, nBodyDocs) {
					bs, _ := json.Marshal(dc.doc)
					rc := valid
					rc.ID, rc.Body, rc.HasBody = newID(), string(bs), true
					rc.Chunked = len(g.Cases)%2 == 0
					rc.Reads = plans[len(g.Cases)%len(plans)]
					g.Cases = append(g.Cases, rc)
					info[rc.ID] = rc
				}
			}
		}
		{
			// one operation whose body is a oneOf told apart by a discriminator: documents and their discriminator
			// mutants (missing, every other JSON type, one-character values) as request bodies
			t := []aspec.Seg{{K: "lit", S: "pets"}}
			op := simpleOp("POST", t)
			u := aspec.Schema{K: "oneOf", Of: []aspec.Schema{{K: "ref", To: "VarDog"}, {K: "ref", To: "VarCat"}, {K: "ref", To: "VarBird"}}, DiscProp: "kind"}
			a.Schemas = append(a.Schemas, aspec.NamedSchema{Name: "PetUnion", Schema: u})
			op.Body = aspec.Body{K: "json", Schema: &aspec.Schema{K: "ref", To: "PetUnion"}, Req: true}
			a.Paths = append(a.Paths, aspec.PathItem{Template: t, Ops: []aspec.Op{op}})
			valid := driver.ReqCase{Method: "POST", Path: base.NF() + "/pets", Headers: map[string][]string{"Content-Type": {"application/json"}}, Script: driver.Script{Parse: true, ReadBody: true}}
			for _, dc := range docsFor(tlaSchema(a, u, 0), rng, nBodyDocs) {
				bs, _ := json.Marshal(dc.doc)
				rc := valid
				rc.ID, rc.Body, rc.HasBody = newID(), string(bs), true
				rc.Reads = plans[len(g.Cases)%len(plans)]
				g.Cases = append(g.Cases, rc)
				info[rc.ID] = rc
			}
		}
		jobs = append(jobs, a.Job(id))
		groups = append(groups, g)
		groups = append(groups, driver.Group{Pkg: id, Kind: "fuzz", API: g.API, Fuzz: driver.FuzzConfig{Seed: rng.Int63(), N: fuzzN / ((len(good) + perPkg - 1) / perPkg), Base: base.NF(), Tag: id, Seen: names}})
	}
	// the kitchen-sink spec as well
	ks := kitchenSpec()
	jobs = append(jobs, ks.Job("ks"))
	kapi := driver.APIConfig{Mw: 2, NotFound: true, Spec: true, Cors: true, Auth: map[string]bool{"A": true, "B": true}, Schemes: schemeInfos(*ks)}
	groups = append(groups, driver.Group{Pkg: "ks", Kind: "fuzz", API: kapi, Fuzz: driver.FuzzConfig{Seed: rng.Int63(), N: fuzzN / 4, Base: "/v1", Tag: "ks", Seen: []string{"X-Req-Id", "x-trace", "kq", "X-Key-B"}}})
	sc, err := core.BuildScratch(jobs, false)
	if err != nil {
		c.HarnessError(err.Error())
		return
	}
	defer sc.Close()
	var kept []driver.Group
	for _, g := range groups {
		if _, ex := sc.Excluded[g.Pkg]; !ex {
			kept = append(kept, g)
		}
	}
	evs, _, err := sc.Run(kept, 30*time.Minute)
	if err != nil {
		c.HarnessError(err.Error())
		return
	}
	var events [][]byte
	add := func(v any) {
		bs, _ := json.Marshal(v)
		events = append(events, bs)
	}
	type acc struct {
		parsePanic string
		handler    bool
	}
	cur := map[string]*acc{}
	offenders := map[string]any{}
	nServe, nFuzz := 0, 0
	for _, raw := range evs {
		var e map[string]any
		json.Unmarshal(raw, &e)
		cid, _ := e["case"].(string)
		switch e["ev"] {
		case "DriverError":
			c.HarnessError(fmt.Sprintf("driver: %v", e["err"]))
			return
		case "Req":
			cur[cid] = &acc{}
		case "Handler":
			if a := cur[cid]; a != nil {
				a.handler = true
			}
		case "Parse":
			if a := cur[cid]; a != nil {
				a.parsePanic, _ = e["panic"].(string)
			}
		case "Done":
			a := cur[cid]
			if a == nil {
				a = &acc{}
			}
			p, _ := e["panic"].(string)
			add(map[string]any{"ev": "Serve", "case": cid, "panic": trunc(p, 300), "parsePanic": trunc(a.parsePanic, 300), "writes": e["writes"], "handlerRan": a.handler, "status": e["status"]})
			nServe++
			if p != "" || a.parsePanic != "" {
				offenders[cid] = map[string]any{"request": info[cid], "panic": trunc(p+a.parsePanic, 2000)}
			}
			delete(cur, cid)
		case "Fuzz":
			n := int(e["n"].(float64))
			nFuzz += n
			add(map[string]any{"ev": "Fuzz", "case": cid, "n": n, "panics": e["panics"], "badWrites": e["badWrites"], "parsePanics": e["parsePanics"], "handlerRuns": e["handlerRuns"]})
			offenders[cid] = e["offenders"]
		}
	}
	jr, err := core.Judge("Trace_Answer", events, nil)
	if err != nil {
		c.HarnessError(err.Error())
		return
	}
	c.AddTLC(jr.TLC)
	c.Add("evaluations", int64(nServe+nFuzz))
	c.Add("distinct_nontrivial", int64(jr.Nontriv))
	c.Add("programs", int64(len(sc.Pkgs)))
	c.Cov["structured_requests"] = nServe
	c.Cov["random_requests"] = nFuzz
	c.Cov["rule"] = "for every pre-flighted operation of the wire universe (typed path / query / header parameters, JSON and raw bodies, security on every fifth) a valid request is built and mutated structurally: every truncation of the path (with and without trailing slash), doubled slashes, missing leading slash, base-path near miss, empty path, '*', a 6000-character path, odd methods, empty / duplicated / malformed / huge query strings, missing / duplicated / huge headers, twelve classes of broken JSON bodies; plus seeded byte-level random requests near the declared shapes against those packages and the kitchen-sink spec; every handler calls Parse(); TLC (Trace_Answer) requires no panic and exactly one write; non-trivial = the handler ran (structured) / some handlers ran (batch)"
	c.Cov["bounds"] = map[string]any{"operations": len(good), "random_requests": nFuzz}
	for cid, rc := range info {
		c.Sample(map[string]any{"case": cid, "method": rc.Method, "path": trunc(rc.Path, 200), "rawQuery": trunc(rc.RawQuery, 200), "body": trunc(rc.Body, 100)})
		break
	}
	for _, rj := range jr.Rejects {
		c.Violation(map[string]any{"case": rj.Case, "request_or_offenders": offenders[rj.Case], "reject": rj},
			fmt.Sprintf("server panicked or did not write exactly one response: %s %v", rj.Case, trunc(fmt.Sprint(offenders[rj.Case]), 700)))
	}
}
