package checks

import (
	"encoding/json"
	"fmt"
	"math/rand"
	"sort"
	"time"

	"verif/driver"
	"verif/internal/aspec"
	"verif/internal/core"
)

func init() { register("C11", "model_checking", checkC11) }

type secCfg struct {
	Global pSec `json:"global"`
	S1     pSec `json:"s1"`
	S2     pSec `json:"s2"`
}

func toSec(p pSec) aspec.Sec { return aspec.Sec{K: p.K, List: p.List} }

// pipelineDesign runs the step-level design check of MC_Pipeline.
func pipelineDesign(c *core.Check, cfg string) bool {
	r, err := core.RunTLC(core.TLCOpts{Module: "MC_Pipeline", Cfg: cfg, Workers: 16, Timeout: 30 * time.Minute, Heap: "16g"})
	if err != nil || r.Error != "" {
		c.HarnessError(fmt.Sprintf("MC_Pipeline %s: %v %s", cfg, err, r.Error))
		return false
	}
	if r.InvViolated != "" {
		c.Note("MODEL: design check MC_Pipeline (%s) reports %s violated: the model of the generated ServeHTTP/auth wiring deviates from the Prop layer", cfg, r.InvViolated)
	}
	c.AddTLC(r)
	return true
}

func securityConfigs(c *core.Check) ([]secCfg, bool) {
	r, err := core.RunTLC(core.TLCOpts{Module: "MC_Pipeline", Cfg: "MC_Pipeline_emit.cfg", Workers: 4, Timeout: 10 * time.Minute})
	if err != nil || r.Error != "" || r.InvViolated != "" {
		c.HarnessError(fmt.Sprintf("MC_Pipeline emit: %v %s %s", err, r.Error, r.InvViolated))
		return nil, false
	}
	var out []secCfg
	for _, j := range r.JSON {
		var s secCfg
		if json.Unmarshal(j, &s) == nil && s.Global.K != "" {
			if s.Global.List == nil {
				s.Global.List = [][]string{}
			}
			out = append(out, s)
		}
	}
	sort.Slice(out, func(i, j int) bool { return fmt.Sprint(out[i]) < fmt.Sprint(out[j]) })
	return out, len(out) > 0
}

func credCombos(keys []string) [][]pCred {
	out := [][]pCred{{}}
	for _, k := range keys {
		var next [][]pCred
		for _, base := range out {
			next = append(next, base)
			for _, st := range []string{"valid", "invalid"} {
				next = append(next, append(append([]pCred{}, base...), pCred{S: k, C: st}))
			}
		}
		out = next
	}
	return out
}

func checkC11(c *core.Check) {
	c.Assumptions = []string{
		"an alternative (one requirement object) with several schemes requires all of them; an alternative containing a scheme of an unsupported kind is never satisfiable (DESIGN §11)",
		"authenticator stubs accept exactly the token valid-<scheme>; credentials are presented where the scheme reads them (Authorization: Bearer, the apiKey header / query parameter)",
		"handlers, middlewares and authenticators supplied by the harness always call through; nil authenticators are part of the domain",
	}
	thorough := c.Tier == "thorough"
	dcfg := "MC_Pipeline.cfg"
	if thorough {
		dcfg = "MC_Pipeline_thorough.cfg"
	}
	if !pipelineDesign(c, dcfg) {
		return
	}
	cfgs, ok := securityConfigs(c)
	if !ok {
		return
	}
	// group by global requirement
	byGlobal := map[string][]secCfg{}
	var gkeys []string
	for _, s := range cfgs {
		k := fmt.Sprint(s.Global)
		if _, ok := byGlobal[k]; !ok {
			gkeys = append(gkeys, k)
		}
		byGlobal[k] = append(byGlobal[k], s)
	}
	sort.Strings(gkeys)
	type kinds struct{ b, c, a, spell string }
	// (third set: no http bearer scheme at all, scheme A is an apiKey that travels in the Authorization header)
	kindSets := []kinds{{b: "apiKeyHeader", c: "basic", a: "bearer"}, {b: "apiKeyQuery", c: "oauth2", a: "bearer"}, {b: "apiKeyQuery", c: "apiKeyCookie", a: "apiKeyHeader"},
		// (the bearer scheme spelled as the IANA registry spells it: auth scheme names are case-insensitive)
		{b: "apiKeyHeader", c: "oauth2", a: "bearer", spell: "Bearer"}}
	if thorough {
		kindSets = append(kindSets, kinds{b: "apiKeyHeader", c: "openIdConnect", a: "bearer"}, kinds{b: "apiKeyQuery", c: "apiKeyCookie", a: "bearer"}, kinds{b: "apiKeyHeader", c: "basic", a: "apiKeyHeader"})
	}
	rng := rand.New(rand.NewSource(c.Seed))
	specs := map[string]*aspec.ASpec{}
	var groups []pGroup
	caseN := 0
	newCase := func() string { caseN++; return fmt.Sprintf("c%d", caseN) }
	allCreds := credCombos([]string{"A", "B", "C"})
	for gi, gk := range gkeys {
		for ki, ks := range kindSets {
			id := fmt.Sprintf("sec%dk%d", gi, ki)
			list := byGlobal[gk]
			a := &aspec.ASpec{Base: aspec.Base{Form: "servers", Segs: []string{"v1"}}, SpecName: "openapi.yaml",
				// every other package is generated with CORS on (synthetic preflight entries next to the operations)
				Flags: aspec.Flags{APIHandler: true, DoNotEdit: true, Cors: (gi+ki)%2 == 0}, Security: toSec(list[0].Global),
				Schemes: []aspec.Scheme{{Key: "A", Kind: ks.a, Name: map[string]string{"apiKeyHeader": "Authorization"}[ks.a], Spell: ks.spell}, {Key: "B", Kind: ks.b, Name: map[string]string{"apiKeyHeader": "X-Key-B", "apiKeyQuery": "kb"}[ks.b]}, {Key: "C", Kind: ks.c, Name: "kc"}}}
			type opRef struct{ method, path string }
			var ops []opRef
			for i, s := range list {
				t := []aspec.Seg{{K: "lit", S: fmt.Sprintf("i%d", i)}}
				o1, o2 := simpleOp("GET", t), simpleOp("POST", t)
				o1.Security, o2.Security = toSec(s.S1), toSec(s.S2)
				a.Paths = append(a.Paths, aspec.PathItem{Template: t, Ops: []aspec.Op{o1, o2}})
				ops = append(ops, opRef{"GET", "/v1/" + t[0].S}, opRef{"POST", "/v1/" + t[0].S})
			}
			specs[id] = a
			insts := []map[string]bool{{"A": true, "B": true, "C": true}, {"B": true, "C": true}, {"A": true, "C": true}}
			for ii, inst := range insts {
				g := pGroup{Pkg: id, ASpec: a, API: driver.APIConfig{Mw: 1, NotFound: true, Auth: inst, Cors: a.Flags.Cors}}
				for _, o := range ops {
					for ci, cr := range allCreds {
						if !thorough {
							// quick tier: every credential combination with all authenticators installed,
							// a seeded third of them when one authenticator is nil
							if (ii > 0 && rng.Intn(3) != 0) || (ki > 0 && rng.Intn(2) != 0) {
								continue
							}
							_ = ci
						}
						g.Cases = append(g.Cases, mkReq(newCase(), o.method, o.path, cr, a))
					}
					// a form-encoded body must play no part in authentication: a key that only appears as a form field is
					// not a credential, and a form field does not override the credential presented where the scheme reads it
					if o.method == "POST" && ks.b == "apiKeyQuery" && ii == 0 {
						form := func(rc driver.ReqCase, body string) driver.ReqCase {
							rc.Headers["Content-Type"] = []string{"application/x-www-form-urlencoded"}
							rc.Body, rc.HasBody = body, true
							return rc
						}
						g.Cases = append(g.Cases, form(mkReq(newCase(), o.method, o.path, nil, a), "kb=valid-B&kc=valid-C"))
						g.Cases = append(g.Cases, form(mkReq(newCase(), o.method, o.path, []pCred{{S: "B", C: "valid"}}, a), "kb=invalid-B&other=1"))
						g.Cases = append(g.Cases, form(mkReq(newCase(), o.method, o.path, []pCred{{S: "B", C: "invalid"}}, a), "kb=valid-B"))
					}
				}
				groups = append(groups, g)
			}
		}
	}
	// seeded random compositions of all pipeline features at once (randkitchen.go)
	nComp := 8
	if thorough {
		nComp = 60
	}
	groups = append(groups, randKitchenGroups(rand.New(rand.NewSource(c.Seed+int64(len(groups)))), nComp, "rs", specs, newCase)...)
	c.Cov["random_compositions"] = nComp
	run, ok := runPipeline(c, specs, groups)
	if !ok {
		return
	}
	c.Cov["exhaustive"] = thorough
	c.Cov["rule"] = "TLC (MC_Pipeline) explores the step-level model of ServeHTTP + authMiddlewareOr over every configuration global x per-operation requirement (9 choices incl. alternatives, AND-requirements, unsupported kinds, explicit empty list) for two operations sharing a path item x every credential assignment x nil authenticators, and enumerates the configurations; all of them are generated (one path item per configuration, packed per global requirement and scheme-kind assignment) and every operation is requested with every valid/invalid/absent credential assignment; TLC (Trace_Pipeline) judges Auth / Handler / 401 events; non-trivial = handler ran or 401"
	c.Cov["bounds"] = map[string]any{"configurations": len(cfgs), "kind_assignments": len(kindSets), "credential_assignments": len(allCreds)}
	c.Sample(map[string]any{"config": cfgs[len(cfgs)/2], "request": groups[0].Cases[len(groups[0].Cases)/2]})
	judgePipeline(c, run, specs, "security")
}
