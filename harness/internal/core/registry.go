package core

import (
	"fmt"
	"go/ast"
	"go/parser"
	"go/token"
	"os"
	"path/filepath"
	"sort"
	"strings"
)

// WriteRegistry scans the top-level declarations of the generated package in dir
// (names only, no goag naming rule is replicated) and writes registry_verif.go:
// every named non-generic type as reflect.Type, every plain function, every
// constant and a pointer to every package variable.  The reflective driver finds
// everything it needs through these maps.
func WriteRegistry(dir string) error {
	fset := token.NewFileSet()
	ents, err := os.ReadDir(dir)
	if err != nil {
		return err
	}
	var typesN, funcs, consts, vars []string
	pkgName := ""
	for _, e := range ents {
		n := e.Name()
		if e.IsDir() || !strings.HasSuffix(n, ".go") || strings.HasSuffix(n, "_verif.go") || strings.HasSuffix(n, "_test.go") {
			continue
		}
		f, err := parser.ParseFile(fset, filepath.Join(dir, n), nil, 0)
		if err != nil {
			return err
		}
		pkgName = f.Name.Name
		for _, d := range f.Decls {
			switch d := d.(type) {
			case *ast.FuncDecl:
				if d.Recv == nil && d.Type.TypeParams == nil && d.Name.Name != "_" && d.Name.Name != "init" && d.Name.Name != "main" {
					funcs = append(funcs, d.Name.Name)
				}
			case *ast.GenDecl:
				for _, s := range d.Specs {
					switch s := s.(type) {
					case *ast.TypeSpec:
						if s.TypeParams == nil && s.Name.Name != "_" {
							typesN = append(typesN, s.Name.Name)
						}
					case *ast.ValueSpec:
						for _, id := range s.Names {
							if id.Name == "_" {
								continue
							}
							if d.Tok == token.CONST {
								consts = append(consts, id.Name)
							} else {
								vars = append(vars, id.Name)
							}
						}
					}
				}
			}
		}
	}
	if pkgName == "" {
		return fmt.Errorf("no go files in %s", dir)
	}
	sort.Strings(typesN)
	sort.Strings(funcs)
	sort.Strings(consts)
	sort.Strings(vars)
	var b strings.Builder
	fmt.Fprintf(&b, "package %s\n\nimport \"reflect\"\n\n", pkgName)
	b.WriteString("var VerifTypes = map[string]reflect.Type{\n")
	for _, n := range typesN {
		fmt.Fprintf(&b, "\t%q: reflect.TypeOf((*%s)(nil)).Elem(),\n", n, n)
	}
	b.WriteString("}\n\nvar VerifFuncs = map[string]any{\n")
	for _, n := range funcs {
		fmt.Fprintf(&b, "\t%q: %s,\n", n, n)
	}
	b.WriteString("}\n\nvar VerifConsts = map[string]any{\n")
	for _, n := range consts {
		fmt.Fprintf(&b, "\t%q: %s,\n", n, n)
	}
	b.WriteString("}\n\nvar VerifVars = map[string]any{\n")
	for _, n := range vars {
		fmt.Fprintf(&b, "\t%q: &%s,\n", n, n)
	}
	b.WriteString("}\n")
	return os.WriteFile(filepath.Join(dir, "registry_verif.go"), []byte(b.String()), 0o644)
}
