//go:build verif

package core

import "github.com/vkd/goag/generator"

func setVerifHook(f func(ev string, data any)) { generator.VerifHook = f }

// HooksEnabled reports whether the harness was built with goag's verif hooks.
const HooksEnabled = true
