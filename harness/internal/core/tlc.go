package core

import (
	"bufio"
	"bytes"
	"context"
	"encoding/json"
	"fmt"
	"os"
	"os/exec"
	"path/filepath"
	"regexp"
	"sort"
	"strconv"
	"strings"
	"time"
)

// Root is /verif (the directory holding spec/, harness/, evidence/ …).
func Root() string {
	if r := os.Getenv("VERIF_ROOT"); r != "" {
		return r
	}
	return "/verif"
}

type TLCOpts struct {
	Module   string // module name without .tla (a .cfg of the same name unless Cfg is set)
	Cfg      string
	Workers  int
	Simulate string // e.g. "num=100" (adds -simulate), "" = BFS
	Depth    int
	Seed     int64
	Timeout  time.Duration
	Files    map[string][]byte // extra files placed in the run directory (trace.ndjson, generated MC modules)
	Coverage bool
	Deadlock bool // check deadlock (default off)
	Heap     string
}

type TLCResult struct {
	Out         string
	Lines       []string
	Printed     []string // PrintT lines (raw)
	JSON        []json.RawMessage
	Generated   int64
	Distinct    int64
	ExitCode    int
	TimedOut    bool
	InvViolated string
	Error       string // TLC-level error (parse error, evaluation error)
	Wall        time.Duration
	ZeroCov     []string
}

var (
	reStates = regexp.MustCompile(`^(\d+) states generated, (\d+) distinct states found`)
	reSimSt  = regexp.MustCompile(`(\d+) states checked`)
)

// RunTLC copies spec/ into a scratch directory, runs TLC there and parses its output.
func RunTLC(o TLCOpts) (TLCResult, error) {
	var res TLCResult
	scratch, err := os.MkdirTemp("", "vtlc")
	if err != nil {
		return res, err
	}
	if keep := os.Getenv("VERIF_KEEP_TLC"); keep != "" { // debugging aid: keep the run directories under $VERIF_KEEP_TLC
		defer func() { exec.Command("cp", "-r", scratch, keep+"/").Run(); os.RemoveAll(scratch) }()
	} else {
		defer os.RemoveAll(scratch)
	}
	specDir := filepath.Join(Root(), "spec")
	ents, err := os.ReadDir(specDir)
	if err != nil {
		return res, err
	}
	for _, e := range ents {
		if e.IsDir() {
			continue
		}
		if strings.HasSuffix(e.Name(), ".tla") || strings.HasSuffix(e.Name(), ".cfg") {
			bs, err := os.ReadFile(filepath.Join(specDir, e.Name()))
			if err != nil {
				return res, err
			}
			if err := os.WriteFile(filepath.Join(scratch, e.Name()), bs, 0o644); err != nil {
				return res, err
			}
		}
	}
	for n, bs := range o.Files {
		if err := os.WriteFile(filepath.Join(scratch, n), bs, 0o644); err != nil {
			return res, err
		}
	}
	cfg := o.Cfg
	if cfg == "" {
		cfg = o.Module + ".cfg"
	}
	if o.Workers <= 0 {
		o.Workers = 1
	}
	if o.Timeout == 0 {
		o.Timeout = 10 * time.Minute
	}
	args := []string{"-XX:+UseParallelGC", "-Xss256m"}
	if o.Heap != "" {
		args = append(args, "-Xmx"+o.Heap)
	}
	args = append(args, "-cp", "/opt/veriftools/tla/tla2tools.jar:/opt/veriftools/tla/CommunityModules-deps.jar", "tlc2.TLC",
		"-workers", strconv.Itoa(o.Workers), "-metadir", filepath.Join(scratch, "meta"), "-noGenerateSpecTE", "-config", cfg)
	if !o.Deadlock {
		args = append(args, "-deadlock")
	}
	if o.Simulate != "" {
		args = append(args, "-simulate", o.Simulate)
		if o.Depth > 0 {
			args = append(args, "-depth", strconv.Itoa(o.Depth))
		}
		args = append(args, "-seed", strconv.FormatInt(o.Seed, 10))
	}
	if o.Coverage {
		args = append(args, "-coverage", "1")
	}
	args = append(args, o.Module+".tla")
	ctx, cancel := context.WithTimeout(context.Background(), o.Timeout)
	defer cancel()
	cmd := exec.CommandContext(ctx, "java", args...)
	cmd.Dir = scratch
	var buf bytes.Buffer
	cmd.Stdout = &buf
	cmd.Stderr = &buf
	t0 := time.Now()
	err = cmd.Run()
	res.Wall = time.Since(t0)
	Debugf("tlc %s %s: %.1fs", o.Module, cfg, res.Wall.Seconds())
	res.Out = buf.String()
	if ctx.Err() == context.DeadlineExceeded {
		res.TimedOut = true
	}
	if ee, ok := err.(*exec.ExitError); ok {
		res.ExitCode = ee.ExitCode()
	} else if err != nil {
		return res, err
	}
	sc := bufio.NewScanner(strings.NewReader(res.Out))
	sc.Buffer(make([]byte, 1<<20), 1<<28)
	for sc.Scan() {
		l := sc.Text()
		res.Lines = append(res.Lines, l)
		if m := reStates.FindStringSubmatch(l); m != nil {
			res.Generated, _ = strconv.ParseInt(m[1], 10, 64)
			res.Distinct, _ = strconv.ParseInt(m[2], 10, 64)
		}
		if o.Simulate != "" {
			if m := reSimSt.FindStringSubmatch(l); m != nil {
				res.Generated, _ = strconv.ParseInt(m[1], 10, 64)
				res.Distinct = res.Generated
			}
		}
		if strings.HasPrefix(l, "\"") && strings.HasSuffix(l, "\"") && len(l) >= 2 {
			res.Printed = append(res.Printed, l)
			if s, err := strconv.Unquote(l); err == nil && (strings.HasPrefix(s, "{") || strings.HasPrefix(s, "[")) {
				if json.Valid([]byte(s)) {
					res.JSON = append(res.JSON, json.RawMessage(s))
				}
			}
		}
		if strings.HasPrefix(l, "Error: Invariant ") && strings.Contains(l, "is violated") {
			res.InvViolated = strings.TrimSuffix(strings.TrimPrefix(l, "Error: Invariant "), " is violated.")
		} else if strings.HasPrefix(l, "Error: Action property") || strings.HasPrefix(l, "Error: Temporal properties were violated") {
			res.InvViolated = l
		} else if strings.HasPrefix(l, "Error:") && res.Error == "" && res.InvViolated == "" {
			res.Error = l
		}
		if o.Coverage && strings.HasSuffix(l, ": 0") && strings.HasPrefix(l, "<") {
			res.ZeroCov = append(res.ZeroCov, l)
		}
	}
	if res.TimedOut {
		res.Error = "TLC timed out after " + o.Timeout.String()
	}
	if res.ExitCode != 0 && res.Error == "" && res.InvViolated == "" {
		res.Error = fmt.Sprintf("TLC exit code %d: %s", res.ExitCode, tail(res.Out, 600))
	}
	return res, nil
}

func tail(s string, n int) string {
	if len(s) > n {
		return s[len(s)-n:]
	}
	return s
}

// Reject is one case the judge could not explain.
type Reject struct {
	Case  string          `json:"case"`
	At    int             `json:"at"`
	Event json.RawMessage `json:"event"`
	Why   string          `json:"why,omitempty"`

	KF string `json:"kf,omitempty"` // name of a matching known-finding selector, "" if none
}

type JudgeResult struct {
	Drifts   []Reject // cases where the code is explained by the Prop layer but not by the step-level (Impl) machine: notes, never verdicts
	Rejects  []Reject
	Ended    bool
	EndAt    int
	Accepted int // cases accepted
	Nontriv  int // distinct non-trivial cases as counted by the judge
	TLC      TLCResult
}

// Judge runs Trace_<module> over the events (one JSON value per line).  The trace
// specification prints {"verdict":"REJECT",...} per unexplained case and one
// {"verdict":"END","at":n,"accepted":k,"nontrivial":m} when every line was consumed.
// Large logs are cut at case boundaries ("Config" sections, then "Req"/"Reset" events, the
// section's Config repeated) and judged by several TLC processes in parallel.
func Judge(module string, events [][]byte, extra map[string][]byte) (JudgeResult, error) {
	events = selfTestCorrupt(events)
	const chunkMin = 12000
	if len(events) <= chunkMin {
		return judgeOne(module, events, extra, 0)
	}
	type evk struct {
		Ev string `json:"ev"`
	}
	kinds := make([]string, len(events))
	for i, e := range events {
		var k evk
		json.Unmarshal(e, &k)
		kinds[i] = k.Ev
	}
	target := len(events)/16 + 1
	if target < chunkMin {
		target = chunkMin
	}
	type chunk struct {
		evs    [][]byte
		offset int // index in events of the first non-repeated line minus the number of prepended lines
	}
	var chunks []chunk
	var cur [][]byte
	curOff := 0
	lastCfg := -1
	for i := 0; i < len(events); i++ {
		isCfg := kinds[i] == "Config" || kinds[i] == "Schema" || kinds[i] == "Cases"
		boundary := isCfg || caseStartKinds[module][kinds[i]] // (Trace_Concurrent: a round of interleaved requests stays whole)
		if boundary && len(cur) >= target {
			chunks = append(chunks, chunk{cur, curOff})
			cur = nil
			if !isCfg && lastCfg >= 0 {
				cur = append(cur, events[lastCfg])
				curOff = i - 1
			} else {
				curOff = i
			}
		}
		if isCfg {
			lastCfg = i
		}
		cur = append(cur, events[i])
	}
	if len(cur) > 0 {
		chunks = append(chunks, chunk{cur, curOff})
	}
	results := make([]JudgeResult, len(chunks))
	errs := make([]error, len(chunks))
	sem := make(chan struct{}, 6)
	done := make(chan int)
	for ci := range chunks {
		go func(ci int) {
			sem <- struct{}{}
			results[ci], errs[ci] = judgeOne(module, chunks[ci].evs, extra, chunks[ci].offset)
			<-sem
			done <- ci
		}(ci)
	}
	for range chunks {
		<-done
	}
	var jr JudgeResult
	jr.Ended = true
	for ci := range chunks {
		if errs[ci] != nil {
			return jr, errs[ci]
		}
		r := results[ci]
		jr.Rejects = append(jr.Rejects, r.Rejects...)
		jr.Drifts = append(jr.Drifts, r.Drifts...)
		jr.Accepted += r.Accepted
		jr.Nontriv += r.Nontriv
		jr.TLC.Generated += r.TLC.Generated
		jr.TLC.Distinct += r.TLC.Distinct
		if r.TLC.Wall > jr.TLC.Wall {
			jr.TLC.Wall = r.TLC.Wall
		}
	}
	jr.EndAt = len(events) + 1
	return jr, nil
}

// events that start a self-contained case (a chunk may begin there once the last Config/Schema is repeated)
// caseStartKinds: per judge, the events at which a new, independent case starts (a log may be cut there).
// A judge that is not listed is only cut at Config / Schema / Cases sections.
var caseStartKinds = map[string]map[string]bool{
	"Trace_Pipeline": {"Req": true},
	"Trace_GenDir":   {"Reset": true},
	"Trace_Params":   {"Parse": true},
	"Trace_Codec":    {"Enc": true, "Dec": true, "Body": true},
	"Trace_Wire":     {"Call": true},
	"Trace_Gen":      {"Gen": true},
	"Trace_Embed":    {"Embed": true, "Served": true},
	"Trace_Reader":   {"Read": true},
	"Trace_Client":   {"E2E": true},
	"Trace_Refs":     {"Pair": true},
	"Trace_Answer":   {"Serve": true, "Fuzz": true},
}

func judgeOne(module string, events [][]byte, extra map[string][]byte, offset int) (JudgeResult, error) {
	var jr JudgeResult
	var buf bytes.Buffer
	for _, e := range events {
		buf.Write(bytes.TrimSpace(e))
		buf.WriteByte('\n')
	}
	files := map[string][]byte{"trace.ndjson": buf.Bytes()}
	for k, v := range extra {
		files[k] = v
	}
	r, err := RunTLC(TLCOpts{Module: module, Workers: 1, Files: files, Timeout: 60 * time.Minute, Heap: "4g"})
	jr.TLC = r
	if err != nil {
		return jr, err
	}
	if r.Error != "" || r.InvViolated != "" {
		return jr, fmt.Errorf("judge %s: TLC error: %s %s\n%s", module, r.Error, r.InvViolated, tail(r.Out, 1500))
	}
	for _, j := range r.JSON {
		var v struct {
			Verdict    string          `json:"verdict"`
			Case       string          `json:"case"`
			At         int             `json:"at"`
			Event      json.RawMessage `json:"event"`
			Why        json.RawMessage `json:"why"`
			KF         string          `json:"kf"`
			Accepted   int             `json:"accepted"`
			Nontrivial int             `json:"nontrivial"`
		}
		if json.Unmarshal(j, &v) != nil {
			continue
		}
		switch v.Verdict {
		case "REJECT":
			jr.Rejects = append(jr.Rejects, Reject{Case: v.Case, At: v.At + offset, Event: v.Event, Why: string(v.Why), KF: v.KF})
		case "DRIFT":
			// (printed from inside an action: TLC evaluates it once for the step and once for ENABLED)
			dup := false
			for _, d := range jr.Drifts {
				if d.Case == v.Case && d.At == v.At+offset {
					dup = true
				}
			}
			if !dup {
				jr.Drifts = append(jr.Drifts, Reject{Case: v.Case, At: v.At + offset, Event: v.Event, Why: string(v.Why)})
			}
		case "END":
			if jr.Ended {
				// every judge is a deterministic walk of the log: two END verdicts mean the trace specification
				// branched (two enabled actions for one event) and verdicts would be counted twice
				return jr, fmt.Errorf("judge %s: more than one END verdict - the trace specification is not deterministic on this log", module)
			}
			jr.Ended = true
			jr.EndAt = v.At
			jr.Accepted = v.Accepted
			jr.Nontriv = v.Nontrivial
		}
	}
	if !jr.Ended {
		return jr, fmt.Errorf("judge %s: no END verdict (trace not consumed)\n%s", module, tail(r.Out, 1500))
	}
	if jr.EndAt != len(events)+1 {
		return jr, fmt.Errorf("judge %s: END at %d, expected %d", module, jr.EndAt, len(events)+1)
	}
	return jr, nil
}

// selfTestCorrupt implements the binding self-test (DESIGN §10): with VERIF_CORRUPT=k the k-th case event of the
// recorded log gets one field changed (a boolean flipped, else a number incremented, else a string altered), with
// VERIF_DROP=k it is removed.  A judge that still accepts the log is not bound to what was recorded.
func selfTestCorrupt(events [][]byte) [][]byte {
	ck, dk := os.Getenv("VERIF_CORRUPT"), os.Getenv("VERIF_DROP")
	if ck == "" && dk == "" {
		return events
	}
	target, _ := strconv.Atoi(ck + dk)
	n := 0
	out := make([][]byte, 0, len(events))
	done := false
	for _, e := range events {
		var m map[string]any
		if json.Unmarshal(e, &m) != nil || done {
			out = append(out, e)
			continue
		}
		ev, _ := m["ev"].(string)
		if ev == "Config" || ev == "Schema" || ev == "Cases" || ev == "Reset" || ev == "Req" || ev == "Call" {
			out = append(out, e)
			continue
		}
		n++
		if n != target {
			out = append(out, e)
			continue
		}
		done = true
		if dk != "" {
			fmt.Printf("selftest: dropped event %d (%s)\n", n, ev)
			continue
		}
		changed := corruptOne(m)
		fmt.Printf("selftest: corrupted field %q of event %d (%s)\n", changed, n, ev)
		bs, _ := json.Marshal(m)
		out = append(out, bs)
	}
	return out
}

// corruptOne changes one field the judges read: a field of the priority list first, then (for paired
// observations) inside the first observation, then any boolean / number / string.
func corruptOne(m map[string]any) string {
	for _, k := range []string{"ok", "decOK", "encOK", "valid", "parseOK", "builds", "retOK", "has", "custom", "writes", "status", "i", "reports", "op", "tmpl", "type"} {
		switch v := m[k].(type) {
		case bool:
			m[k] = !v
			return k
		case float64:
			m[k] = v + 1
			return k
		case string:
			m[k] = v + "~corrupted"
			return k
		}
	}
	if a, ok := m["a"].(map[string]any); ok {
		if k := corruptOne(a); k != "" {
			return "a." + k
		}
	}
	keys := make([]string, 0, len(m))
	for k := range m {
		keys = append(keys, k)
	}
	sort.Strings(keys)
	for _, k := range keys {
		if b, ok := m[k].(bool); ok {
			m[k] = !b
			return k
		}
	}
	for _, k := range keys {
		if f, ok := m[k].(float64); ok {
			m[k] = f + 1
			return k
		}
	}
	for _, k := range keys {
		if s, ok := m[k].(string); ok && k != "ev" && k != "case" {
			m[k] = s + "~corrupted"
			return k
		}
	}
	return ""
}

// RunApalache checks an invariant with apalache-mc (bounded / inductive checks over typed specifications); the module
// is copied to a scratch directory first (Apalache writes _apalache-out next to it).  ok = "The outcome is: NoError".
func RunApalache(module, init, inv string, length int, timeout time.Duration) (ok bool, out string, err error) {
	dir, err := os.MkdirTemp("", "vapa")
	if err != nil {
		return false, "", err
	}
	defer os.RemoveAll(dir)
	src, err := os.ReadFile(filepath.Join(Root(), "spec", module+".tla"))
	if err != nil {
		return false, "", err
	}
	if err := os.WriteFile(filepath.Join(dir, module+".tla"), src, 0o644); err != nil {
		return false, "", err
	}
	ctx, cancel := context.WithTimeout(context.Background(), timeout)
	defer cancel()
	cmd := exec.CommandContext(ctx, "apalache-mc", "check", "--init="+init, "--inv="+inv, fmt.Sprintf("--length=%d", length), module+".tla")
	cmd.Dir = dir
	bs, runErr := cmd.CombinedOutput()
	out = string(bs)
	if ctx.Err() != nil {
		return false, out, fmt.Errorf("apalache-mc timed out")
	}
	if strings.Contains(out, "The outcome is: NoError") {
		return true, out, nil
	}
	if strings.Contains(out, "The outcome is: Error") {
		return false, out, nil
	}
	return false, out, fmt.Errorf("apalache-mc: %v: %s", runErr, tail(out, 800))
}

var reProved = regexp.MustCompile(`All (\d+) obligations? proved`)

// RunTLAPM checks the proofs of spec/<module>.tla with the TLA+ proof system in a scratch directory (all modules of
// spec/ are copied next to it). ok = every obligation proved; n = number of obligations.
func RunTLAPM(module string, timeout time.Duration) (ok bool, n int, out string, err error) {
	dir, err := os.MkdirTemp("", "vtlapm")
	if err != nil {
		return false, 0, "", err
	}
	defer os.RemoveAll(dir)
	files, _ := filepath.Glob(filepath.Join(Root(), "spec", "*.tla"))
	for _, f := range files {
		bs, err := os.ReadFile(f)
		if err != nil {
			return false, 0, "", err
		}
		if err := os.WriteFile(filepath.Join(dir, filepath.Base(f)), bs, 0o644); err != nil {
			return false, 0, "", err
		}
	}
	ctx, cancel := context.WithTimeout(context.Background(), timeout)
	defer cancel()
	cmd := exec.CommandContext(ctx, "tlapm", "--threads", "8", module+".tla")
	cmd.Dir = dir
	bs, runErr := cmd.CombinedOutput()
	out = string(bs)
	if ctx.Err() != nil {
		return false, 0, out, fmt.Errorf("tlapm timed out")
	}
	if m := reProved.FindStringSubmatch(out); m != nil {
		fmt.Sscan(m[1], &n)
		return true, n, out, nil
	}
	if strings.Contains(out, "obligations failed") || strings.Contains(out, "obligation failed") {
		return false, 0, out, nil
	}
	return false, 0, out, fmt.Errorf("tlapm: %v: %s", runErr, tail(out, 800))
}
