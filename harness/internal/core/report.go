package core

import (
	"bufio"
	"bytes"
	"crypto/sha256"
	"encoding/hex"
	"encoding/json"
	"fmt"
	"os"
	"path/filepath"
	"regexp"
	"sort"
	"strconv"
	"strings"
	"time"
)

var reScratch = regexp.MustCompile(`/tmp/v[a-z-]+[0-9]+`)

// Finding is one line of known_findings.txt.
type Finding struct {
	Fixed    bool
	Property string
	Key      string
	What     string
}

func LoadFindings() ([]Finding, error) {
	f, err := os.Open(filepath.Join(Root(), "known_findings.txt"))
	if err != nil {
		if os.IsNotExist(err) {
			return nil, nil
		}
		return nil, err
	}
	defer f.Close()
	var out []Finding
	sc := bufio.NewScanner(f)
	for sc.Scan() {
		l := strings.TrimSpace(sc.Text())
		if l == "" || strings.HasPrefix(l, "#") {
			continue
		}
		var fd Finding
		switch {
		case strings.HasPrefix(l, "finding:"):
			l = strings.TrimSpace(strings.TrimPrefix(l, "finding:"))
		case strings.HasPrefix(l, "fixed:"):
			fd.Fixed = true
			l = strings.TrimSpace(strings.TrimPrefix(l, "fixed:"))
		default:
			continue
		}
		head, what, _ := strings.Cut(l, "::")
		fd.What = strings.TrimSpace(what)
		for _, tok := range strings.Fields(head) {
			if k, v, ok := strings.Cut(tok, "="); ok {
				switch k {
				case "property":
					fd.Property = v
				case "key":
					fd.Key = v
				}
			}
		}
		if fd.What == "" {
			fd.What = strings.TrimSpace(head)
		}
		out = append(out, fd)
	}
	return out, sc.Err()
}

// Check accumulates what one run of one property's check covered and decides the exit code.
type Check struct {
	ID          string
	Tier        string
	Seed        int64
	Level       string
	Cov         map[string]any
	Assumptions []string
	start       time.Time
	violations  int
	harnessErr  []string
	known       map[string]int
	findings    []Finding
	samples     []any
	notes       []string
}

func NewCheck(id, tier string, seed int64, level string) *Check {
	c := &Check{ID: id, Tier: tier, Seed: seed, Level: level, Cov: map[string]any{}, start: time.Now(), known: map[string]int{}}
	fs, err := LoadFindings()
	if err != nil {
		c.HarnessError("known_findings.txt: " + err.Error())
	}
	for _, f := range fs {
		if f.Property == id && !f.Fixed {
			c.findings = append(c.findings, f)
		}
	}
	return c
}

func (c *Check) Note(format string, a ...any) {
	s := fmt.Sprintf(format, a...)
	c.notes = append(c.notes, s)
	fmt.Println("note: " + s)
}

// Drift records that the step-level model of a module no longer describes the code although the property holds
// (the Prop layer explains every such case): a note and a coverage counter, never a verdict.
func (c *Check) Drift(module string, drifts []Reject) {
	if len(drifts) == 0 {
		return
	}
	c.Note("MODEL-DRIFT module=%s cases=%d: the code is explained by the Prop layer but not by the step-level machine (first: case %s %s); the machine needs updating, the property is not affected", module, len(drifts), drifts[0].Case, trunc(drifts[0].Why, 300))
	m, _ := c.Cov["model_drift"].(map[string]any)
	if m == nil {
		m = map[string]any{}
	}
	m[module] = len(drifts)
	c.Cov["model_drift"] = m
}

func (c *Check) HarnessError(msg string) {
	c.harnessErr = append(c.harnessErr, msg)
	fmt.Println("HARNESS-ERROR property=" + c.ID + " " + trunc(msg, 3000))
}

func (c *Check) Sample(v any) {
	if len(c.samples) < 6 {
		c.samples = append(c.samples, v)
	}
}

func (c *Check) Add(key string, n int64) {
	switch v := c.Cov[key].(type) {
	case int64:
		c.Cov[key] = v + n
	default:
		c.Cov[key] = n
	}
}

func (c *Check) AddTLC(r TLCResult) {
	c.Add("states", r.Distinct)
	c.Add("transitions", r.Generated)
}

// Known reports whether key names an open finding of this property; if so the
// occurrence is counted and not reported as a violation.
func (c *Check) Known(key string) bool {
	if key == "" {
		return false
	}
	for _, f := range c.findings {
		if f.Key == key {
			c.known[key]++
			return true
		}
	}
	return false
}

// Violation records an unexplained case: writes a replay file and prints the VIOLATION line.
func (c *Check) Violation(cas any, why string) {
	c.violations++
	payload := map[string]any{"property": c.ID, "tier": c.Tier, "seed": c.Seed, "why": why, "case": cas}
	bs, _ := json.MarshalIndent(payload, "", " ")
	h := sha256.Sum256(reScratch.ReplaceAll(bs, []byte("/tmp/SCRATCH")))
	dir := filepath.Join(outRoot(), "replays")
	name := c.ID + "-" + hex.EncodeToString(h[:6]) + ".json"
	if want := os.Getenv("VERIF_REPLAY_FILE"); want != "" {
		// replay mode: only the recorded case counts
		rec, _ := os.ReadFile(want)
		if !bytes.Equal(reScratch.ReplaceAll(rec, []byte("/tmp/SCRATCH")), reScratch.ReplaceAll(bs, []byte("/tmp/SCRATCH"))) {
			c.violations--
			return
		}
		fmt.Printf("VIOLATION property=%s replay=%s :: REPRODUCED %s\n", c.ID, want, trunc(why, 300))
		return
	}
	p := filepath.Join(dir, name)
	if c.violations <= 40 {
		os.MkdirAll(dir, 0o755)
		os.WriteFile(p, bs, 0o644)
		fmt.Printf("VIOLATION property=%s replay=%s :: %s\n", c.ID, p, trunc(why, 400))
	}
	if len(c.samples) < 12 {
		c.samples = append(c.samples, map[string]any{"violation": why, "case": cas})
	}
}

func (c *Check) Violations() int { return c.violations }

// Finish writes the evidence file and returns the exit code (0 held, 1 violation, 2 harness error).
func (c *Check) Finish() int {
	keys := make([]string, 0, len(c.known))
	for k := range c.known {
		keys = append(keys, k)
	}
	sort.Strings(keys)
	var kfSeen []string
	for _, f := range c.findings {
		if n := c.known[f.Key]; n > 0 {
			fmt.Printf("KNOWN-FINDING: property=%s %s %s (cases this run: %d)\n", c.ID, f.Key, f.What, n)
			kfSeen = append(kfSeen, f.Key)
		} else {
			fmt.Printf("note: listed finding %s of %s was not exercised or no longer reproduces in this run\n", f.Key, c.ID)
		}
	}
	if len(c.samples) == 0 {
		c.samples = append(c.samples, "no cases")
	}
	c.Cov["samples"] = c.samples
	if len(kfSeen) > 0 {
		c.Cov["known_findings_seen"] = kfSeen
	}
	if len(c.notes) > 0 {
		c.Cov["notes"] = c.notes
	}
	if len(c.harnessErr) > 0 {
		c.Cov["harness_errors"] = c.harnessErr
	}
	ev := map[string]any{
		"property_id": c.ID,
		"tier":        c.Tier,
		"seed":        c.Seed,
		"level":       c.Level,
		"coverage":    c.Cov,
		"assumptions": c.Assumptions,
		"wall_s":      float64(int(time.Since(c.start).Seconds()*100)) / 100,
		"violations":  c.violations,
	}
	if c.Assumptions == nil {
		ev["assumptions"] = []string{}
	}
	bs, _ := json.MarshalIndent(ev, "", " ")
	dir := filepath.Join(outRoot(), "evidence")
	os.MkdirAll(dir, 0o755)
	if err := os.WriteFile(filepath.Join(dir, c.ID+".json"), append(bs, '\n'), 0o644); err != nil {
		fmt.Println("HARNESS-ERROR cannot write evidence: " + err.Error())
		return 2
	}
	switch {
	case c.violations > 0:
		fmt.Printf("RESULT property=%s tier=%s violations=%d wall=%.1fs\n", c.ID, c.Tier, c.violations, time.Since(c.start).Seconds())
		return 1
	case len(c.harnessErr) > 0:
		fmt.Printf("RESULT property=%s tier=%s harness-error wall=%.1fs\n", c.ID, c.Tier, time.Since(c.start).Seconds())
		return 2
	}
	fmt.Printf("RESULT property=%s tier=%s held wall=%.1fs\n", c.ID, c.Tier, time.Since(c.start).Seconds())
	return 0
}

func SeedFromEnv() int64 {
	if s := os.Getenv("VERIF_SEED"); s != "" {
		if n, err := strconv.ParseInt(s, 10, 64); err == nil {
			return n
		}
	}
	return 1
}

// Debugf prints timing / progress information when VERIF_DEBUG is set.
func Debugf(format string, a ...any) {
	if os.Getenv("VERIF_DEBUG") != "" {
		fmt.Printf("debug: "+format+"\n", a...)
	}
}

// outRoot is where evidence and replays go: /verif, or VERIF_OUT when a seeded change is being tested on a scratch
// copy (bin/mutest), so that such runs never overwrite the evidence of the real tree.
func outRoot() string {
	if d := os.Getenv("VERIF_OUT"); d != "" {
		return d
	}
	return Root()
}
