//go:build !verif

package core

func setVerifHook(f func(ev string, data any)) {}

const HooksEnabled = false
