package core

import (
	"bufio"
	"bytes"
	"encoding/json"
	"fmt"
	"os"
	"os/exec"
	"path/filepath"
	"sort"
	"strings"
	"time"
)

// Scratch is a temporary Go module holding generated packages, the reflective driver and a main.
type Scratch struct {
	Dir      string
	Pkgs     []string             // packages that were generated and type-check
	Excluded map[string]GenResult // packages left out (generation failed or output does not build)
	Results  map[string]GenResult
	bin      string
}

// BuildScratch generates every job into <scratch>/<job.ID> (package name = job.ID), type-checks
// each on its own (pre-flight, DESIGN §3.3), writes registries and builds one driver binary.
func BuildScratch(jobs []GenJob, race bool) (*Scratch, error) {
	dir, err := os.MkdirTemp("", "vscratch")
	if err != nil {
		return nil, err
	}
	s := &Scratch{Dir: dir, Excluded: map[string]GenResult{}, Results: map[string]GenResult{}}
	ok := false
	defer func() {
		if !ok {
			s.Close()
		}
	}()
	if err := os.WriteFile(filepath.Join(dir, "go.mod"), []byte("module scratch\n\ngo 1.20\n"), 0o644); err != nil {
		return nil, err
	}
	drvSrc := filepath.Join(Root(), "harness", "driver")
	ents, err := os.ReadDir(drvSrc)
	if err != nil {
		return nil, err
	}
	os.MkdirAll(filepath.Join(dir, "driver"), 0o755)
	for _, e := range ents {
		if strings.HasSuffix(e.Name(), ".go") && !strings.HasSuffix(e.Name(), "_test.go") {
			bs, err := os.ReadFile(filepath.Join(drvSrc, e.Name()))
			if err != nil {
				return nil, err
			}
			os.WriteFile(filepath.Join(dir, "driver", e.Name()), bs, 0o644)
		}
	}
	ids := map[string]bool{}
	for i := range jobs {
		if ids[jobs[i].ID] {
			return nil, fmt.Errorf("scratch: package %s requested twice", jobs[i].ID)
		}
		ids[jobs[i].ID] = true
		jobs[i].OutDir = filepath.Join(dir, jobs[i].ID)
		jobs[i].Package = jobs[i].ID
		jobs[i].Check = true
		jobs[i].Registry = true
	}
	t0 := time.Now()
	res := RunGenJobs(jobs, 0)
	Debugf("scratch: generated+checked %d packages in %.1fs", len(jobs), time.Since(t0).Seconds())
	for i, r := range res {
		s.Results[jobs[i].ID] = r
		if strings.HasPrefix(r.Err, "HARNESS") {
			return nil, fmt.Errorf("generation of %s: %s", jobs[i].ID, r.Err)
		}
		if !r.Builds() {
			s.Excluded[jobs[i].ID] = r
			os.RemoveAll(jobs[i].OutDir)
			continue
		}
		s.Pkgs = append(s.Pkgs, jobs[i].ID)
	}
	sort.Strings(s.Pkgs)
	if len(s.Pkgs) == 0 {
		ok = true
		return s, nil
	}
	var b strings.Builder
	b.WriteString("package main\n\nimport (\n\t\"scratch/driver\"\n")
	for _, p := range s.Pkgs {
		fmt.Fprintf(&b, "\t%s \"scratch/%s\"\n", p, p)
	}
	b.WriteString(")\n\nfunc main() {\n\tdriver.Main(map[string]driver.Registry{\n")
	for _, p := range s.Pkgs {
		fmt.Fprintf(&b, "\t\t%q: {Types: %s.VerifTypes, Funcs: %s.VerifFuncs, Consts: %s.VerifConsts, Vars: %s.VerifVars},\n", p, p, p, p, p)
	}
	b.WriteString("\t})\n}\n")
	if err := os.WriteFile(filepath.Join(dir, "main.go"), []byte(b.String()), 0o644); err != nil {
		return nil, err
	}
	s.bin = filepath.Join(dir, "drv")
	args := []string{"build", "-o", s.bin}
	if race {
		args = append(args, "-race")
	}
	args = append(args, ".")
	cmd := exec.Command("go", args...)
	cmd.Dir = dir
	// The generated packages of a scratch module are never built twice: their objects go into a build cache of
	// their own that is removed with the module (the user's cache would grow by gigabytes per sweep). It starts as a
	// hard-linked copy of <verif>/.gocache, where bin/setup has compiled the standard library (plain and -race).
	gocache, cerr := os.MkdirTemp("", "vgocache")
	if cerr != nil {
		return nil, cerr
	}
	defer os.RemoveAll(gocache)
	if base := filepath.Join(Root(), ".gocache"); dirExists(base) {
		if exec.Command("cp", "-al", base+"/.", gocache).Run() != nil {
			exec.Command("cp", "-a", base+"/.", gocache).Run()
		}
	}
	cmd.Env = append(os.Environ(), "GOFLAGS=-mod=mod", "GOPROXY=off", "GOSUMDB=off", "GOTOOLCHAIN=local", "GOCACHE="+gocache)
	t0 = time.Now()
	out, err := cmd.CombinedOutput()
	Debugf("scratch: go build %.1fs", time.Since(t0).Seconds())
	if err != nil {
		return nil, fmt.Errorf("go build of scratch module failed (pre-flight passed, so this is a harness problem): %v\n%s", err, tail(string(out), 3000))
	}
	ok = true
	return s, nil
}

// Run executes the driver on the groups (any JSON-marshalable value the driver understands)
// and returns the recorded events, one raw JSON object per element.
func (s *Scratch) Run(groups any, timeout time.Duration, env ...string) ([]json.RawMessage, string, error) {
	jf, err := os.CreateTemp(s.Dir, "jobs*.json")
	if err != nil {
		return nil, "", err
	}
	bs, err := json.Marshal(groups)
	if err != nil {
		return nil, "", err
	}
	jf.Write(bs)
	jf.Close()
	ef := jf.Name() + ".events"
	defer os.Remove(jf.Name())
	defer os.Remove(ef)
	if timeout == 0 {
		timeout = 10 * time.Minute
	}
	cmd := exec.Command(s.bin, jf.Name(), ef)
	cmd.Dir = s.Dir
	cmd.Env = append(os.Environ(), env...)
	var buf bytes.Buffer
	cmd.Stdout = &buf
	cmd.Stderr = &buf
	t0 := time.Now()
	defer func() { Debugf("scratch: driver run %.1fs", time.Since(t0).Seconds()) }()
	if err := cmd.Start(); err != nil {
		return nil, "", err
	}
	done := make(chan error, 1)
	go func() { done <- cmd.Wait() }()
	var runErr error
	select {
	case runErr = <-done:
	case <-time.After(timeout):
		cmd.Process.Kill()
		<-done
		runErr = fmt.Errorf("driver timed out after %s", timeout)
	}
	var evs []json.RawMessage
	if f, err := os.Open(ef); err == nil {
		sc := bufio.NewScanner(f)
		sc.Buffer(make([]byte, 1<<20), 1<<28)
		for sc.Scan() {
			evs = append(evs, json.RawMessage(append([]byte{}, sc.Bytes()...)))
		}
		f.Close()
	}
	if runErr != nil {
		return evs, buf.String(), fmt.Errorf("driver: %v\n%s", runErr, tail(buf.String(), 3000))
	}
	return evs, buf.String(), nil
}

func (s *Scratch) Close() {
	if s != nil && s.Dir != "" {
		os.RemoveAll(s.Dir)
	}
}

func dirExists(p string) bool {
	st, err := os.Stat(p)
	return err == nil && st.IsDir()
}
