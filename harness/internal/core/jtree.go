package core

import (
	"bytes"
	"encoding/json"
	"fmt"
	"io"
	"math"
	"math/big"
	"strconv"
	"strings"
	"time"
)

// J is the abstract JSON tree handed to TLC (DESIGN §8): object members are a list of pairs in
// document order (duplicate keys stay visible), every node carries its canonical text, leaves carry
// the typed tokens they denote (computed with strconv / time as the trusted definition of the
// lexical spaces).
type J map[string]any

// ParseJ parses bytes into a J tree; {"t":"invalid"} when the bytes are not one JSON value.
func ParseJ(bs []byte) J {
	if !json.Valid(bs) {
		return J{"t": "invalid", "c": "!invalid"}
	}
	dec := json.NewDecoder(bytes.NewReader(bs))
	dec.UseNumber()
	j, err := parseJValue(dec)
	if err != nil {
		return J{"t": "invalid", "c": "!invalid"}
	}
	if _, err := dec.Token(); err != io.EOF {
		return J{"t": "invalid", "c": "!invalid"}
	}
	return j
}

func parseJValue(dec *json.Decoder) (J, error) {
	tok, err := dec.Token()
	if err != nil {
		return nil, err
	}
	switch t := tok.(type) {
	case json.Delim:
		switch t {
		case '{':
			members := []any{}
			var canonParts []string
			type kv struct{ k, c string }
			var kvs []kv
			for dec.More() {
				kt, err := dec.Token()
				if err != nil {
					return nil, err
				}
				k, ok := kt.(string)
				if !ok {
					return nil, fmt.Errorf("non-string key")
				}
				v, err := parseJValue(dec)
				if err != nil {
					return nil, err
				}
				members = append(members, map[string]any{"k": k, "v": v})
				kb, _ := json.Marshal(k)
				kvs = append(kvs, kv{k, string(kb) + ":" + v["c"].(string)})
			}
			if _, err := dec.Token(); err != nil {
				return nil, err
			}
			// canonical text: members sorted by key (stable for duplicates)
			sortStable(kvs, func(a, b kv) bool { return a.k < b.k })
			for _, e := range kvs {
				canonParts = append(canonParts, e.c)
			}
			return J{"t": "obj", "m": members, "c": "{" + strings.Join(canonParts, ",") + "}"}, nil
		case '[':
			list := []any{}
			var parts []string
			for dec.More() {
				v, err := parseJValue(dec)
				if err != nil {
					return nil, err
				}
				list = append(list, v)
				parts = append(parts, v["c"].(string))
			}
			if _, err := dec.Token(); err != nil {
				return nil, err
			}
			return J{"t": "arr", "l": list, "c": "[" + strings.Join(parts, ",") + "]"}, nil
		}
		return nil, fmt.Errorf("unexpected delimiter")
	case string:
		c, _ := json.Marshal(t)
		tt := ""
		if tm, err := time.Parse(time.RFC3339, t); err == nil {
			tt = fmt.Sprintf("t:%d.%09d", tm.Unix(), tm.Nanosecond())
		}
		return J{"t": "str", "s": t, "tok": "s:" + t, "tt": tt, "c": string(c)}, nil
	case json.Number:
		lex := t.String()
		out := J{"t": "num", "s": lex, "i": "", "f": "", "g": "", "i32": false}
		if n, err := strconv.ParseInt(lex, 10, 64); err == nil {
			out["i"] = "i:" + strconv.FormatInt(n, 10)
			out["i32"] = n >= math.MinInt32 && n <= math.MaxInt32
		} else if r, ok := new(big.Rat).SetString(lex); ok && r.IsInt() && r.Num().IsInt64() {
			// an integer written in float notation (5.0, 1e3): the same integer
			n := r.Num().Int64()
			out["i"] = "i:" + strconv.FormatInt(n, 10)
			out["i32"] = n >= math.MinInt32 && n <= math.MaxInt32
		}
		if f, err := strconv.ParseFloat(lex, 64); err == nil {
			out["f"] = "f:" + strconv.FormatFloat(f, 'g', -1, 64)
			out["c"] = strconv.FormatFloat(f, 'g', -1, 64)
		} else {
			out["c"] = lex
		}
		if f, err := strconv.ParseFloat(lex, 32); err == nil {
			out["g"] = "g:" + strconv.FormatFloat(f, 'g', -1, 32)
		}
		return out, nil
	case bool:
		return J{"t": "bool", "tok": "b:" + strconv.FormatBool(t), "c": strconv.FormatBool(t)}, nil
	case nil:
		return J{"t": "null", "c": "null"}, nil
	}
	return nil, fmt.Errorf("unexpected token %v", tok)
}

func sortStable[T any](s []T, less func(a, b T) bool) {
	for i := 1; i < len(s); i++ {
		for j := i; j > 0 && less(s[j], s[j-1]); j-- {
			s[j], s[j-1] = s[j-1], s[j]
		}
	}
}

// CanonAny gives the canonical text of a decoded `any` value the way ParseJ does for JSON text,
// so that "j:"+canonical of a projected any-leaf equals "j:"+J.c of the bytes it was encoded to.
func CanonOfBytes(bs []byte) string {
	j := ParseJ(bs)
	c, _ := j["c"].(string)
	return c
}
