package core

import (
	"bufio"
	"encoding/json"
	"fmt"
	"io"
	"os"
	"os/exec"
	"path/filepath"
	"runtime"
	"sync"
	"time"
)

// WorkerMain is the body of `verifctl worker`: one GenJob per input line, one GenResult per output line.
func WorkerMain() {
	in := bufio.NewReaderSize(os.Stdin, 1<<20)
	out := bufio.NewWriter(os.Stdout)
	// keep goag's own prints away from the protocol stream
	realOut := os.Stdout
	os.Stdout = os.Stderr
	_ = realOut
	for {
		line, err := in.ReadBytes('\n')
		if len(line) > 0 {
			var chain []GenJob
			if jerr := json.Unmarshal(line, &chain); jerr != nil {
				fmt.Fprintf(os.Stderr, "worker: bad job: %v\n", jerr)
				os.Exit(3)
			}
			res := runChain(chain)
			bs, _ := json.Marshal(res)
			out.Write(bs)
			out.WriteByte('\n')
			out.Flush()
		}
		if err != nil {
			return
		}
	}
}

type worker struct {
	cmd *exec.Cmd
	in  io.WriteCloser
	out *bufio.Reader
}

func startWorker() (*worker, error) {
	cmd := exec.Command(os.Args[0], "worker")
	cmd.Stderr = io.Discard
	in, err := cmd.StdinPipe()
	if err != nil {
		return nil, err
	}
	outp, err := cmd.StdoutPipe()
	if err != nil {
		return nil, err
	}
	if err := cmd.Start(); err != nil {
		return nil, err
	}
	return &worker{cmd: cmd, in: in, out: bufio.NewReaderSize(outp, 1<<20)}, nil
}

func (w *worker) stop() {
	w.in.Close()
	done := make(chan struct{})
	go func() { w.cmd.Wait(); close(done) }()
	select {
	case <-done:
	case <-time.After(2 * time.Second):
		w.cmd.Process.Kill()
		<-done
	}
}

// JobTimeout bounds one generation (C15: the generator terminates).
var JobTimeout = 60 * time.Second

// runChain executes jobs one after the other; a job whose OutDir is "@chain" runs in a
// directory shared by the chain (created empty for the first such job, removed at the end).
func runChain(chain []GenJob) []GenResult {
	var out []GenResult
	shared := ""
	for _, j := range chain {
		if j.OutDir == "@chain" {
			if shared == "" {
				d, err := os.MkdirTemp("", "vchain")
				if err != nil {
					out = append(out, GenResult{ID: j.ID, Err: "HARNESS: " + err.Error()})
					continue
				}
				shared = d
			}
			j.OutDir = shared
		}
		for _, del := range j.PreDelete {
			os.Remove(filepath.Join(j.OutDir, del))
		}
		out = append(out, RunGen(j))
	}
	if shared != "" {
		os.RemoveAll(shared)
	}
	return out
}

// RunGenJobs executes independent jobs on the pool and returns results in job order.
func RunGenJobs(jobs []GenJob, nWorkers int) []GenResult {
	chains := make([][]GenJob, len(jobs))
	for i := range jobs {
		chains[i] = []GenJob{jobs[i]}
	}
	rs := RunGenChains(chains, nWorkers)
	out := make([]GenResult, len(jobs))
	for i := range rs {
		if len(rs[i]) == 1 {
			out[i] = rs[i][0]
		} else {
			out[i] = GenResult{ID: jobs[i].ID, Err: "HARNESS-WORKER-DIED"}
		}
	}
	return out
}

// RunGenChains executes chains of jobs (each chain sequentially on one worker process) and
// returns the results in order.  A worker that dies or hangs yields one result with Err
// "HARNESS-WORKER-…" for the chain it held.
func RunGenChains(jobs [][]GenJob, nWorkers int) [][]GenResult {
	if nWorkers <= 0 {
		nWorkers = runtime.NumCPU()
	}
	if nWorkers > len(jobs) {
		nWorkers = len(jobs)
	}
	results := make([][]GenResult, len(jobs))
	idx := make(chan int)
	var wg sync.WaitGroup
	for k := 0; k < nWorkers; k++ {
		wg.Add(1)
		go func() {
			defer wg.Done()
			var w *worker
			defer func() {
				if w != nil {
					w.stop()
				}
			}()
			for i := range idx {
				if w != nil && len(jobs[i]) > 0 && jobs[i][0].FreshProcess {
					w.stop() // this chain wants a process nothing has run in yet
					w = nil
				}
				if w == nil {
					var err error
					w, err = startWorker()
					if err != nil {
						results[i] = []GenResult{{ID: jobs[i][0].ID, Err: "HARNESS-WORKER-START: " + err.Error()}}
						continue
					}
				}
				bs, _ := json.Marshal(jobs[i])
				bs = append(bs, '\n')
				type rd struct {
					line []byte
					err  error
				}
				ch := make(chan rd, 1)
				go func(w *worker) {
					if _, err := w.in.Write(bs); err != nil {
						ch <- rd{nil, err}
						return
					}
					l, err := w.out.ReadBytes('\n')
					ch <- rd{l, err}
				}(w)
				select {
				case r := <-ch:
					if r.err != nil || json.Unmarshal(r.line, &results[i]) != nil {
						results[i] = []GenResult{{ID: jobs[i][0].ID, Err: "HARNESS-WORKER-DIED", Panic: "worker process died (os.Exit / fatal error / runtime crash)"}}
						w.cmd.Process.Kill()
						w.cmd.Wait()
						w = nil
					}
				case <-time.After(JobTimeout):
					results[i] = []GenResult{{ID: jobs[i][0].ID, Err: "HARNESS-WORKER-TIMEOUT", Panic: fmt.Sprintf("generation did not terminate within %s", JobTimeout)}}
					w.cmd.Process.Kill()
					w.cmd.Wait()
					w = nil
				}
			}
		}()
	}
	for i := range jobs {
		idx <- i
	}
	close(idx)
	wg.Wait()
	return results
}
