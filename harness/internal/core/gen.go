// Package core holds the parts of the harness every check shares: in-process
// generation with goag built from /repo's working tree, the worker pool, the
// TLC runner, evidence and known-findings handling.
package core

import (
	"bytes"
	"crypto/sha256"
	"encoding/hex"
	"fmt"
	"go/ast"
	"go/build"
	"go/format"
	"go/importer"
	"go/parser"
	"go/token"
	"go/types"
	"log"
	"os"
	"path/filepath"
	"runtime/debug"
	"sort"
	"strings"
	"sync"

	"github.com/vkd/goag"
	"github.com/vkd/goag/generator"
)

// GenJob is one invocation of goag.Generator.GenerateFile.
type GenJob struct {
	ID          string            `json:"id"`
	Spec        string            `json:"spec"`     // spec file content
	SpecName    string            `json:"specName"` // e.g. openapi.yaml
	OutDir      string            `json:"outDir"`   // "" = fresh temp dir, removed afterwards unless Keep
	Keep        bool              `json:"keep"`
	Package     string            `json:"package"`
	BasePath    string            `json:"basePath"`
	Config      string            `json:"config"` // .goag.yaml content, "" = none
	SpecHandler string            `json:"specHandler"`
	Client      bool              `json:"client"`
	APIHandler  bool              `json:"apiHandler"`
	DoNotEdit   bool              `json:"doNotEdit"`
	Check       bool              `json:"check"`       // parse + gofmt + type-check the result
	ReturnFiles bool              `json:"returnFiles"` // include file contents in the result
	Registry    bool              `json:"registry"`    // write registry_verif.go next to the output
	PreFiles    map[string]string `json:"preFiles"`    // files written into OutDir before the run
	PreDelete   []string          `json:"preDelete"`   // files removed from OutDir before the run (chains)
	// Batch: non-empty = one call of Generator.GenerateDir over a directory with one sub-directory per item (each
	// with its own spec and .goag.yaml) instead of GenerateFile; the result lists "<item>/<file>"
	Batch []BatchItem `json:"batch,omitempty"`
	// Surround: the run happens in hostile surroundings that are none of its inputs - a different .goag.yaml and
	// another spec in the directory above the spec's, a sub-directory with a config of its own, another working
	// directory, TZ / LANG / GOAG_* environment variables
	Surround bool `json:"surround,omitempty"`
	// FreshProcess (first job of a chain): the chain runs in a worker process that has not run anything before
	FreshProcess bool `json:"freshProcess,omitempty"`
}

// BatchItem is one sub-directory of a `goag --dir` run.
type BatchItem struct {
	Name   string `json:"name"`
	Spec   string `json:"spec"`   // "" = the sub-directory holds no spec file
	Config string `json:"config"` // .goag.yaml content, "" = none
}

type FileInfo struct {
	Sha     string `json:"sha"`
	Size    int    `json:"size"`
	Content string `json:"content,omitempty"`
}

type GenResult struct {
	ID         string              `json:"id"`
	OK         bool                `json:"ok"`
	Err        string              `json:"err"`
	Panic      string              `json:"panic"`
	Log        string              `json:"log"`
	OutDir     string              `json:"outDir"`
	Files      map[string]FileInfo `json:"files"`
	ParseErr   []string            `json:"parseErr"`
	FmtDiff    []string            `json:"fmtDiff"`
	TypeErr    []string            `json:"typeErr"`
	Excluded   []string            `json:"excluded,omitempty"`
	Checked    bool                `json:"checked"`
	Templates  []string            `json:"templates"`
	RouterDump string              `json:"routerDump,omitempty"`
}

// Builds reports whether the output is a well-formed package (only meaningful when Checked).
func (r *GenResult) Builds() bool {
	return r.OK && r.Checked && len(r.ParseErr) == 0 && len(r.TypeErr) == 0
}

var genMu sync.Mutex

// RunGen executes one job in this process.  The log package and the verif hook
// are process-global, so jobs are serialised; parallelism comes from worker
// processes (pool.go).
func RunGen(job GenJob) (res GenResult) {
	genMu.Lock()
	defer genMu.Unlock()
	res.ID = job.ID

	tmp, err := os.MkdirTemp("", "vgen")
	if err != nil {
		res.Err = "HARNESS: " + err.Error()
		return res
	}
	defer os.RemoveAll(tmp)

	outDir := job.OutDir
	if outDir == "" {
		outDir = filepath.Join(tmp, "out")
		if job.Keep {
			outDir, err = os.MkdirTemp("", "vout")
			if err != nil {
				res.Err = "HARNESS: " + err.Error()
				return res
			}
		}
	}
	if err := os.MkdirAll(outDir, 0o755); err != nil {
		res.Err = "HARNESS: " + err.Error()
		return res
	}
	res.OutDir = outDir
	for name, content := range job.PreFiles {
		if err := os.WriteFile(filepath.Join(outDir, name), []byte(content), 0o644); err != nil {
			res.Err = "HARNESS: " + err.Error()
			return res
		}
	}
	specName := job.SpecName
	if specName == "" {
		specName = "openapi.yaml"
	}
	specDir := tmp
	if job.Surround {
		specDir = filepath.Join(tmp, "outer", "inner")
		os.MkdirAll(filepath.Join(specDir, "sub"), 0o755)
		decoyCfg := "cors:\n  enable: true\n"
		decoySpec := "openapi: 3.0.0\ninfo: {title: decoy, version: \"9\"}\npaths:\n  /decoy:\n    get:\n      responses:\n        '200': {description: ok}\n"
		os.WriteFile(filepath.Join(tmp, "outer", ".goag.yaml"), []byte(decoyCfg), 0o644)
		os.WriteFile(filepath.Join(tmp, "outer", specName), []byte(decoySpec), 0o644)
		os.WriteFile(filepath.Join(tmp, ".goag.yaml"), []byte(decoyCfg), 0o644)
		os.WriteFile(filepath.Join(specDir, "sub", ".goag.yaml"), []byte(decoyCfg), 0o644)
		os.WriteFile(filepath.Join(specDir, "sub", specName), []byte(decoySpec), 0o644)
		if wd, err := os.Getwd(); err == nil {
			if os.Chdir(filepath.Join(specDir, "sub")) == nil {
				defer os.Chdir(wd)
			}
		}
		for k, v := range map[string]string{"TZ": "Pacific/Kiritimati", "LANG": "tr_TR.UTF-8", "LC_ALL": "tr_TR.UTF-8", "GOAG_CONFIG": filepath.Join(tmp, "outer", ".goag.yaml"), "GOAG_CORS": "true", "HOME": filepath.Join(tmp, "outer")} {
			old, had := os.LookupEnv(k)
			os.Setenv(k, v)
			k, old, had := k, old, had
			defer func() {
				if had {
					os.Setenv(k, old)
				} else {
					os.Unsetenv(k)
				}
			}()
		}
	}
	specFile := filepath.Join(specDir, specName)
	if err := os.WriteFile(specFile, []byte(job.Spec), 0o644); err != nil {
		res.Err = "HARNESS: " + err.Error()
		return res
	}
	cfgFile := filepath.Join(specDir, ".goag.yaml")
	if job.Config != "" {
		if err := os.WriteFile(cfgFile, []byte(job.Config), 0o644); err != nil {
			res.Err = "HARNESS: " + err.Error()
			return res
		}
	}
	pkg := job.Package
	if pkg == "" {
		pkg = "gen"
	}
	batchRoot := filepath.Join(tmp, "batch")
	if len(job.Batch) > 0 {
		os.MkdirAll(batchRoot, 0o755)
		os.WriteFile(filepath.Join(batchRoot, "README.txt"), []byte("not a directory\n"), 0o644) // entries that are not directories are skipped
		for _, it := range job.Batch {
			d := filepath.Join(batchRoot, it.Name)
			os.MkdirAll(d, 0o755)
			if it.Spec != "" {
				os.WriteFile(filepath.Join(d, specName), []byte(it.Spec), 0o644)
			}
			if it.Config != "" {
				os.WriteFile(filepath.Join(d, ".goag.yaml"), []byte(it.Config), 0o644)
			}
		}
	}

	var logBuf bytes.Buffer
	oldW, oldF := log.Writer(), log.Flags()
	log.SetOutput(&logBuf)
	log.SetFlags(0)
	tmplSeen := map[string]bool{}
	setVerifHook(func(ev string, data any) {
		switch ev {
		case "template":
			if s, ok := data.(string); ok {
				tmplSeen[s] = true
			}
		case "router":
			if r, ok := data.(*generator.Router); ok {
				res.RouterDump = dumpRouter(r)
			}
		}
	})
	func() {
		defer func() {
			if p := recover(); p != nil {
				res.Panic = fmt.Sprintf("%v\n%s", p, debug.Stack())
			}
		}()
		g := goag.Generator{GenClient: job.Client, GenAPIHandler: job.APIHandler, DoNotEdit: job.DoNotEdit}
		var gerr error
		if len(job.Batch) > 0 {
			gerr = g.GenerateDir(batchRoot, "out", pkg, specName, job.BasePath, ".goag.yaml", job.SpecHandler)
		} else {
			gerr = g.GenerateFile(outDir, pkg, specFile, job.BasePath, cfgFile, job.SpecHandler)
		}
		if gerr != nil {
			res.Err = gerr.Error()
			if res.Err == "" {
				res.Err = "(empty error text)"
			}
		} else {
			res.OK = true
		}
	}()
	setVerifHook(nil)
	log.SetOutput(oldW)
	log.SetFlags(oldF)
	res.Log = logBuf.String()
	for t := range tmplSeen {
		res.Templates = append(res.Templates, t)
	}
	sort.Strings(res.Templates)

	res.Files = map[string]FileInfo{}
	for _, it := range job.Batch {
		ents, _ := os.ReadDir(filepath.Join(batchRoot, it.Name, "out"))
		for _, e := range ents {
			bs, err := os.ReadFile(filepath.Join(batchRoot, it.Name, "out", e.Name()))
			if err != nil {
				continue
			}
			h := sha256.Sum256(bs)
			res.Files[it.Name+"/"+e.Name()] = FileInfo{Sha: hex.EncodeToString(h[:8]), Size: len(bs)}
		}
	}
	ents, _ := os.ReadDir(outDir)
	for _, e := range ents {
		if e.IsDir() {
			res.Files[e.Name()+"/"] = FileInfo{}
			continue
		}
		bs, err := os.ReadFile(filepath.Join(outDir, e.Name()))
		if err != nil {
			continue
		}
		h := sha256.Sum256(bs)
		fi := FileInfo{Sha: hex.EncodeToString(h[:8]), Size: len(bs)}
		if job.ReturnFiles {
			fi.Content = string(bs)
		}
		res.Files[e.Name()] = fi
	}
	if job.Check && res.OK {
		checkPackage(outDir, &res)
	}
	if job.Registry && res.OK {
		if err := WriteRegistry(outDir); err != nil {
			res.TypeErr = append(res.TypeErr, "registry: "+err.Error())
		}
	}
	if !(job.Keep || job.OutDir != "") {
		res.OutDir = ""
	}
	return res
}

var (
	impOnce sync.Once
	impFset *token.FileSet
	imp     types.Importer
)

// checkPackage applies the C01 predicates to the goag-owned files of dir:
// every file parses, gofmt is a fixpoint on it, and together they type-check
// against the standard library (source importer, no network, no build cache).
func checkPackage(dir string, res *GenResult) {
	res.Checked = true
	impOnce.Do(func() {
		impFset = token.NewFileSet()
		imp = importer.ForCompiler(impFset, "source", nil)
	})
	fset := token.NewFileSet()
	var files []*ast.File
	names := make([]string, 0, len(res.Files))
	for n := range res.Files {
		if strings.HasSuffix(n, ".go") && !strings.HasSuffix(n, "_verif.go") && !strings.HasSuffix(n, "_test.go") {
			names = append(names, n)
		}
	}
	sort.Strings(names)
	for _, n := range names {
		src, err := os.ReadFile(filepath.Join(dir, n))
		if err != nil {
			res.ParseErr = append(res.ParseErr, n+": "+err.Error())
			continue
		}
		f, err := parser.ParseFile(fset, n, src, parser.ParseComments)
		if err != nil {
			res.ParseErr = append(res.ParseErr, trunc(err.Error(), 300))
			continue
		}
		// a file whose own build constraints exclude it is not part of the package the go tool builds
		if ok, err := build.Default.MatchFile(dir, n); err == nil && !ok {
			res.Excluded = append(res.Excluded, n)
		} else {
			files = append(files, f)
		}
		fm, err := format.Source(src)
		if err != nil {
			res.FmtDiff = append(res.FmtDiff, n+": gofmt error: "+trunc(err.Error(), 200))
		} else if !bytes.Equal(fm, src) {
			res.FmtDiff = append(res.FmtDiff, n+": not gofmt-stable ("+firstDiff(src, fm)+")")
		}
	}
	if len(res.ParseErr) > 0 {
		return
	}
	if len(files) == 0 {
		return
	}
	conf := types.Config{Importer: imp, Error: func(err error) {
		if len(res.TypeErr) < 8 {
			res.TypeErr = append(res.TypeErr, trunc(err.Error(), 300))
		}
	}}
	_, _ = conf.Check("gen", fset, files, nil)
	if len(res.Excluded) > 0 && len(res.TypeErr) < 8 {
		res.TypeErr = append(res.TypeErr, "excluded from the build by build constraints in the generated text: "+strings.Join(res.Excluded, ", "))
	}
}

func firstDiff(a, b []byte) string {
	la := strings.Split(string(a), "\n")
	lb := strings.Split(string(b), "\n")
	for i := 0; i < len(la) && i < len(lb); i++ {
		if la[i] != lb[i] {
			return fmt.Sprintf("line %d: %q vs %q", i+1, trunc(la[i], 80), trunc(lb[i], 80))
		}
	}
	return fmt.Sprintf("length %d vs %d lines", len(la), len(lb))
}

func trunc(s string, n int) string {
	if len(s) > n {
		return s[:n] + "…"
	}
	return s
}

// dumpRouter renders the route tree goag built (drift diagnostics for the Impl layer of Router.tla).
func dumpRouter(r *generator.Router) string {
	var b strings.Builder
	var walk func(rt *generator.Route, ind string)
	walk = func(rt *generator.Route, ind string) {
		if rt == nil {
			return
		}
		fmt.Fprintf(&b, "%snode %q prefix=%q\n", ind, rt.Name, rt.Prefix)
		for _, p := range rt.PrefixPathItems {
			fmt.Fprintf(&b, "%s leaf %q -> %s jwt=%v\n", ind, p.Prefix, p.RawPath, p.JWT)
		}
		if rt.Variable != nil {
			fmt.Fprintf(&b, "%s varleaf -> %s jwt=%v\n", ind, rt.Variable.RawPath, rt.Variable.JWT)
		}
		for _, c := range rt.Routes {
			walk(c, ind+"  ")
		}
		if rt.VariableRoute != nil {
			fmt.Fprintf(&b, "%s var:\n", ind)
			walk(rt.VariableRoute, ind+"  ")
		}
	}
	if len(r.Routes) > 0 {
		walk(r.Routes[0], "")
	}
	return b.String()
}

// ShaOf returns the content token used for files (first 8 bytes of sha256, hex).
func ShaOf(bs []byte) string {
	h := sha256.Sum256(bs)
	return hex.EncodeToString(h[:8])
}

// RepoDir is where vkd/goag lives: /repo.  bin/mutest points VERIF_REPO at a scratch copy carrying a seeded
// change (verifctl is then built against that copy through an alternate go.mod), so that testing a seed neither
// touches /repo nor disturbs checks running against it.  Registered checks never set it.
func RepoDir() string {
	if d := os.Getenv("VERIF_REPO"); d != "" {
		return d
	}
	return "/repo"
}
