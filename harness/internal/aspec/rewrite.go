package aspec

import (
	"encoding/json"
	"fmt"
)

// Variant says, per category of reference sites, what a rewrite does with them (spec/Refs.tla).
type Variant struct {
	ParamSchemas string `json:"paramSchemas"` // keep | inline | hoist
	Params       string `json:"params"`
	Bodies       string `json:"bodies"`
	Responses    string `json:"responses"`
	Headers      string `json:"headers"`
	HoistProps   bool   `json:"hoistProps"` // additionally hoist object property / array item schemas into components
}

func (a ASpec) Clone() *ASpec {
	bs, _ := json.Marshal(a)
	var out ASpec
	json.Unmarshal(bs, &out)
	return &out
}

func (a *ASpec) schemaByName(n string) (Schema, bool) {
	for _, s := range a.Schemas {
		if s.Name == n {
			return s.Schema, true
		}
	}
	return Schema{}, false
}

// ResolveDeep replaces references by copies of their targets (oneOf variants stay references: a
// discriminator needs named variants).
func (a *ASpec) ResolveDeep(s Schema, depth int) Schema {
	if depth > 10 {
		return s
	}
	switch s.K {
	case "ref":
		if t, ok := a.schemaByName(s.To); ok {
			r := a.ResolveDeep(t, depth+1)
			return r
		}
		return s
	case "array":
		if s.Items != nil {
			it := a.ResolveDeep(*s.Items, depth+1)
			s.Items = &it
		}
	case "object":
		ps := make([]Prop, len(s.Props))
		for i, p := range s.Props {
			p.Schema = a.ResolveDeep(p.Schema, depth+1)
			ps[i] = p
		}
		s.Props = ps
		if s.Addl != nil {
			ad := a.ResolveDeep(*s.Addl, depth+1)
			s.Addl = &ad
		}
	case "allOf":
		of := make([]Schema, len(s.Of))
		for i, m := range s.Of {
			of[i] = a.ResolveDeep(m, depth+1)
		}
		s.Of = of
	}
	return s
}

// Rewrite returns a copy of the spec with the reference sites of each category inlined or hoisted.
func (a ASpec) Rewrite(v Variant) *ASpec {
	out := a.Clone()
	n := 0
	fresh := func(prefix string) string { n++; return fmt.Sprintf("%s%d", prefix, n) }
	hoistSchema := func(s Schema) Schema {
		if s.K == "ref" {
			return s
		}
		name := fresh("Hoisted")
		out.Schemas = append(out.Schemas, NamedSchema{Name: name, Schema: s})
		return Schema{K: "ref", To: name}
	}
	paramSchema := func(s Schema) Schema {
		switch v.ParamSchemas {
		case "inline":
			return out.ResolveDeep(s, 0)
		case "hoist":
			if s.K == "array" && s.Items != nil {
				it := hoistSchema(*s.Items)
				s.Items = &it
				return s
			}
			return hoistSchema(s)
		}
		return s
	}
	findParam := func(name string) (Param, bool) {
		for _, p := range out.Parameters {
			if p.Name == name {
				return p.Param, true
			}
		}
		return Param{}, false
	}
	doParam := func(p Param) Param {
		if p.Ref != "" {
			if v.Params == "inline" {
				if t, ok := findParam(p.Ref); ok {
					t.Schema = paramSchema(t.Schema)
					return t
				}
			}
			return p
		}
		p.Schema = paramSchema(p.Schema)
		if v.Params == "hoist" {
			name := fresh("HoistedParam")
			out.Parameters = append(out.Parameters, NamedParam{Name: name, Param: p})
			return Param{Ref: name, In: p.In, Name: p.Name}
		}
		return p
	}
	findResp := func(name string) *Response {
		for hops := 0; hops < 6; hops++ {
			for _, r := range out.Responses {
				if r.Name == name {
					if r.Alias != "" {
						name = r.Alias
						break
					}
					return r.R
				}
			}
		}
		return nil
	}
	findHeader := func(name string) (Header, bool) {
		for _, h := range out.Headers {
			if h.Name == name {
				return h.Header, true
			}
		}
		return Header{}, false
	}
	doBody := func(b Body) Body {
		switch v.Bodies {
		case "inline":
			if b.K == "ref" {
				for _, rb := range out.RequestBodies {
					if rb.Name == b.To {
						b = rb.Body
					}
				}
			}
			if b.K == "json" && b.Schema != nil {
				s := out.ResolveDeep(*b.Schema, 0)
				b.Schema = &s
			}
		case "hoist":
			if b.K == "json" && b.Schema != nil && b.Schema.K != "ref" {
				s := hoistSchema(*b.Schema)
				b.Schema = &s
			}
		}
		return b
	}
	doResponse := func(r Response) Response {
		hs := make([]Header, len(r.Headers))
		for i, h := range r.Headers {
			switch v.Headers {
			case "inline":
				if h.Ref != "" {
					if t, ok := findHeader(h.Ref); ok {
						t.Name = h.Name
						h = t
					}
				}
			case "hoist":
				if h.Ref == "" {
					name := fresh("HoistedHeader")
					out.Headers = append(out.Headers, NamedHeader{Name: name, Header: h})
					h = Header{Name: h.Name, Ref: name, Req: h.Req, Schema: h.Schema}
				}
			}
			hs[i] = h
		}
		r.Headers = hs
		r.Body = doBody(r.Body)
		return r
	}
	// component parameters first (their schemas), then uses
	for i := range out.Parameters {
		out.Parameters[i].Param.Schema = paramSchema(out.Parameters[i].Param.Schema)
	}
	for pi := range out.Paths {
		for k := range out.Paths[pi].Params {
			out.Paths[pi].Params[k] = doParam(out.Paths[pi].Params[k])
		}
		for oi := range out.Paths[pi].Ops {
			op := &out.Paths[pi].Ops[oi]
			for k := range op.Params {
				op.Params[k] = doParam(op.Params[k])
			}
			op.Body = doBody(op.Body)
			for ri := range op.Responses {
				rr := &op.Responses[ri]
				switch {
				case rr.Ref != "" && v.Responses == "inline":
					if t := findResp(rr.Ref); t != nil {
						c := doResponse(*t)
						rr.Ref, rr.R = "", &c
					}
				case rr.Ref == "" && rr.R != nil:
					c := doResponse(*rr.R)
					rr.R = &c
					if v.Responses == "hoist" {
						name := fresh("HoistedResponse")
						out.Responses = append(out.Responses, NamedResponse{Name: name, R: rr.R})
						rr.Ref, rr.R = name, nil
					}
				}
			}
		}
	}
	if v.HoistProps {
		// object properties and array items of every component schema become references
		for i := 0; i < len(out.Schemas); i++ {
			s := out.Schemas[i].Schema
			switch s.K {
			case "object":
				for k := range s.Props {
					s.Props[k].Schema = hoistSchema(s.Props[k].Schema)
				}
			case "array":
				if s.Items != nil {
					it := hoistSchema(*s.Items)
					s.Items = &it
				}
			}
			out.Schemas[i].Schema = s
			if i > 400 {
				break
			}
		}
	}
	return out
}
