// Package aspec defines the abstract spec (DESIGN §3.1) exchanged between TLC, the harness
// and the renderer, and renders it to an OpenAPI 3.0 document in JSON syntax.
package aspec

import (
	"encoding/json"
	"fmt"
	"net/url"
	"strings"

	"verif/internal/core"
)

type Seg struct {
	K string `json:"k"` // lit | var
	S string `json:"s"`
}

type Prop struct {
	Name   string `json:"name"`
	Schema Schema `json:"schema"`
	Req    bool   `json:"req"`
}

type KV struct {
	K string `json:"k"`
	V string `json:"v"`
}

type Schema struct {
	K        string   `json:"k"` // bool int int32 int64 double float string date byte password datetime any array object allOf oneOf ref
	Nullable bool     `json:"nullable"`
	Items    *Schema  `json:"items,omitempty"`
	Props    []Prop   `json:"props,omitempty"`
	AddlK    string   `json:"addlK,omitempty"` // "" (silent) | any | schema | false
	Addl     *Schema  `json:"addl,omitempty"`
	Of       []Schema `json:"of,omitempty"`
	AlsoReq  []string `json:"alsoReq,omitempty"` // allOf: a `required` list written next to the allOf (names declared by the members)
	DiscProp string   `json:"discProp,omitempty"`
	DiscMap  []KV     `json:"discMap,omitempty"` // value -> component schema name
	To       string   `json:"to,omitempty"`
	Desc     string   `json:"desc,omitempty"`
	// Attrs: annotation keywords written next to the schema's own (readOnly, writeOnly, deprecated, example, title,
	// default ...): none of them changes which documents are valid for the type or what its codec has to do
	Attrs map[string]any `json:"attrs,omitempty"`
}

type Param struct {
	In     string `json:"in"`
	Name   string `json:"name"`
	Req    bool   `json:"req"`
	Schema Schema `json:"schema"`
	Ref    string `json:"ref,omitempty"` // non-empty: $ref to components.parameters[Ref]; other fields describe the target
	Desc   string `json:"desc,omitempty"`
	// Attrs: further keys of the parameter object, written as they are (serialisation attributes at their default
	// values, allowReserved, deprecated, examples ...): none of them changes what a round trip must deliver
	Attrs map[string]any `json:"attrs,omitempty"`
}

type Header struct {
	Name   string `json:"name"`
	Req    bool   `json:"req"`
	Schema Schema `json:"schema"`
	Ref    string `json:"ref,omitempty"` // $ref to components.headers
}

type Body struct {
	K      string  `json:"k"` // none | json | raw | ref
	Schema *Schema `json:"schema,omitempty"`
	Media  string  `json:"media,omitempty"`
	To     string  `json:"to,omitempty"`
	Req    bool    `json:"req,omitempty"`
	// Alt: further media types the body is declared with besides application/json (same schema for +json types,
	// binary otherwise); application/json stays the one the generated code speaks.
	Alt []string `json:"alt,omitempty"`
}

type Response struct {
	Headers []Header `json:"headers,omitempty"`
	Desc    string   `json:"desc,omitempty"`
	Body    Body     `json:"body"`
}

type RespRef struct {
	Status string    `json:"status"` // "200" … or "default"
	Ref    string    `json:"ref,omitempty"`
	R      *Response `json:"r,omitempty"`
}

type Sec struct {
	K    string     `json:"k"` // none | inherit | list
	List [][]string `json:"list"`
}

type Op struct {
	Method    string    `json:"method"`
	OpID      string    `json:"opId,omitempty"`
	Security  Sec       `json:"security"`
	Params    []Param   `json:"params,omitempty"`
	Body      Body      `json:"body"`
	Responses []RespRef `json:"responses"`
	Summary   string    `json:"summary,omitempty"`
	Desc      string    `json:"desc,omitempty"`
}

type PathItem struct {
	Template []Seg   `json:"template"`
	Params   []Param `json:"params,omitempty"`
	Ops      []Op    `json:"ops"`
}

type Base struct {
	Form          string   `json:"form"` // none | servers | flag
	Segs          []string `json:"segs"`
	TrailingSlash bool     `json:"trailingSlash"`
	Absolute      bool     `json:"absolute"`
	ViaVariables  bool     `json:"viaVariables"`
	// AlsoServers: with Form "flag", the document additionally declares servers whose path the flag overrides.
	AlsoServers bool `json:"alsoServers,omitempty"`
	// RepeatVar: with ViaVariables, the variable occurs more than once in the server URL.
	RepeatVar bool `json:"repeatVar,omitempty"`
}

type Scheme struct {
	Key  string `json:"key"`
	Kind string `json:"kind"` // bearer apiKeyHeader apiKeyQuery basic apiKeyCookie oauth2 openIdConnect
	Name string `json:"name"`
	// Spell: how the http auth scheme name is written ("" = bearer); the names are case-insensitive (RFC 7235), the
	// IANA registry writes "Bearer"
	Spell string `json:"spell,omitempty"`
}

type NamedSchema struct {
	Name   string `json:"name"`
	Schema Schema `json:"schema"`
}
type NamedParam struct {
	Name  string `json:"name"`
	Param Param  `json:"param"`
}
type NamedHeader struct {
	Name   string `json:"name"`
	Header Header `json:"header"`
}
type NamedResponse struct {
	Name  string    `json:"name"`
	Alias string    `json:"alias,omitempty"` // $ref to another component response
	R     *Response `json:"r,omitempty"`
}
type NamedBody struct {
	Name string `json:"name"`
	Body Body   `json:"body"`
}

type Flags struct {
	Client     bool `json:"client"`
	DoNotEdit  bool `json:"doNotEdit"`
	Cors       bool `json:"cors"`
	APIHandler bool `json:"apiHandler"`
}

type ASpec struct {
	// NoComposite: builders of random operations do not put random schema compositions into bodies (C01 judges
	// build failures per feature cell; compositions mix features whose failures are open findings).
	NoComposite   bool            `json:"-"`
	Base          Base            `json:"base"`
	SpecName      string          `json:"specName"`
	Flags         Flags           `json:"flags"`
	Schemes       []Scheme        `json:"schemes,omitempty"`
	Security      Sec             `json:"security"`
	Schemas       []NamedSchema   `json:"schemas,omitempty"`
	Parameters    []NamedParam    `json:"parameters,omitempty"`
	Headers       []NamedHeader   `json:"headers,omitempty"`
	Responses     []NamedResponse `json:"responses,omitempty"`
	RequestBodies []NamedBody     `json:"requestBodies,omitempty"`
	Paths         []PathItem      `json:"paths"`
	Title         string          `json:"title,omitempty"`
	InfoDesc      string          `json:"infoDesc,omitempty"`
}

// TemplateString renders a template as an OpenAPI path key.
func TemplateString(t []Seg) string {
	var b strings.Builder
	for _, s := range t {
		b.WriteByte('/')
		if s.K == "var" {
			b.WriteString("{" + s.S + "}")
		} else {
			b.WriteString(s.S)
		}
	}
	if len(t) == 0 {
		return "/"
	}
	return b.String()
}

// BaseNF is the normal form of the base path: "" or "/seg/seg".
func (b Base) NF() string {
	if b.Form == "none" || len(b.Segs) == 0 {
		return ""
	}
	return "/" + strings.Join(b.Segs, "/")
}

func schemaJSON(s Schema) map[string]any {
	m := map[string]any{}
	if s.K != "ref" {
		for k, v := range s.Attrs {
			m[k] = v
		}
	}
	if s.Desc != "" {
		m["description"] = s.Desc
	}
	switch s.K {
	case "ref":
		return map[string]any{"$ref": "#/components/schemas/" + s.To}
	case "bool":
		m["type"] = "boolean"
	case "int":
		m["type"] = "integer"
	case "int32":
		m["type"], m["format"] = "integer", "int32"
	case "int64":
		m["type"], m["format"] = "integer", "int64"
	case "double":
		m["type"] = "number"
	case "float":
		m["type"], m["format"] = "number", "float"
	case "string":
		m["type"] = "string"
	case "date", "byte", "password", "binary":
		m["type"], m["format"] = "string", s.K
	case "datetime":
		m["type"], m["format"] = "string", "date-time"
	case "any":
		// no type
	case "array":
		m["type"] = "array"
		if s.Items != nil {
			m["items"] = schemaJSON(*s.Items)
		}
	case "object":
		m["type"] = "object"
		props := map[string]any{}
		var req []string
		for _, p := range s.Props {
			props[p.Name] = schemaJSON(p.Schema)
			if p.Req {
				req = append(req, p.Name)
			}
		}
		if len(props) > 0 {
			m["properties"] = props
		}
		if len(req) > 0 {
			m["required"] = req
		}
		switch s.AddlK {
		case "any":
			m["additionalProperties"] = true
		case "false":
			m["additionalProperties"] = false
		case "schema":
			m["additionalProperties"] = schemaJSON(*s.Addl)
		}
	case "allOf", "oneOf":
		var of []any
		for _, x := range s.Of {
			of = append(of, schemaJSON(x))
		}
		m[s.K] = of
		if s.K == "allOf" && len(s.AlsoReq) > 0 {
			m["required"] = s.AlsoReq
		}
		if s.K == "oneOf" && s.DiscProp != "" {
			d := map[string]any{"propertyName": s.DiscProp}
			if len(s.DiscMap) > 0 {
				mp := map[string]any{}
				for _, kv := range s.DiscMap {
					mp[kv.K] = "#/components/schemas/" + kv.V
				}
				d["mapping"] = mp
			}
			m["discriminator"] = d
		}
	default:
		panic("aspec: unknown schema kind " + s.K)
	}
	if s.Nullable {
		m["nullable"] = true
	}
	return m
}

func paramJSON(p Param) map[string]any {
	if p.Ref != "" {
		return map[string]any{"$ref": "#/components/parameters/" + p.Ref}
	}
	m := map[string]any{"name": p.Name, "in": p.In, "schema": schemaJSON(p.Schema)}
	for k, v := range p.Attrs {
		m[k] = v
	}
	if p.Req {
		m["required"] = true
	}
	if p.Desc != "" {
		m["description"] = p.Desc
	}
	return m
}

func headerJSON(h Header) map[string]any {
	if h.Ref != "" {
		return map[string]any{"$ref": "#/components/headers/" + h.Ref}
	}
	m := map[string]any{"schema": schemaJSON(h.Schema)}
	if h.Req {
		m["required"] = true
	}
	return m
}

func bodyContent(b Body) map[string]any {
	switch b.K {
	case "json":
		m := map[string]any{"application/json": map[string]any{"schema": schemaJSON(*b.Schema)}}
		for _, mt := range b.Alt {
			if strings.HasSuffix(mt, "+json") {
				m[mt] = map[string]any{"schema": schemaJSON(*b.Schema)}
			} else {
				m[mt] = map[string]any{"schema": map[string]any{"type": "string", "format": "binary"}}
			}
		}
		return m
	case "raw":
		return map[string]any{b.Media: map[string]any{"schema": map[string]any{"type": "string", "format": "binary"}}}
	}
	return nil
}

func responseJSON(r Response) map[string]any {
	m := map[string]any{"description": r.Desc}
	if len(r.Headers) > 0 {
		hs := map[string]any{}
		for _, h := range r.Headers {
			hs[h.Name] = headerJSON(h)
		}
		m["headers"] = hs
	}
	if c := bodyContent(r.Body); c != nil {
		m["content"] = c
	}
	return m
}

func secJSON(s Sec) []any {
	out := []any{}
	for _, alt := range s.List {
		o := map[string]any{}
		for _, k := range alt {
			o[k] = []any{}
		}
		out = append(out, o)
	}
	return out
}

func schemeJSON(s Scheme) map[string]any {
	switch s.Kind {
	case "bearer":
		if s.Spell != "" {
			return map[string]any{"type": "http", "scheme": s.Spell}
		}
		return map[string]any{"type": "http", "scheme": "bearer"}
	case "basic":
		return map[string]any{"type": "http", "scheme": "basic"}
	case "apiKeyHeader":
		return map[string]any{"type": "apiKey", "in": "header", "name": s.Name}
	case "apiKeyQuery":
		return map[string]any{"type": "apiKey", "in": "query", "name": s.Name}
	case "apiKeyCookie":
		return map[string]any{"type": "apiKey", "in": "cookie", "name": s.Name}
	case "oauth2":
		return map[string]any{"type": "oauth2", "flows": map[string]any{"implicit": map[string]any{"authorizationUrl": "https://example.test/auth", "scopes": map[string]any{}}}}
	case "openIdConnect":
		return map[string]any{"type": "openIdConnect", "openIdConnectUrl": "https://example.test/.well-known/openid-configuration"}
	}
	panic("aspec: unknown scheme kind " + s.Kind)
}

// Document renders the OpenAPI document as a JSON value.
func (a ASpec) Document() map[string]any {
	title := a.Title
	if title == "" {
		title = "aspec"
	}
	info := map[string]any{"title": title, "version": "1.0.0"}
	if a.InfoDesc != "" {
		info["description"] = a.InfoDesc
	}
	doc := map[string]any{"openapi": "3.0.3", "info": info}
	if a.Base.Form == "servers" {
		// (a URL: segments that need it are percent-encoded - "pet store" -> "pet%20store"; the base path is the decoded path)
		esc := make([]string, len(a.Base.Segs))
		for i, sg := range a.Base.Segs {
			esc[i] = url.PathEscape(sg)
		}
		p := ""
		if len(esc) > 0 {
			p = "/" + strings.Join(esc, "/")
		}
		if a.Base.TrailingSlash || (len(a.Base.Segs) == 0) {
			p += "/"
		}
		srv := map[string]any{}
		switch {
		case a.Base.ViaVariables && len(a.Base.Segs) > 0:
			// last segment through a server variable
			segs := append(append([]string{}, a.Base.Segs[:len(a.Base.Segs)-1]...), "{ver}")
			if a.Base.RepeatVar {
				// the same variable more than once in the URL: every earlier segment equal to its default, and the host
				for i := range segs {
					if segs[i] == a.Base.Segs[len(a.Base.Segs)-1] {
						segs[i] = "{ver}"
					}
				}
			}
			vp := "/" + strings.Join(segs, "/")
			if a.Base.TrailingSlash {
				vp += "/"
			}
			url := vp
			if a.Base.Absolute {
				url = "https://{host}" + vp
				if a.Base.RepeatVar {
					url = "https://{ver}.{host}" + vp
				}
				srv["variables"] = map[string]any{"ver": map[string]any{"default": a.Base.Segs[len(a.Base.Segs)-1]}, "host": map[string]any{"default": "api.example.test"}}
			} else {
				srv["variables"] = map[string]any{"ver": map[string]any{"default": a.Base.Segs[len(a.Base.Segs)-1]}}
			}
			srv["url"] = url
		case a.Base.Absolute:
			srv["url"] = "https://api.example.test:8443" + p
		default:
			srv["url"] = p
		}
		doc["servers"] = []any{srv, map[string]any{"url": "https://other.example.test/ignored"}}
	}
	if a.Base.Form == "flag" && a.Base.AlsoServers {
		doc["servers"] = []any{map[string]any{"url": "https://api.example.test/srv/overridden/"}, map[string]any{"url": "/other"}}
	}
	if a.Security.K == "list" {
		doc["security"] = secJSON(a.Security)
	}
	paths := map[string]any{}
	for _, pi := range a.Paths {
		item := map[string]any{}
		if len(pi.Params) > 0 {
			var ps []any
			for _, p := range pi.Params {
				ps = append(ps, paramJSON(p))
			}
			item["parameters"] = ps
		}
		for _, op := range pi.Ops {
			o := map[string]any{}
			if op.OpID != "" {
				o["operationId"] = op.OpID
			}
			if op.Summary != "" {
				o["summary"] = op.Summary
			}
			if op.Desc != "" {
				o["description"] = op.Desc
			}
			if op.Security.K == "list" {
				o["security"] = secJSON(op.Security)
			}
			if len(op.Params) > 0 {
				var ps []any
				for _, p := range op.Params {
					ps = append(ps, paramJSON(p))
				}
				o["parameters"] = ps
			}
			switch op.Body.K {
			case "json", "raw":
				rb := map[string]any{"content": bodyContent(op.Body)}
				if op.Body.Req {
					rb["required"] = true
				}
				o["requestBody"] = rb
			case "ref":
				o["requestBody"] = map[string]any{"$ref": "#/components/requestBodies/" + op.Body.To}
			}
			rs := map[string]any{}
			for _, r := range op.Responses {
				if r.Ref != "" {
					rs[r.Status] = map[string]any{"$ref": "#/components/responses/" + r.Ref}
				} else if r.R != nil {
					rs[r.Status] = responseJSON(*r.R)
				} else {
					rs[r.Status] = map[string]any{"description": ""}
				}
			}
			o["responses"] = rs
			item[strings.ToLower(op.Method)] = o
		}
		paths[TemplateString(pi.Template)] = item
	}
	doc["paths"] = paths
	comp := map[string]any{}
	if len(a.Schemes) > 0 {
		m := map[string]any{}
		for _, s := range a.Schemes {
			m[s.Key] = schemeJSON(s)
		}
		comp["securitySchemes"] = m
	}
	if len(a.Schemas) > 0 {
		m := map[string]any{}
		for _, s := range a.Schemas {
			m[s.Name] = schemaJSON(s.Schema)
		}
		comp["schemas"] = m
	}
	if len(a.Parameters) > 0 {
		m := map[string]any{}
		for _, p := range a.Parameters {
			m[p.Name] = paramJSON(p.Param)
		}
		comp["parameters"] = m
	}
	if len(a.Headers) > 0 {
		m := map[string]any{}
		for _, h := range a.Headers {
			m[h.Name] = headerJSON(h.Header)
		}
		comp["headers"] = m
	}
	if len(a.Responses) > 0 {
		m := map[string]any{}
		for _, r := range a.Responses {
			if r.Alias != "" {
				m[r.Name] = map[string]any{"$ref": "#/components/responses/" + r.Alias}
			} else {
				m[r.Name] = responseJSON(*r.R)
			}
		}
		comp["responses"] = m
	}
	if len(a.RequestBodies) > 0 {
		m := map[string]any{}
		for _, b := range a.RequestBodies {
			rb := map[string]any{"content": bodyContent(b.Body)}
			if b.Body.Req {
				rb["required"] = true
			}
			m[b.Name] = rb
		}
		comp["requestBodies"] = m
	}
	if len(comp) > 0 {
		doc["components"] = comp
	}
	return doc
}

// Render returns the spec file content (JSON syntax, which is also YAML).
func (a ASpec) Render() string {
	bs, err := json.MarshalIndent(a.Document(), "", " ")
	if err != nil {
		panic(err)
	}
	return string(bs) + "\n"
}

// Job turns the ASpec into a generation job.
func (a ASpec) Job(id string) core.GenJob {
	name := a.SpecName
	if name == "" {
		name = "openapi.yaml"
	}
	j := core.GenJob{ID: id, Spec: a.Render(), SpecName: name, SpecHandler: name, Client: a.Flags.Client, APIHandler: a.Flags.APIHandler, DoNotEdit: a.Flags.DoNotEdit}
	if a.Flags.Cors {
		j.Config = "cors:\n  enable: true\n"
	}
	if a.Base.Form == "flag" {
		p := a.Base.NF()
		if a.Base.TrailingSlash || len(a.Base.Segs) == 0 {
			p += "/"
		}
		j.BasePath = p
	}
	return j
}

func (a ASpec) String() string { return fmt.Sprintf("ASpec(%d paths)", len(a.Paths)) }
