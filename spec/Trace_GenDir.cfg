SPECIFICATION Spec
