------------------------------ MODULE MC_Reader ------------------------------
(***************************************************************************)
(* Design check of the reader machine: for every object of the universe    *)
(* (own properties required / optional / nullable, up to two allOf members *)
(* inline or embedded, one of them nested, additionalProperties or not)    *)
(* and every document over the declared keys plus two foreign keys with    *)
(* every value status, reading refines the Prop layer; for every pair of   *)
(* variants (sharing a property or not) every document that is fault-free *)
(* for exactly one variant is read as that variant.                        *)
(***************************************************************************)
EXTENDS Reader, Json

CONSTANTS SharedMap,     \* TRUE: the attempts of a oneOf share one key map (a defect class), FALSE: the pinned template
          Emit,          \* TRUE: print the object universe as JSON lines (case generation), no exploration
          MaxMembers     \* 1: objects with at most one allOf member (quick), 2: two members / a nested member as well
VARIABLES st, obj, doc, vs
vars == <<st, obj, doc, vs>>

P(n, r, nl) == [k |-> "prop", name |-> n, req |-> r, nullable |-> nl]
Mem(e, o) == [k |-> "member", emb |-> e, obj |-> o]
Leaf(n1, n2) == { [fields |-> fs, addl |-> "none"] :
                    fs \in { << >> } \cup { << P(n1, r, nl) >> : r \in BOOLEAN, nl \in BOOLEAN }
                           \cup { << P(n1, r1, FALSE), P(n2, r2, nl2) >> : r1 \in BOOLEAN, r2 \in BOOLEAN, nl2 \in BOOLEAN } }
Objects == { [fields |-> own.fields \o ms, addl |-> ad] :
               own \in Leaf("a", "b"),
               ms \in { << >> } \cup { << Mem(e, o) >> : e \in BOOLEAN, o \in Leaf("c", "d") }
                       \cup { << Mem(e1, o1), Mem(e2, o2) >> : e1 \in { b \in BOOLEAN : MaxMembers >= 2 }, e2 \in BOOLEAN,
                                                             o1 \in { x \in Leaf("c", "d") : Len(x.fields) = 1 }, o2 \in { x \in Leaf("g", "h") : Len(x.fields) = 1 } }
                       \cup { << Mem(TRUE, [fields |-> o.fields \o << Mem(TRUE, n) >>, addl |-> "none"]) >> :
                                 o \in { x \in Leaf("c", "d") : Len(x.fields) = 1 /\ MaxMembers >= 2 }, n \in { x \in Leaf("e", "f") : Len(x.fields) = 1 } },
               ad \in {"none", "typed"} }
Status == {"ok", "null", "bad"}
DocsOver(ks) == UNION { [s -> Status] : s \in SUBSET ks }
\* variants of a oneOf: two properties each, possibly sharing the name "kind" / "author" (before or after the own key)
Variant(shared, own, sharedReq) == [fields |-> << P(shared, sharedReq, FALSE), P(own, TRUE, FALSE) >>, addl |-> "none"]
VariantPairs == { << Variant(s1, o1, r1), Variant(s2, o2, r2) >> :
                    s1 \in {"author", "zed"}, s2 \in {"author", "zed"}, r1 \in BOOLEAN, r2 \in BOOLEAN,
                    o1 \in {"bark", "subject"}, o2 \in {"meow", "recipient"} }

Init == st = "pick" /\ obj = [fields |-> << >>, addl |-> "none"] /\ doc = << >> /\ vs = << >>
PickObj(o, d) == st = "pick" /\ obj' = o /\ doc' = d /\ vs' = vs /\ st' = "object"
PickOneOf(p, d) == st = "pick" /\ vs' = p /\ doc' = d /\ obj' = obj /\ st' = "oneof"
\* objects the dialect can express: additionalProperties only on an object without allOf members
Expressible(o) == o.addl = "typed" => \A i \in DOMAIN o.fields : o.fields[i].k = "prop"
EmitObj(o) == Emit /\ Expressible(o) /\ PrintT(ToJson([object |-> o])) /\ UNCHANGED vars
Next == /\ st = "pick"         \* (first: TLC must not enumerate the universe again from every picked state)
        /\ \/ ~Emit /\ \E o \in Objects : \E d \in DocsOver(DeclNames(o) \cup {"x1"}) : PickObj(o, d)
           \/ \E o \in Objects : EmitObj(o)
           \/ ~Emit /\ \E p \in VariantPairs : \E d \in DocsOver(DeclNames(p[1]) \cup DeclNames(p[2]) \cup {"x1"}) : PickOneOf(p, d)
Spec == Init /\ [][Next]_vars

ReaderCorrect == st = "object" => ReadRefinesProp(obj, doc)
OneOfCorrect  == st = "oneof"  => OneOfRefinesProp(vs, doc, SharedMap)
=============================================================================
