SPECIFICATION Spec
CONSTANTS
  MaxRuns = 4
  SpecSet = {"s0", "s1"}
  MaxTouch = 0
  UserFiles = {"notes.txt"}
  DneSet = {TRUE}
  GuardedRemove = FALSE
INVARIANT DirMatchesLast
PROPERTY UserUntouched
PROPERTY Idempotent
