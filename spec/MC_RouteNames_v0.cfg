SPECIFICATION Spec
CONSTANTS
  Numbering = FALSE
  Emit = FALSE
INVARIANT Distinct
INVARIANT Stable
CHECK_DEADLOCK FALSE
