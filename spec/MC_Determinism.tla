---------------------------- MODULE MC_Determinism ----------------------------
(* Design check: for every site with Keys entries and every schedule the emitted sequence equals the one of the sorted schedule. *)
EXTENDS Determinism, TLC
CONSTANTS Keys, Version
VARIABLES site, perm, inter
Init == site = "none" /\ perm = << >> /\ inter = FALSE
Perms == { p \in [1..Cardinality(Keys) -> Keys] : \A i, j \in 1..Cardinality(Keys) : i # j => p[i] # p[j] }
Choose(s, p, x) == site = "none" /\ site' = s /\ perm' = p /\ inter' = x
Next == \E s \in SiteNames, p \in Perms, x \in BOOLEAN : Choose(s, p, x)
Spec == Init /\ [][Next]_<<site, perm, inter>>
ScheduleIndependent == site # "none" => Emit(Version, site, Keys, perm, inter) = Emit(Version, site, Keys, Sorted(Keys), inter)
=============================================================================
