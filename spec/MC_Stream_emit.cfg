SPECIFICATION Spec
CONSTANTS
  L = 4
  Policy = "readAll"
  MaxZero = 1
  Emit = TRUE
INVARIANT EmitDone
CHECK_DEADLOCK FALSE
