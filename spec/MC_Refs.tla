------------------------------- MODULE MC_Refs -------------------------------
(* Enumerates the rewrite variants (category -> action) and checks that rewriting never changes what a site resolves to. *)
EXTENDS Refs, TLC, Json
VARIABLES st, variant
Init == st = "pick" /\ variant = [c \in Categories |-> "keep"]
Pick(v) == st = "pick" /\ variant' = v /\ st' = "done"
EmitV(v) == st = "pick" /\ PrintT(ToJson([variant |-> v])) /\ UNCHANGED <<st, variant>>
Next == \E v \in [Categories -> Actions] : Pick(v) \/ EmitV(v)
Spec == Init /\ [][Next]_<<st, variant>>
\* every site form x every action: the rewritten site resolves to the same target
SemPreserved == \A f \in Forms, c \in Categories, t \in {"T1", "T2"} : Resolve(Rewrite(f, variant[c]), t) = Resolve(f, t)
=============================================================================
