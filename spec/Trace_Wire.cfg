SPECIFICATION Spec
