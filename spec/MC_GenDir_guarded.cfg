SPECIFICATION Spec
CONSTANTS
  MaxRuns = 2
  SpecSet = {"s0", "s1"}
  MaxTouch = 0
  UserFiles = {}
  DneSet = {TRUE, FALSE}
  GuardedRemove = TRUE
INVARIANT DirMatchesLast
PROPERTY UserUntouched
PROPERTY Idempotent
