SPECIFICATION Spec
CONSTANTS
  MaxRuns = 2
  SpecSet = {"s1", "sP", "sH"}
  MaxTouch = 0
  UserFiles = {}
  DneSet = {TRUE}
  GuardedRemove = FALSE
INVARIANT DirMatchesLast
PROPERTY UserUntouched
PROPERTY Idempotent
