SPECIFICATION Spec
CONSTANTS
  Sticky = TRUE
  MaxItems = 3
  Emit = FALSE
INVARIANT Independent
INVARIANT FailsAtFirst
INVARIANT PrefixDone
CHECK_DEADLOCK FALSE
