SPECIFICATION Spec
CONSTANTS
  EscapePath = TRUE
  Emit = TRUE
