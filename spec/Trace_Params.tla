----------------------------- MODULE Trace_Params -----------------------------
(***************************************************************************)
(* Judge for Request.Parse() results recorded inside handlers (C04, C05).  *)
(*   Config {ops : <<[id, decls : <<[in, name, type, array, req]>>]>>}     *)
(*   Parse  {case, op, sup : <<[key, lex : <<[cls, tok]>>]>>,              *)
(*           ok, panic, errKey, fields : <<[key, set, toks]>>, extra}      *)
(* sup lists, for every declared parameter, the lexemes the request        *)
(* supplies (class for the declared type + the typed token it denotes).    *)
(***************************************************************************)
EXTENDS Params, TLC, Json

VARIABLES l, ops, stats
tvars == <<l, ops, stats>>

Trace == ndJsonDeserialize("trace.ndjson")
Ev    == Trace[l]
Is(e) == l <= Len(Trace) /\ Ev.ev = e

SeqSet(s) == { s[i] : i \in DOMAIN s }
Init == l = 1 /\ ops = << >> /\ stats = [accepted |-> 0, nontrivial |-> 0, rejected |-> 0]

Config == /\ Is("Config") /\ ops' = Ev.ops /\ l' = l + 1 /\ UNCHANGED stats

OpOf(id)   == CHOOSE o \in SeqSet(ops) : o.id = id
DeclsOf(o) == SeqSet(o.decls)
SupF(sq)   == [ k \in { sq[i].key : i \in DOMAIN sq } |-> (CHOOSE e \in SeqSet(sq) : e.key = k).lex ]
FieldF(sq) == [ k \in { sq[i].key : i \in DOMAIN sq } |-> (CHOOSE e \in SeqSet(sq) : e.key = k) ]

\* the order the generated new<Op>Params visits the declarations in
RECURSIVE Filter(_, _)
Filter(sq, loc) == IF sq = << >> THEN << >> ELSE (IF Head(sq).in = loc THEN << Head(sq) >> ELSE << >>) \o Filter(Tail(sq), loc)
Generated(decls) == Filter(decls, "query") \o Filter(decls, "path") \o Filter(decls, "header")
ParseOK(o, sup, ev) ==
    LET ds == DeclsOf(o)
        f  == Failing(ds, sup)
        fl == FieldF(ev.fields)
    IN /\ ev.panic = ""
       /\ \A d \in ds : Key(d) \in DOMAIN sup
       /\ IF f = {}
          THEN /\ ev.ok
               /\ ev.extra = 0
               /\ \A d \in ds : /\ Key(d) \in DOMAIN fl
                                /\ LET e == ExpectedField(d, sup[Key(d)]) IN
                                     /\ fl[Key(d)].set = e.set
                                     /\ (e.set => fl[Key(d)].toks = e.toks)
          ELSE /\ ~ev.ok
               /\ \E d \in f : Key(d) = ev.errKey
               \* the step-level machine: which of several failing parameters is named (not part of the property:
               \* a difference is reported as model drift, the case is accepted)
               /\ IF ev.errKey = Run(Generated(o.decls), sup, 1).err THEN TRUE
                  ELSE PrintT(ToJson([verdict |-> "DRIFT", case |-> ev.case, at |-> l, event |-> [ev |-> "Parse"],
                                      why |-> [named |-> ev.errKey, machine |-> Run(Generated(o.decls), sup, 1).err]]))

Parse == /\ Is("Parse")
         /\ \E o \in SeqSet(ops) : o.id = Ev.op
         /\ ParseOK(OpOf(Ev.op), SupF(Ev.sup), Ev)
         /\ stats' = [stats EXCEPT !.accepted = @ + 1,
                        !.nontrivial = @ + (IF \E i \in DOMAIN Ev.sup : Ev.sup[i].lex # << >> THEN 1 ELSE 0)]
         /\ l' = l + 1 /\ UNCHANGED ops

Step == Config \/ Parse

Skip == /\ l <= Len(Trace) /\ ~ENABLED Step
        /\ PrintT(ToJson([verdict |-> "REJECT", case |-> Ev.case, at |-> l, event |-> Ev, kf |-> "",
                          why |-> [failing |-> IF \E o \in SeqSet(ops) : o.id = Ev.op
                                               THEN { Key(d) : d \in Failing(DeclsOf(OpOf(Ev.op)), SupF(Ev.sup)) } ELSE {"?"}]]))
        /\ stats' = [stats EXCEPT !.rejected = @ + 1]
        /\ l' = l + 1 /\ UNCHANGED ops

Finish == /\ l = Len(Trace) + 1
          /\ PrintT(ToJson([verdict |-> "END", at |-> l, accepted |-> stats.accepted,
                            nontrivial |-> stats.nontrivial, rejected |-> stats.rejected]))
          /\ l' = l + 1 /\ UNCHANGED <<ops, stats>>

Next == Step \/ Skip \/ Finish
Spec == Init /\ [][Next]_tvars
=============================================================================
