SPECIFICATION Spec
CONSTANTS
  Req = {1, 2, 3, 4}
  SharedScratch = FALSE
INVARIANT Isolated
PROPERTY SharedReadOnly
