SPECIFICATION Spec
CONSTANTS
  Req = {1, 2, 3, 4}
  SharedScratch = FALSE
  AppendInPlace = FALSE
INVARIANT Isolated
PROPERTY SharedReadOnly
