SPECIFICATION Spec
