----------------------------- MODULE Trace_Embed -----------------------------
(***************************************************************************)
(* Judge for C13.  Events:                                                 *)
(*   Embed  {case, content, compiled, value}  the constant SpecFile of the *)
(*          generated spec_file.go, evaluated by go/parser + go/types      *)
(*   Served {case, content, installed, hit, status, body, mw}  a GET of    *)
(*          <base>/<spec name> through the generated API.ServeHTTP with    *)
(*          mw middlewares installed: hit = the SpecFileHandler answered   *)
(* content / value / body are token sequences (Embed.tla alphabet; every   *)
(* other character is its own token).                                      *)
(***************************************************************************)
EXTENDS Embed, TLC, Json

VARIABLES l, stats
tvars == <<l, stats>>

Trace == ndJsonDeserialize("trace.ndjson")
Ev    == Trace[l]
Is(e) == l <= Len(Trace) /\ Ev.ev = e

Special == {"bt", "dq", "bs", "cr", "nul", "bad8", "bom"}
NonTrivial(c) == \E k \in 1..Len(c) : c[k] \in Special

Init == l = 1 /\ stats = [accepted |-> 0, nontrivial |-> 0, rejected |-> 0]

EmbedEv == /\ Is("Embed")
           /\ Faithful([err |-> ~Ev.compiled, val |-> Ev.value], Ev.content)
           /\ stats' = [stats EXCEPT !.accepted = @ + 1, !.nontrivial = @ + (IF NonTrivial(Ev.content) THEN 1 ELSE 0)]
           /\ l' = l + 1

\* the spec route answers iff the handler is installed; it answers with the content, outside every middleware
ServedEv == /\ Is("Served")
            /\ Ev.hit = Ev.installed
            /\ Ev.hit => (Ev.status = 200 /\ Ev.body = Ev.content /\ Ev.mwEntered = 0)
            /\ stats' = [stats EXCEPT !.accepted = @ + 1, !.nontrivial = @ + (IF Ev.hit THEN 1 ELSE 0)]
            /\ l' = l + 1

Step == EmbedEv \/ ServedEv

Skip == /\ l <= Len(Trace) /\ ~ENABLED Step
        /\ PrintT(ToJson([verdict |-> "REJECT", case |-> Ev.case, at |-> l, event |-> [ev |-> Ev.ev, case |-> Ev.case]]))
        /\ stats' = [stats EXCEPT !.rejected = @ + 1]
        /\ l' = l + 1

Finish == /\ l = Len(Trace) + 1
          /\ PrintT(ToJson([verdict |-> "END", at |-> l, accepted |-> stats.accepted,
                            nontrivial |-> stats.nontrivial, rejected |-> stats.rejected]))
          /\ l' = l + 1 /\ UNCHANGED stats

Next == Step \/ Skip \/ Finish
Spec == Init /\ [][Next]_tvars
=============================================================================
