SPECIFICATION Spec
CONSTANTS
  Lits = {"a", "b"}
  D = 3
  R = 0
  ReqAlpha = {}
  MaxSet = 2
  Guard = TRUE
  Emit = TRUE
INVARIANT RouterCorrect
