----------------------------- MODULE Trace_Client -----------------------------
(***************************************************************************)
(* Judge for the client walk of C09: every operation shape of MC_Client is *)
(* generated, calls with every kind of value - inside and outside the      *)
(* domain of DESIGN §11 - go through the real generated client into the    *)
(* real generated server, and it is recorded whether the handler parsed    *)
(* exactly what was sent.                                                  *)
(*   E2E {case, call : [t, pathVals, decls, args], holds : BOOLEAN}        *)
(* What decides (C09): inside the domain the round trip holds.  Outside    *)
(* the domain the observation is compared with what the composed machines  *)
(* of Client.tla predict; a difference is model drift, not a violation.    *)
(***************************************************************************)
EXTENDS Client, TLC, Json

VARIABLES l, stats
tvars == <<l, stats>>
Trace == ndJsonDeserialize("trace.ndjson")
Ev    == Trace[l]

Init == l = 1 /\ stats = [accepted |-> 0, nontrivial |-> 0, rejected |-> 0]
E2E == /\ l <= Len(Trace) /\ Ev.ev = "E2E"
       /\ InDomain(Ev.call) => Ev.holds
       /\ IF Ev.holds = EndToEnd(Ev.call) THEN TRUE
          ELSE PrintT(ToJson([verdict |-> "DRIFT", case |-> Ev.case, at |-> l, event |-> [ev |-> "E2E"],
                              why |-> [observed |-> Ev.holds, machine |-> EndToEnd(Ev.call), inDomain |-> InDomain(Ev.call)]]))
       /\ stats' = [stats EXCEPT !.accepted = @ + 1, !.nontrivial = @ + (IF InDomain(Ev.call) THEN 1 ELSE 0)]
       /\ l' = l + 1
Step == E2E
Skip == /\ l <= Len(Trace) /\ ~ENABLED Step
        /\ PrintT(ToJson([verdict |-> "REJECT", case |-> Ev.case, at |-> l, event |-> [ev |-> Ev.ev], kf |-> "",
                          why |-> [machine |-> EndToEnd(Ev.call), inDomain |-> InDomain(Ev.call)]]))
        /\ stats' = [stats EXCEPT !.rejected = @ + 1]
        /\ l' = l + 1
Finish == /\ l = Len(Trace) + 1
          /\ PrintT(ToJson([verdict |-> "END", at |-> l, accepted |-> stats.accepted, nontrivial |-> stats.nontrivial, rejected |-> stats.rejected]))
          /\ l' = l + 1 /\ UNCHANGED stats
Next == Step \/ Skip \/ Finish
Spec == Init /\ [][Next]_tvars
=============================================================================
