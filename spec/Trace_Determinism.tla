--------------------------- MODULE Trace_Determinism ---------------------------
(* Judge for C12: every run of one (spec, flags) yields the same result and the same file hashes.           *)
(*   Run {case, spec, ok, files : <<[name, sha]>>}    case = spec id; runs of one spec are consecutive       *)
EXTENDS TLC, Json, Sequences, Naturals
VARIABLES l, cur, first, bad, stats
tvars == <<l, cur, first, bad, stats>>
Trace == ndJsonDeserialize("trace.ndjson")
Ev    == Trace[l]
Init == l = 1 /\ cur = "" /\ first = [ok |-> TRUE, files |-> << >>] /\ bad = FALSE /\ stats = [accepted |-> 0, nontrivial |-> 0, rejected |-> 0]
\* a new spec starts: remember its first run
NewSpec == /\ l <= Len(Trace) /\ Ev.ev = "Run" /\ Ev.spec # cur
           /\ cur' = Ev.spec /\ first' = [ok |-> Ev.ok, files |-> Ev.files] /\ bad' = FALSE
           /\ stats' = [stats EXCEPT !.accepted = @ + 1, !.nontrivial = @ + (IF Ev.ok THEN 1 ELSE 0)]
           /\ l' = l + 1
SameRun == /\ l <= Len(Trace) /\ Ev.ev = "Run" /\ Ev.spec = cur
           /\ Ev.ok = first.ok /\ Ev.files = first.files
           /\ l' = l + 1 /\ UNCHANGED <<cur, first, bad, stats>>
Step == NewSpec \/ SameRun
Skip == /\ l <= Len(Trace) /\ ~ENABLED Step
        /\ (IF bad THEN TRUE ELSE PrintT(ToJson([verdict |-> "REJECT", case |-> cur, at |-> l, event |-> [spec |-> Ev.spec, ok |-> Ev.ok], kf |-> ""])))
        /\ bad' = TRUE
        /\ stats' = IF bad THEN stats ELSE [stats EXCEPT !.rejected = @ + 1, !.accepted = @ - 1]
        /\ l' = l + 1 /\ UNCHANGED <<cur, first>>
Finish == /\ l = Len(Trace) + 1
          /\ PrintT(ToJson([verdict |-> "END", at |-> l, accepted |-> stats.accepted, nontrivial |-> stats.nontrivial, rejected |-> stats.rejected]))
          /\ l' = l + 1 /\ UNCHANGED <<cur, first, bad, stats>>
Next == Step \/ Skip \/ Finish
Spec == Init /\ [][Next]_tvars
=============================================================================
