------------------------------ MODULE MC_Dialect ------------------------------
(* Enumerates the well-formed cells of the C01 matrix as JSON lines. *)
EXTENDS Dialect, TLC, Json
VARIABLES done
Init == done = FALSE
EmitCell(c) == ~done /\ WFCell(c) /\ PrintT(ToJson([cell |-> c])) /\ UNCHANGED done
Stop == ~done /\ done' = TRUE
Next == (\E c \in Cells : EmitCell(c)) \/ Stop
Spec == Init /\ [][Next]_done
=============================================================================
