-------------------------------- MODULE Router --------------------------------
(***************************************************************************)
(* C03 / C05 (routing half).                                               *)
(* Prop layer: OpenAPI path matching beneath the base path.                *)
(*   A template is a sequence of segments [k : "lit" | "var", s : STRING]; *)
(*   "/" is << lit "" >>, a trailing slash is a final  lit ""  segment.    *)
(*   A request path is the sequence of its segments after the leading "/". *)
(* Impl layer: the route tree of generator/file_router.go (Route.add) and  *)
(*   the walk performed by the generated route<Node> functions             *)
(*   (generator/file_router.gotmpl "Route"), one unfolding per function.   *)
(***************************************************************************)
EXTENDS Naturals, Sequences, FiniteSets

(* ---------------- Prop ---------------- *)
Match(t, p) == Len(t) = Len(p) /\ \A i \in 1..Len(t) : t[i].k = "var" \/ t[i].s = p[i]

\* a is literal wherever b is, and somewhere more
Dominates(a, b) == /\ Len(a) = Len(b)
                   /\ \A i \in 1..Len(a) : a[i].k = "var" => b[i].k = "var"
                   /\ \E i \in 1..Len(a) : a[i].k = "lit" /\ b[i].k = "var"

\* The part of an absolute request path beneath the (normalised) base path.
\* Paths not beginning with base + "/" are beneath nothing.
Beneath(base, kind, segs) ==
    IF kind = "abs" /\ Len(segs) > Len(base) /\ SubSeq(segs, 1, Len(base)) = base
    THEN [ok |-> TRUE,  p |-> SubSeq(segs, Len(base) + 1, Len(segs))]
    ELSE [ok |-> FALSE, p |-> << >>]

\* ops : set of records with at least  m (method), t (template); all of one shape
Cands(ops, m, b) == IF b.ok THEN { o \in ops : o.m = m /\ Match(o.t, b.p) } ELSE {}
NonDominated(c)  == { o \in c : ~\E o2 \in c : Dominates(o2.t, o.t) }

(* ---------------- Impl: tree and walk ---------------- *)
\* items : set of [rest : non-empty template suffix, t : full template]
RECURSIVE Build(_)
Build(items) ==
  LET leafs    == { it \in items : Len(it.rest) = 1 }
      inner    == { it \in items : Len(it.rest) > 1 }
      leafLits == { it.rest[1].s : it \in { x \in leafs : x.rest[1].k = "lit" } }
      leafVars == { it \in leafs : it.rest[1].k = "var" }
      inLits   == { it.rest[1].s : it \in { x \in inner : x.rest[1].k = "lit" } }
      inVars   == { it \in inner : it.rest[1].k = "var" }
  IN [ leafLit |-> [ s \in leafLits |-> (CHOOSE it \in leafs : it.rest[1].k = "lit" /\ it.rest[1].s = s).t ],
       leafVar |-> IF leafVars = {} THEN [has |-> FALSE, t |-> << >>]
                   ELSE [has |-> TRUE, t |-> (CHOOSE it \in leafVars : TRUE).t],
       lit |-> [ s \in inLits |-> Build({ [rest |-> Tail(it.rest), t |-> it.t] :
                                           it \in { x \in inner : x.rest[1].k = "lit" /\ x.rest[1].s = s } }) ],
       var |-> IF inVars = {} THEN [has |-> FALSE]
               ELSE [has |-> TRUE, n |-> Build({ [rest |-> Tail(it.rest), t |-> it.t] : it \in inVars })] ]

HasLeaves(n) == DOMAIN n.leafLit # {} \/ n.leafVar.has
Tree(tmpls)  == Build({ [rest |-> t, t |-> t] : t \in tmpls })

\* result of a walk: the template of the path item reached, or NoItem
NoItem == [found |-> FALSE, t |-> << >>]
Item(t) == [found |-> TRUE, t |-> t]

\* HasMethod(t) : does the path item with template t have an arm for the request's method
\* guard = TRUE adds the entry guard "no segment left => not found" (fix of the short-path defect)
RECURSIVE Walk(_, _, _, _)
Walk(node, segs, HasMethod(_), guard) ==
  LET exhausted == segs = << >>
      pfx  == IF exhausted THEN "#exhausted" ELSE segs[1]
      rest == IF exhausted THEN << >> ELSE Tail(segs)
  IN IF guard /\ exhausted THEN NoItem
     ELSE IF HasLeaves(node) /\ rest = << >> THEN
          \* "if path == "" { switch prefix {...}; switch method {...variable...}; return nil }"
          IF ~exhausted /\ pfx \in DOMAIN node.leafLit /\ HasMethod(node.leafLit[pfx]) THEN Item(node.leafLit[pfx])
          ELSE IF node.leafVar.has /\ HasMethod(node.leafVar.t) THEN Item(node.leafVar.t)
          ELSE NoItem
     ELSE LET viaLit == IF ~exhausted /\ pfx \in DOMAIN node.lit
                        THEN Walk(node.lit[pfx], rest, HasMethod, guard) ELSE NoItem
          IN IF node.var.has
             THEN (IF viaLit.found THEN viaLit ELSE Walk(node.var.n, rest, HasMethod, guard))
             ELSE viaLit
=============================================================================
