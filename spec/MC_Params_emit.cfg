SPECIFICATION Spec
CONSTANTS
  TypeSet = {"string", "int", "int32", "int64", "double", "float", "bool", "datetime"}
  MaxLex = 0
  Emit = TRUE
  Explore = FALSE
INVARIANT ImplRefinesProp
