SPECIFICATION Spec
