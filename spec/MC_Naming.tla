------------------------------ MODULE MC_Naming ------------------------------
(* Every token string up to MaxLen: the model's Title / PublicFieldName are emitted for replay against the real *)
(* functions, and for names of the dialect both must be exported Go identifiers.                                  *)
EXTENDS Naming, TLC, Json
CONSTANTS MaxLen, Emit
VARIABLES s
Init == s = << >>
Extend(t) == Len(s) < MaxLen /\ s' = Append(s, t)
EmitS == Emit /\ PrintT(ToJson([s |-> s, title |-> Title(s), public |-> PublicFieldName(s)])) /\ UNCHANGED s
Next == (\E t \in Tokens : Extend(t)) \/ EmitS
Spec == Init /\ [][Next]_s
DerivedNamesAreIdentifiers == DialectName(s) => ExportedIdent(Title(s)) /\ ExportedIdent(PublicFieldName(s))
=============================================================================
