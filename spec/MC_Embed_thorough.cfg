SPECIFICATION Spec
CONSTANTS
  MaxLen = 6
  Alphabet = {"bt", "dq", "bs", "lf", "cr", "dl", "n", "z"}
  Version = "cur"
  Emit = TRUE
INVARIANT EmbedFaithful
