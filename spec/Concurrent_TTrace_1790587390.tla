---- MODULE Concurrent_TTrace_1790587390 ----
EXTENDS Sequences, TLCExt, Concurrent, Toolbox, Naturals, TLC

_expression ==
    LET Concurrent_TEExpression == INSTANCE Concurrent_TEExpression
    IN Concurrent_TEExpression!expression
----

_trace ==
    LET Concurrent_TETrace == INSTANCE Concurrent_TETrace
    IN Concurrent_TETrace!trace
----

_inv ==
    ~(
        TLCGet("level") = Len(_TETrace)
        /\
        st = (<<[pc |-> "chained", sent |-> 1, chain |-> 2, authedBy |-> 0, parsed |-> 0, resp |-> 0, ret |-> 0], [pc |-> "authed", sent |-> 2, chain |-> 1, authedBy |-> 2, parsed |-> 0, resp |-> 0, ret |-> 0]>>)
        /\
        scratch = (0)
        /\
        slot = (2)
    )
----

_init ==
    /\ slot = _TETrace[1].slot
    /\ scratch = _TETrace[1].scratch
    /\ st = _TETrace[1].st
----

_next ==
    /\ \E i,j \in DOMAIN _TETrace:
        /\ \/ /\ j = i + 1
              /\ i = TLCGet("level")
        /\ slot  = _TETrace[i].slot
        /\ slot' = _TETrace[j].slot
        /\ scratch  = _TETrace[i].scratch
        /\ scratch' = _TETrace[j].scratch
        /\ st  = _TETrace[i].st
        /\ st' = _TETrace[j].st

\* Uncomment the ASSUME below to write the states of the error trace
\* to the given file in Json format. Note that you can pass any tuple
\* to `JsonSerialize`. For example, a sub-sequence of _TETrace.
    \* ASSUME
    \*     LET J == INSTANCE Json
    \*         IN J!JsonSerialize("Concurrent_TTrace_1790587390.json", _TETrace)

=============================================================================

 Note that you can extract this module `Concurrent_TEExpression`
  to a dedicated file to reuse `expression` (the module in the 
  dedicated `Concurrent_TEExpression.tla` file takes precedence 
  over the module `Concurrent_TEExpression` below).

---- MODULE Concurrent_TEExpression ----
EXTENDS Sequences, TLCExt, Concurrent, Toolbox, Naturals, TLC

expression == 
    [
        \* To hide variables of the `Concurrent` spec from the error trace,
        \* remove the variables below.  The trace will be written in the order
        \* of the fields of this record.
        slot |-> slot
        ,scratch |-> scratch
        ,st |-> st
        
        \* Put additional constant-, state-, and action-level expressions here:
        \* ,_stateNumber |-> _TEPosition
        \* ,_slotUnchanged |-> slot = slot'
        
        \* Format the `slot` variable as Json value.
        \* ,_slotJson |->
        \*     LET J == INSTANCE Json
        \*     IN J!ToJson(slot)
        
        \* Lastly, you may build expressions over arbitrary sets of states by
        \* leveraging the _TETrace operator.  For example, this is how to
        \* count the number of times a spec variable changed up to the current
        \* state in the trace.
        \* ,_slotModCount |->
        \*     LET F[s \in DOMAIN _TETrace] ==
        \*         IF s = 1 THEN 0
        \*         ELSE IF _TETrace[s].slot # _TETrace[s-1].slot
        \*             THEN 1 + F[s-1] ELSE F[s-1]
        \*     IN F[_TEPosition - 1]
    ]

=============================================================================



Parsing and semantic processing can take forever if the trace below is long.
 In this case, it is advised to uncomment the module below to deserialize the
 trace from a generated binary file.

\*
\*---- MODULE Concurrent_TETrace ----
\*EXTENDS IOUtils, Concurrent, TLC
\*
\*trace == IODeserialize("Concurrent_TTrace_1790587390.bin", TRUE)
\*
\*=============================================================================
\*

---- MODULE Concurrent_TETrace ----
EXTENDS Concurrent, TLC

trace == 
    <<
    ([st |-> <<[pc |-> "idle", sent |-> 0, chain |-> 0, authedBy |-> 0, parsed |-> 0, resp |-> 0, ret |-> 0], [pc |-> "idle", sent |-> 0, chain |-> 0, authedBy |-> 0, parsed |-> 0, resp |-> 0, ret |-> 0]>>,scratch |-> 0,slot |-> 0]),
    ([st |-> <<[pc |-> "idle", sent |-> 0, chain |-> 0, authedBy |-> 0, parsed |-> 0, resp |-> 0, ret |-> 0], [pc |-> "called", sent |-> 2, chain |-> 0, authedBy |-> 0, parsed |-> 0, resp |-> 0, ret |-> 0]>>,scratch |-> 0,slot |-> 0]),
    ([st |-> <<[pc |-> "idle", sent |-> 0, chain |-> 0, authedBy |-> 0, parsed |-> 0, resp |-> 0, ret |-> 0], [pc |-> "chained", sent |-> 2, chain |-> 1, authedBy |-> 0, parsed |-> 0, resp |-> 0, ret |-> 0]>>,scratch |-> 0,slot |-> 1]),
    ([st |-> <<[pc |-> "called", sent |-> 1, chain |-> 0, authedBy |-> 0, parsed |-> 0, resp |-> 0, ret |-> 0], [pc |-> "chained", sent |-> 2, chain |-> 1, authedBy |-> 0, parsed |-> 0, resp |-> 0, ret |-> 0]>>,scratch |-> 0,slot |-> 1]),
    ([st |-> <<[pc |-> "chained", sent |-> 1, chain |-> 2, authedBy |-> 0, parsed |-> 0, resp |-> 0, ret |-> 0], [pc |-> "chained", sent |-> 2, chain |-> 1, authedBy |-> 0, parsed |-> 0, resp |-> 0, ret |-> 0]>>,scratch |-> 0,slot |-> 2]),
    ([st |-> <<[pc |-> "chained", sent |-> 1, chain |-> 2, authedBy |-> 0, parsed |-> 0, resp |-> 0, ret |-> 0], [pc |-> "authed", sent |-> 2, chain |-> 1, authedBy |-> 2, parsed |-> 0, resp |-> 0, ret |-> 0]>>,scratch |-> 0,slot |-> 2])
    >>
----


=============================================================================

---- CONFIG Concurrent_TTrace_1790587390 ----
CONSTANTS
    Req = { 1 , 2 }
    SharedScratch = FALSE
    AppendInPlace = TRUE

INVARIANT
    _inv

CHECK_DEADLOCK
    \* CHECK_DEADLOCK off because of PROPERTY or INVARIANT above.
    FALSE

INIT
    _init

NEXT
    _next

CONSTANT
    _TETrace <- _trace

ALIAS
    _expression
=============================================================================
\* Generated on Mon Sep 28 09:23:11 UTC 2026