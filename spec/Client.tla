-------------------------------- MODULE Client --------------------------------
(***************************************************************************)
(* C09, design level: one call through the generated client into the       *)
(* generated server, as a composition of step-level machines.              *)
(*                                                                         *)
(*   client (file_client.gotmpl ClientOperation)                           *)
(*     BuildPath   : base URL + for every template segment the literal or  *)
(*                   url.PathEscape(formatted value)                       *)
(*     BuildQuery  : for every declared query parameter in order: required *)
(*                   -> one pair per value; optional -> only when set      *)
(*     SetHeaders  : the same for header parameters                        *)
(*   transport + net/http : the server works on the *decoded* path         *)
(*   server (file_router.gotmpl, file_handler.gotmpl)                      *)
(*     Route       : split the decoded path on "/", match beneath the base *)
(*     ParsePath   : the segment at each variable's position; "" fails     *)
(*     ParseQuery / ParseHeaders : Params.Run                              *)
(*                                                                         *)
(* A value is abstracted to what matters for the journey:                  *)
(*   [id, kind]   kind \in  plain    - survives escaping and decoding      *)
(*                          reserved - has characters PathEscape /         *)
(*                                     QueryEscape must encode (? # % & +  *)
(*                                     space): encoded on the wire,        *)
(*                                     decoded by the server               *)
(*                          slash    - contains "/": PathEscape gives %2F, *)
(*                                     the server's decoded path has one   *)
(*                                     segment more                        *)
(*                          empty    - the empty string                    *)
(* EndToEnd says the handler parses exactly what was sent.  The design     *)
(* check shows it holds inside the domain of DESIGN §11 and that every     *)
(* restriction of that domain is necessary (DomainIsTight).                *)
(***************************************************************************)
EXTENDS Naturals, Sequences, FiniteSets

CONSTANT EscapePath      \* TRUE: path values go through url.PathEscape (the pinned template); FALSE: a defect class (negative control)

Kinds == {"plain", "reserved", "slash", "empty"}

\* ---- client ----
\* what the server's decoded path holds for one path value: PathEscape then URL decoding
DecodedSegs(v) == CASE v.kind = "slash" -> << [id |-> v.id, kind |-> "plain"], [id |-> v.id, kind |-> "plain"] >>   \* "a/b" -> a, b
                    [] v.kind = "reserved" /\ ~EscapePath -> << [id |-> v.id, kind |-> "cut"] >>   \* "a?b" unescaped: the rest becomes the query
                    [] OTHER            -> << v >>
Lit(s) == [id |-> s, kind |-> "lit"]
RECURSIVE BuildPath(_, _, _)
\* t : template (Seq of [k, s]); vals : path values in template order
BuildPath(t, vals, i) ==
    IF t = << >> THEN << >>
    ELSE IF Head(t).k = "lit" THEN << Lit(Head(t).s) >> \o BuildPath(Tail(t), vals, i)
    ELSE DecodedSegs(vals[i]) \o BuildPath(Tail(t), vals, i + 1)

\* a parameter value as the caller holds it: [set : BOOLEAN, vs : Seq(value)]  (scalars: Len(vs) = 1 when set)
\* decl = [name, array, req]
RECURSIVE BuildPairs(_, _)
BuildPairs(decls, args) ==
    IF decls = << >> THEN << >>
    ELSE LET d == Head(decls)  a == args[d.name] IN
         (IF d.req \/ a.set THEN [i \in 1..Len(a.vs) |-> [name |-> d.name, v |-> a.vs[i]]] ELSE << >>)
         \o BuildPairs(Tail(decls), args)

\* ---- server ----
\* Route + ParsePath: the decoded path must have the template's shape; variables take the segment at their position
RouteOK(t, segs) == Len(segs) = Len(t) /\ \A i \in 1..Len(t) : t[i].k = "var" \/ (segs[i].kind = "lit" /\ segs[i].id = t[i].s)
ParsedPath(t, segs) == [i \in { k \in 1..Len(t) : t[k].k = "var" } |-> segs[i]]
PathParseOK(t, segs) == \A i \in 1..Len(t) : t[i].k = "var" => (segs[i].kind # "empty" /\ segs[i].kind # "lit")
\* ParseQuery: the values found under the parameter's name, in order
Found(pairs, n) == LET idx == { i \in 1..Len(pairs) : pairs[i].name = n } IN
                   [k \in 1..Cardinality(idx) |-> pairs[CHOOSE i \in idx : Cardinality({ j \in idx : j < i }) = k - 1].v]
ParsedArg(d, pairs) ==
    LET f == Found(pairs, d.name) IN
    IF f = << >> THEN (IF d.req THEN [ok |-> FALSE, set |-> FALSE, vs |-> << >>] ELSE [ok |-> TRUE, set |-> FALSE, vs |-> << >>])
    ELSE IF ~d.array /\ Len(f) # 1 THEN [ok |-> FALSE, set |-> FALSE, vs |-> << >>]
    ELSE [ok |-> TRUE, set |-> TRUE, vs |-> f]

\* ---- end to end ----
\* call = [t, pathVals, decls, args]
SameArg(d, sent, got) == got.ok /\ (IF d.req THEN got.set /\ got.vs = sent.vs        \* required: always "set"
                                    ELSE got.set = sent.set /\ (sent.set => got.vs = sent.vs))
EndToEnd(call) ==
    LET segs  == BuildPath(call.t, call.pathVals, 1)
        pairs == BuildPairs(call.decls, call.args)
        vars  == { k \in 1..Len(call.t) : call.t[k].k = "var" }
    IN /\ RouteOK(call.t, segs) /\ PathParseOK(call.t, segs)
       /\ \A k \in vars : ParsedPath(call.t, segs)[k] = call.pathVals[Cardinality({ j \in vars : j <= k })]
       /\ \A i \in 1..Len(call.decls) : SameArg(call.decls[i], call.args[call.decls[i].name], ParsedArg(call.decls[i], pairs))

\* the domain of C09 (DESIGN §11): path values non-empty and "/"-free; array parameters non-empty when they are sent
InDomain(call) ==
    /\ \A i \in 1..Len(call.pathVals) : call.pathVals[i].kind \in {"plain", "reserved"}
    /\ \A i \in 1..Len(call.decls) : LET d == call.decls[i]  a == call.args[d.name] IN
          /\ (~d.array => Len(a.vs) = (IF d.req \/ a.set THEN 1 ELSE 0))
          /\ (d.array /\ (d.req \/ a.set) => Len(a.vs) >= 1)
          /\ (~d.req /\ ~a.set => a.vs = << >>)
=============================================================================
