SPECIFICATION Spec
CONSTANTS
  MaxRuns = 2
  SpecSet = {"s0", "s1"}
  MaxTouch = 0
  UserFiles = {}
  DneSet = {TRUE, FALSE}
  GuardedRemove = FALSE
INVARIANT DirMatchesLast
PROPERTY UserUntouched
PROPERTY Idempotent
