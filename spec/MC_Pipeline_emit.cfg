SPECIFICATION Spec
CONSTANTS
  MaxMw = 2
  BearerPerOp = TRUE
  NilSafe = TRUE
  Emit = TRUE
  Quick = TRUE
  Explore = FALSE
INVARIANTS NoMore NoLess Only401 NoPanic MwAround SingleWrite
