SPECIFICATION Spec
