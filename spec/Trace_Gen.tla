------------------------------- MODULE Trace_Gen -------------------------------
(***************************************************************************)
(* Judge for invocations of the real generator (C01, C15).                 *)
(*   Gen {case, ok, panic, errText, swallowedFormatError, parseErrs,       *)
(*        fmtDiffs, typeErrs, located, mustLocate, exitOK}                 *)
(* located / mustLocate : for C15 mutants, whether the error text names a  *)
(* locator on the path to the fault; exitOK: CLI exit status agrees.       *)
(***************************************************************************)
EXTENDS Dialect, TLC, Json
VARIABLES l, stats
tvars == <<l, stats>>
Trace == ndJsonDeserialize("trace.ndjson")
Ev    == Trace[l]
Init == l = 1 /\ stats = [accepted |-> 0, nontrivial |-> 0, rejected |-> 0]
Gen == /\ l <= Len(Trace) /\ Ev.ev = "Gen"
       /\ ResultOK(Ev)
       /\ (~Ev.ok /\ Ev.mustLocate) => Ev.located
       /\ Ev.exitOK
       /\ stats' = [stats EXCEPT !.accepted = @ + 1, !.nontrivial = @ + (IF Ev.nontrivial THEN 1 ELSE 0)]
       /\ l' = l + 1
Skip == /\ l <= Len(Trace) /\ ~ENABLED Gen
        /\ PrintT(ToJson([verdict |-> "REJECT", case |-> Ev.case, at |-> l, event |-> [case |-> Ev.case, ok |-> Ev.ok, panic |-> Ev.panic, errText |-> Ev.errText], kf |-> KFCell(Ev.cell)]))
        /\ stats' = [stats EXCEPT !.rejected = @ + 1] /\ l' = l + 1
Finish == /\ l = Len(Trace) + 1
          /\ PrintT(ToJson([verdict |-> "END", at |-> l, accepted |-> stats.accepted, nontrivial |-> stats.nontrivial, rejected |-> stats.rejected]))
          /\ l' = l + 1 /\ UNCHANGED stats
Next == Gen \/ Skip \/ Finish
Spec == Init /\ [][Next]_tvars
=============================================================================
