SPECIFICATION Spec
CONSTANTS
  D = 3
  TypeSet = {"string", "int32", "bool"}
  BaseLens = {0, 1, 2}
INVARIANT PathCorrect
