-------------------------------- MODULE Embed --------------------------------
(***************************************************************************)
(* C13, build-time half: the constant SpecFile compiled into the generated *)
(* package equals the input file byte for byte.                            *)
(*                                                                         *)
(* Contents are sequences over a token alphabet that distinguishes exactly *)
(* the bytes Go's string literal syntax treats specially.                  *)
(*   Prop layer: Faithful(value, content)                                  *)
(*   Impl layer: Encode(c)  = generator/files.go encodeRawFileAsString     *)
(*               GoEval(src) = Go's scanner + constant folding for the     *)
(*               expression grammar  lit ("+" lit)*                        *)
(* EncodeV0 is the encoding of the pinned tree before the fix recorded in  *)
(* known_findings.txt (kept so that the design check documents the defect).*)
(***************************************************************************)
EXTENDS Naturals, Sequences

\* content tokens
\*  bt `   dq "   bs \   lf  cr  dl $   n (a letter that is a valid escape after \)
\*  z (a letter that is not)   nul   bad8 (a byte that is invalid UTF-8)   bom (U+FEFF)
ContentTok == {"bt", "dq", "bs", "lf", "cr", "dl", "n", "z", "nul", "bad8", "bom"}
CoreTok    == {"bt", "dq", "bs", "lf", "cr", "dl", "n", "z"}
\* tokens that only occur in generated source text
\*  plus (+ between literals)   r (letter r)   x00 xff ufeff (the tails of \x00 \xff ﻿)

Has(c, t) == \E k \in 1..Len(c) : c[k] = t

(* ---------------- Prop ---------------- *)
Faithful(res, c) == ~res.err /\ res.val = c

(* ---------------- Impl: encodeRawFileAsString ---------------- *)
RECURSIVE Map(_, _)
Map(F(_), s) == IF s = << >> THEN << >> ELSE F(Head(s)) \o Map(F, Tail(s))

SpliceTok(t) == IF t = "bt" THEN <<"bt", "plus", "dq", "bt", "dq", "plus", "bt">> ELSE <<t>>
EscDqTok(t)  == IF t = "dq" THEN <<"bs", "dq">> ELSE <<t>>
QuoteTok(t)  == CASE t = "dq"   -> <<"bs", "dq">>
                  [] t = "bs"   -> <<"bs", "bs">>
                  [] t = "lf"   -> <<"bs", "n">>
                  [] t = "cr"   -> <<"bs", "r">>
                  [] t = "nul"  -> <<"bs", "x00">>
                  [] t = "bad8" -> <<"bs", "xff">>
                  [] t = "bom"  -> <<"bs", "ufeff">>
                  [] OTHER      -> <<t>>

RawOK(c) == Has(c, "lf") /\ ~Has(c, "cr") /\ ~Has(c, "nul") /\ ~Has(c, "bom") /\ ~Has(c, "bad8")

\* current tree: raw string with backtick splicing when that is faithful, strconv.Quote otherwise
Encode(c) == IF RawOK(c) THEN <<"bt">> \o Map(SpliceTok, c) \o <<"bt">>
                         ELSE <<"dq">> \o Map(QuoteTok, c) \o <<"dq">>

\* pinned tree: raw string whenever there is a newline, else quotes escaping only the quote
EncodeV0(c) == IF Has(c, "lf") THEN <<"bt">> \o Map(SpliceTok, c) \o <<"bt">>
                               ELSE <<"dq">> \o Map(EscDqTok, c) \o <<"dq">>

(* ---------------- Impl: how Go reads the emitted expression ---------------- *)
Err == [err |-> TRUE, val |-> << >>, next |-> 0]
SourceIllegal == {"nul", "bad8", "bom"}        \* rejected by the scanner anywhere in a source file

RECURSIVE ScanRaw(_, _, _)
ScanRaw(src, k, acc) ==
    IF k > Len(src) THEN Err                                   \* raw string not terminated
    ELSE IF src[k] = "bt" THEN [err |-> FALSE, val |-> acc, next |-> k + 1]
    ELSE IF src[k] \in SourceIllegal THEN Err
    ELSE IF src[k] = "cr" THEN ScanRaw(src, k + 1, acc)        \* carriage returns are discarded from raw strings
    ELSE ScanRaw(src, k + 1, Append(acc, src[k]))

RECURSIVE ScanInterp(_, _, _)
ScanInterp(src, k, acc) ==
    IF k > Len(src) THEN Err
    ELSE IF src[k] = "dq" THEN [err |-> FALSE, val |-> acc, next |-> k + 1]
    ELSE IF src[k] = "lf" THEN Err                             \* newline in string
    ELSE IF src[k] \in SourceIllegal THEN Err
    ELSE IF src[k] = "bs" THEN
         IF k + 1 > Len(src) THEN Err
         ELSE LET e == src[k + 1] IN
              CASE e = "dq"    -> ScanInterp(src, k + 2, Append(acc, "dq"))
                [] e = "bs"    -> ScanInterp(src, k + 2, Append(acc, "bs"))
                [] e = "n"     -> ScanInterp(src, k + 2, Append(acc, "lf"))
                [] e = "r"     -> ScanInterp(src, k + 2, Append(acc, "cr"))
                [] e = "x00"   -> ScanInterp(src, k + 2, Append(acc, "nul"))
                [] e = "xff"   -> ScanInterp(src, k + 2, Append(acc, "bad8"))
                [] e = "ufeff" -> ScanInterp(src, k + 2, Append(acc, "bom"))
                [] OTHER       -> Err                          \* unknown escape sequence
    ELSE ScanInterp(src, k + 1, Append(acc, src[k]))

RECURSIVE Eval(_, _, _)
Eval(src, k, acc) ==
    IF k > Len(src) THEN Err
    ELSE LET lit == IF src[k] = "bt" THEN ScanRaw(src, k + 1, << >>)
                    ELSE IF src[k] = "dq" THEN ScanInterp(src, k + 1, << >>)
                    ELSE Err
         IN IF lit.err THEN Err
            ELSE IF lit.next > Len(src) THEN [err |-> FALSE, val |-> acc \o lit.val, next |-> lit.next]
            ELSE IF src[lit.next] = "plus" THEN Eval(src, lit.next + 1, acc \o lit.val)
            ELSE Err

GoEval(src) == Eval(src, 1, << >>)
=============================================================================
