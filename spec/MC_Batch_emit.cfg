SPECIFICATION Spec
CONSTANTS
  Sticky = FALSE
  MaxItems = 3
  Emit = TRUE
CHECK_DEADLOCK FALSE
