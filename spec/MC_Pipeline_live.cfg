SPECIFICATION FairSpec
CONSTANTS
  MaxMw = 2
  BearerPerOp = TRUE
  NilSafe = TRUE
  Emit = FALSE
  Quick = TRUE
  Explore = TRUE
PROPERTY EveryRequestAnswered
