----------------------------- MODULE RouteNames -----------------------------
(***************************************************************************)
(* Names of the route functions (generator/file_router.go: Route.add and   *)
(* the numbering pass of NewRouter).  Every inner node of the route tree   *)
(* becomes one method `func (rt *API) route<Name>`; Name is the            *)
(* concatenation of PublicFieldName over the segments leading to the node  *)
(* (the variable child takes the name of the first variable met there),    *)
(* the root's is empty.  That derivation is not injective:                 *)
(*   /a/{d}/x next to /a/d/y      (variable and literal of one name)       *)
(*   /a_d/x   next to /a/d/y      (separators vanish)                      *)
(*   /1/x                         (no letters: the root's name)            *)
(* Prop: the methods of one generated API have pairwise different names    *)
(* (else router.go does not compile, C01), and a name that was unique is   *)
(* left as derived (output for specs without collisions does not change).  *)
(* Impl: the numbering pass walks the nodes in GetRoutes order and gives a *)
(* taken name the suffix _2, _3, ...; Numbering = FALSE is the tree before *)
(* the repair (970eb6d) - MC_RouteNames_v0 must violate Distinct.          *)
(***************************************************************************)
EXTENDS Naming, TLC

CONSTANTS Numbering     \* TRUE: the numbering pass runs

\* a segment: [k : "lit" | "var", s : token string]
L(s) == [k |-> "lit", s |-> s]
V(s) == [k |-> "var", s |-> s]

\* ---- the tree: inner nodes are the proper, non-empty prefixes of the templates; all variables met at one node are
\* the same child ----
Key(seg) == IF seg.k = "var" THEN <<"{", "}">> ELSE seg.s
NodeKey(t, n) == [i \in 1..n |-> Key(t[i])]
InnerNodes(ts) == UNION { { NodeKey(ts[j], n) : n \in 0..(Len(ts[j]) - 1) } : j \in DOMAIN ts }
\* (templates are added in the order of the spec; the first template that reaches a variable child names it)
FirstThrough(ts, key) == CHOOSE j \in DOMAIN ts : /\ Len(ts[j]) > Len(key) /\ NodeKey(ts[j], Len(key)) = key
                                                  /\ \A i \in DOMAIN ts : (Len(ts[i]) > Len(key) /\ NodeKey(ts[i], Len(key)) = key) => j <= i
Derived(ts, key) == LET t == ts[FirstThrough(ts, key)] IN Concat([i \in 1..Len(key) |-> PublicFieldName(t[i].s)])

\* GetRoutes order: a node, then its literal children in insertion order (depth first), then its variable child
RECURSIVE Order(_, _)
ChildKeys(ts, key) == { k \in InnerNodes(ts) : Len(k) = Len(key) + 1 /\ SubSeq(k, 1, Len(key)) = key }
RECURSIVE SeqOfByFirst(_, _)
SeqOfByFirst(ts, ks) == IF ks = {} THEN << >>
                        ELSE LET k == CHOOSE x \in ks : \A y \in ks : FirstThrough(ts, x) <= FirstThrough(ts, y) /\ (FirstThrough(ts, x) = FirstThrough(ts, y) => TRUE)
                             IN << k >> \o SeqOfByFirst(ts, ks \ {k})
RECURSIVE Flat(_, _)
Order(ts, key) == LET lits == { k \in ChildKeys(ts, key) : k[Len(k)] # <<"{", "}">> }
                      vars == ChildKeys(ts, key) \ lits
                  IN << key >> \o Flat(ts, SeqOfByFirst(ts, lits)) \o Flat(ts, SeqOfByFirst(ts, vars))
Flat(ts, ks) == IF ks = << >> THEN << >> ELSE Order(ts, Head(ks)) \o Flat(ts, Tail(ks))

\* ---- the numbering pass, one node per step ----
VARIABLES ts, order, derived, i, used, final
vars == <<ts, order, derived, i, used, final>>

Suffix(n) == <<"_", n>>        \* the model keeps the number as one token
RECURSIVE FreeName(_, _, _)
FreeName(name, n, taken) == IF n = 1 /\ name \notin taken THEN name
                            ELSE IF n > 1 /\ (name \o Suffix(n)) \notin taken THEN name \o Suffix(n)
                            ELSE FreeName(name, n + 1, taken)

Start(t) == /\ i = 0
            /\ ts' = t /\ order' = Order(t, << >>) /\ i' = 1 /\ used' = {} /\ final' = << >>
            /\ derived' = [k \in DOMAIN Order(t, << >>) |-> Derived(t, Order(t, << >>)[k])]
Number == /\ i >= 1 /\ i <= Len(order)
          /\ LET d == derived[i]
                 n == IF Numbering THEN FreeName(d, 1, used) ELSE d
             IN used' = used \cup {n} /\ final' = Append(final, n)
          /\ i' = i + 1 /\ UNCHANGED <<ts, order, derived>>

Done == i >= 1 /\ i > Len(order)
Distinct == Done => \A a, b \in DOMAIN final : a # b => final[a] # final[b]
\* a derived name no other node shares is kept
Stable == Done => \A a \in DOMAIN final :
             (\A b \in DOMAIN derived : b # a => derived[b] # derived[a]) => final[a] = derived[a]
Collides(t) == \E a, b \in InnerNodes(t) : a # b /\ Derived(t, a) = Derived(t, b)

\* ---- names of operations without an operationId (generator/operation.go NewOperationName): the method followed by
\* Title of every segment (a variable contributes its name) - a second derivation that is not injective: templates
\* that differ by case, by separators or by variable against literal give one Go name to two operations (open
\* finding c01-operation-name-collision; an explicit operationId avoids it)
OpName(t) == Concat([k \in 1..Len(t) |-> Title(t[k].s)])
OpCollides(t) == \E a, b \in DOMAIN t : a # b /\ OpName(t[a]) = OpName(t[b])
=============================================================================
