------------------------------ MODULE Concurrent ------------------------------
(***************************************************************************)
(* C20: N requests served concurrently by one generated API value and sent *)
(* through one generated Client.  Every request r runs the Wire machine    *)
(*   Call -> Chain -> Auth -> Parse -> Respond -> Return                   *)
(* on its own state st[r]; the package-level state (LogError, specFileBs,  *)
(* the API and Client values, among them the API.Middlewares slice and its *)
(* backing array) is only read.  Isolation: the security check a request   *)
(* passes is the one of its own operation, the parameters a handler sees   *)
(* are those of its own request and the caller receives the response       *)
(* produced for its request.                                               *)
(* Chain is ServeHTTP composing the handler for this request: the user     *)
(* middlewares (shared, read) around the operation's own security          *)
(* middleware (a fresh value per request).                                 *)
(* Two switches model the classes of defect the property excludes (never   *)
(* the case in the pinned templates, where all per-request state lives in  *)
(* locals of ServeHTTP / new<Op>Params / Client.<Op>):                     *)
(*   SharedScratch  a package-level scratch value written by one request   *)
(*                  and read by another;                                   *)
(*   AppendInPlace  the per-request chain is built by appending to the     *)
(*                  shared Middlewares slice, whose spare capacity makes   *)
(*                  the append write into the shared backing array.        *)
(***************************************************************************)
EXTENDS Naturals, FiniteSets, TLC

CONSTANTS Req, SharedScratch, AppendInPlace
VARIABLES st, scratch, slot
vars == <<st, scratch, slot>>

Idle == [pc |-> "idle", sent |-> 0, chain |-> 0, authedBy |-> 0, parsed |-> 0, resp |-> 0, ret |-> 0]
Init == st = [r \in Req |-> Idle] /\ scratch = 0 /\ slot = 0

\* tags: request r (a natural number) sends r, its handler answers 100 + r;
\* its operation requires security scheme Scheme(r)
Tag(r) == r
Scheme(r) == 1 + (r % 2)

Call(r)   == /\ st[r].pc = "idle"
             /\ st' = [st EXCEPT ![r].pc = "called", ![r].sent = Tag(r)]
             /\ scratch' = IF SharedScratch THEN Tag(r) ELSE scratch
             /\ UNCHANGED slot
Chain(r)  == /\ st[r].pc = "called"
             /\ st' = [st EXCEPT ![r].pc = "chained", ![r].chain = Scheme(r)]
             /\ slot' = IF AppendInPlace THEN Scheme(r) ELSE slot        \* the spare slot of the shared backing array
             /\ UNCHANGED scratch
Auth(r)   == /\ st[r].pc = "chained"
             /\ st' = [st EXCEPT ![r].pc = "authed", ![r].authedBy = IF AppendInPlace THEN slot ELSE st[r].chain]
             /\ UNCHANGED <<scratch, slot>>
Parse(r)  == /\ st[r].pc = "authed"
             /\ st' = [st EXCEPT ![r].pc = "parsed", ![r].parsed = IF SharedScratch THEN scratch ELSE st[r].sent]
             /\ UNCHANGED <<scratch, slot>>
Respond(r) == /\ st[r].pc = "parsed"
              /\ st' = [st EXCEPT ![r].pc = "responded", ![r].resp = 100 + Tag(r)]
              /\ UNCHANGED <<scratch, slot>>
Return(r) == /\ st[r].pc = "responded"
             /\ st' = [st EXCEPT ![r].pc = "done", ![r].ret = st[r].resp]
             /\ UNCHANGED <<scratch, slot>>
Next == \E r \in Req : Call(r) \/ Chain(r) \/ Auth(r) \/ Parse(r) \/ Respond(r) \/ Return(r)
Spec == Init /\ [][Next]_vars

After(r, pcs) == st[r].pc \in pcs
Isolated == \A r \in Req : /\ (After(r, {"authed", "parsed", "responded", "done"}) => st[r].authedBy = Scheme(r))
                           /\ (After(r, {"parsed", "responded", "done"}) => st[r].parsed = st[r].sent)
                           /\ (st[r].pc = "done" => st[r].ret = st[r].resp /\ st[r].ret = 100 + st[r].sent)
SharedReadOnly == [][(SharedScratch \/ scratch' = scratch) /\ (AppendInPlace \/ slot' = slot)]_vars
=============================================================================
