------------------------------ MODULE Concurrent ------------------------------
(***************************************************************************)
(* C20: N requests served concurrently by one generated API value and sent *)
(* through one generated Client.  Every request r runs the Wire machine    *)
(*   Call -> Parse -> Respond -> Return                                    *)
(* on its own state st[r]; the package-level state (LogError, specFileBs,  *)
(* the API and Client values) is only read.  Isolation: the parameters a   *)
(* handler sees are those of its own request and the caller receives the   *)
(* response produced for its request.                                      *)
(* SharedScratch = TRUE models the class of defect the property excludes:  *)
(* a package-level scratch value written by one request and read by        *)
(* another (never the case in the pinned templates, where all per-request  *)
(* state lives in locals of ServeHTTP / new<Op>Params / Client.<Op>).      *)
(***************************************************************************)
EXTENDS Naturals, FiniteSets, TLC

CONSTANTS Req, SharedScratch
VARIABLES st, scratch
vars == <<st, scratch>>

Idle == [pc |-> "idle", sent |-> 0, parsed |-> 0, resp |-> 0, ret |-> 0]
Init == st = [r \in Req |-> Idle] /\ scratch = 0

\* tags: request r (a natural number) sends r, its handler answers 100 + r
Tag(r) == r

Call(r)   == /\ st[r].pc = "idle"
             /\ st' = [st EXCEPT ![r].pc = "called", ![r].sent = Tag(r)]
             /\ scratch' = IF SharedScratch THEN Tag(r) ELSE scratch
Parse(r)  == /\ st[r].pc = "called"
             /\ st' = [st EXCEPT ![r].pc = "parsed", ![r].parsed = IF SharedScratch THEN scratch ELSE st[r].sent]
             /\ UNCHANGED scratch
Respond(r) == /\ st[r].pc = "parsed"
              /\ st' = [st EXCEPT ![r].pc = "responded", ![r].resp = 100 + Tag(r)]
              /\ UNCHANGED scratch
Return(r) == /\ st[r].pc = "responded"
             /\ st' = [st EXCEPT ![r].pc = "done", ![r].ret = st[r].resp]
             /\ UNCHANGED scratch
Next == \E r \in Req : Call(r) \/ Parse(r) \/ Respond(r) \/ Return(r)
Spec == Init /\ [][Next]_vars

Isolated == \A r \in Req : /\ (st[r].pc \in {"parsed", "responded", "done"} => st[r].parsed = st[r].sent)
                           /\ (st[r].pc = "done" => st[r].ret = st[r].resp /\ st[r].ret = 100 + st[r].sent)
SharedReadOnly == [][SharedScratch \/ scratch' = scratch]_vars
=============================================================================
