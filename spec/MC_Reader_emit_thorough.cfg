SPECIFICATION Spec
CONSTANTS
  SharedMap = FALSE
  MaxMembers = 2
  Emit = TRUE
