SPECIFICATION Spec
CONSTANTS
  EscapePath = FALSE
  Emit = FALSE
INVARIANT HoldsInDomain
