-------------------------------- MODULE Naming --------------------------------
(***************************************************************************)
(* Identifier derivation (generator/title.go Title, generator/naming.go    *)
(* PublicFieldName) as transducers over a token alphabet that separates    *)
(* exactly the character classes the two functions distinguish:            *)
(*   lower-case letters a i d s, upper-case letters A I D S, the digit 1,  *)
(*   the separators - _ .                                                  *)
(* (i, d, s matter because of the id / ids special cases).                 *)
(* Impl layer: Title, PublicFieldName.  Prop layer: what a derived name    *)
(* has to be for the generated package to compile (C01) and for client and *)
(* server to agree on a field (C09).                                       *)
(***************************************************************************)
EXTENDS Naturals, Sequences, FiniteSets

Lower == {"a", "i", "d", "s"}
Upperc == {"A", "I", "D", "S"}
Digit == {"1"}
Seps  == {"-", "_", "."}
Tokens == Lower \cup Upperc \cup Digit \cup Seps
IsLetter(t) == t \in Lower \cup Upperc
Up(t) == CASE t = "a" -> "A" [] t = "i" -> "I" [] t = "d" -> "D" [] t = "s" -> "S" [] OTHER -> t

HasSuffix(s, x) == Len(s) >= Len(x) /\ SubSeq(s, Len(s) - Len(x) + 1, Len(s)) = x
DropSuffix(s, x) == SubSeq(s, 1, Len(s) - Len(x))

\* cases.Title(language.Und, cases.NoLower) on a separator-free word: the first letter is upper-cased, nothing is lower-cased
RECURSIVE TitleWordFrom(_, _)
TitleWordFrom(w, k) == IF k > Len(w) THEN w
                       ELSE IF IsLetter(w[k]) THEN [w EXCEPT ![k] = Up(w[k])]
                       ELSE TitleWordFrom(w, k + 1)
TitleWord(w) == TitleWordFrom(w, 1)

\* Title on a part without separators
TitlePart(p) == IF p = <<"i", "d">> \/ p = <<"I", "d">> THEN <<"I", "D">>
                ELSE IF p = <<"i", "d", "s">> THEN <<"I", "D", "s">>
                ELSE IF HasSuffix(p, <<"i", "d">>) THEN TitleWord(DropSuffix(p, <<"i", "d">>)) \o <<"I", "D">>
                ELSE IF HasSuffix(p, <<"i", "d", "s">>) THEN TitleWord(DropSuffix(p, <<"i", "d", "s">>)) \o <<"I", "D", "s">>
                ELSE TitleWord(p)

\* split at separators (every separator is first rewritten to "_")
RECURSIVE SplitSeps(_, _, _)
SplitSeps(s, k, cur) == IF k > Len(s) THEN << cur >>
                        ELSE IF s[k] \in Seps THEN << cur >> \o SplitSeps(s, k + 1, << >>)
                        ELSE SplitSeps(s, k + 1, Append(cur, s[k]))
RECURSIVE Concat(_)
Concat(ss) == IF ss = << >> THEN << >> ELSE Head(ss) \o Concat(Tail(ss))
Title(s) == IF \E k \in 1..Len(s) : s[k] \in Seps
            THEN Concat([i \in 1..Len(SplitSeps(s, 1, << >>)) |-> TitlePart(SplitSeps(s, 1, << >>)[i])])
            ELSE TitlePart(s)

\* PublicFieldName: words are cut at non-letters and before upper-case letters; a digit continues a word only as
\* the start of a new one while a word is open
RECURSIVE PFWords(_, _, _, _, _)
PFWords(s, k, inWord, cur, acc) ==
    IF k > Len(s) THEN (IF inWord THEN Append(acc, cur) ELSE acc)
    ELSE LET r == s[k]
             split == ~IsLetter(r) \/ r \in Upperc IN
         IF split THEN
              LET acc2 == IF inWord THEN Append(acc, cur) ELSE acc
                  w2   == IsLetter(r) \/ (inWord /\ r \in Digit) IN
              PFWords(s, k + 1, w2, IF w2 THEN << r >> ELSE << >>, acc2)
         ELSE PFWords(s, k + 1, TRUE, IF inWord THEN Append(cur, r) ELSE << r >>, acc)
\* strings.Title on such a word: its first character is upper-cased when it is a letter
PFWord(w) == IF w = <<"i", "d">> \/ w = <<"I", "d">> THEN <<"I", "D">>
             ELSE IF w = <<"i", "d", "s">> THEN <<"I", "D", "s">>
             ELSE IF w # << >> /\ IsLetter(w[1]) THEN [w EXCEPT ![1] = Up(w[1])] ELSE w
PublicFieldName(s) == LET ws == PFWords(s, 1, FALSE, << >>, << >>) IN Concat([i \in 1..Len(ws) |-> PFWord(ws[i])])

(* ---------------- Prop ---------------- *)
\* an exported Go identifier: an upper-case letter followed by letters and digits
ExportedIdent(x) == x # << >> /\ x[1] \in Upperc /\ \A k \in 1..Len(x) : IsLetter(x[k]) \/ x[k] \in Digit
\* names the dialect admits for parameters and properties: start with a letter, end with a letter or digit
DialectName(s) == s # << >> /\ IsLetter(s[1]) /\ (IsLetter(s[Len(s)]) \/ s[Len(s)] \in Digit)
=============================================================================
