SPECIFICATION Spec
