SPECIFICATION Spec
CONSTANTS
  Lits = {"a", "b"}
  D = 3
  R = 4
  ReqAlpha = {"a", "b", "z", ""}
  MaxSet = 2
  Guard = TRUE
  Emit = FALSE
INVARIANT RouterCorrect
