SPECIFICATION Spec
CONSTANTS
  SharedMap = FALSE
  MaxMembers = 2
  Emit = FALSE
INVARIANT ReaderCorrect
INVARIANT OneOfCorrect
