SPECIFICATION Spec
CONSTANTS
  Lits = {"a", "b"}
  D = 2
  R = 3
  ReqAlpha = {"a", "b", "z", ""}
  MaxSet = 2
  Guard = TRUE
  Emit = FALSE
INVARIANT RouterCorrect
