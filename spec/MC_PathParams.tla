---------------------------- MODULE MC_PathParams ----------------------------
(***************************************************************************)
(* C05 design check: the alternating constant-prefix / variable extractors *)
(* of new<Op>Params (PathParserConstant / PathParserVariable, built by     *)
(* generator/operation.go NewOperation) recover, for every request the     *)
(* router dispatches to the operation, exactly the segment at each         *)
(* variable's template position beneath the base path, and Parse() fails   *)
(* iff some such segment is empty or outside its type's lexical space.     *)
(* Segments of a request are classes (Params.Classes) for variable         *)
(* positions and literals elsewhere.                                       *)
(***************************************************************************)
EXTENDS Params, Router, TLC

CONSTANTS D, TypeSet, BaseLens
VARIABLES st, t, ty, base, rq
vars == <<st, t, ty, base, rq>>

SegAlpha == { [k |-> "lit", s |-> "a"], [k |-> "var", s |-> "x"], [k |-> "lit", s |-> ""] }
WFT(x)   == /\ \A i \in 1..Len(x) : (x[i].k = "lit" /\ x[i].s = "") => i = Len(x)
            /\ \E i \in 1..Len(x) : x[i].k = "var"
Templates == { x \in UNION { [1..n -> SegAlpha] : n \in 1..D } : WFT(x) }
VarPos(x) == { i \in 1..Len(x) : x[i].k = "var" }

Init == st = "pick" /\ t = << >> /\ ty = << >> /\ base = 0 /\ rq = << >>
PickT(x, types, b) == /\ st = "pick" /\ t' = x /\ ty' = types /\ base' = b /\ st' = "ask" /\ UNCHANGED rq
\* a dispatched request: base segments, then literals as in the template and any class at variable positions
Ask(r) == /\ st = "ask" /\ rq' = r /\ st' = "done" /\ UNCHANGED <<t, ty, base>>
Reqs == { r \in [1..Len(t) -> Classes \cup {"a", ""}] :
            \A i \in 1..Len(t) : IF t[i].k = "var" THEN r[i] \in Classes ELSE r[i] = t[i].s }
Next == \/ \E x \in Templates, b \in BaseLens : \E types \in [1..Len(x) -> TypeSet] : PickT(x, types, b)
        \/ \E r \in Reqs : Ask(r)
Spec == Init /\ [][Next]_vars

(* ---- Prop: the segment at the template position ---- *)
FullPath == [i \in 1..base |-> "b"] \o rq                 \* what r.URL.Path holds, as segments
Name(i)  == "x" \o ToString(i)
Decl(i)  == [in |-> "path", name |-> Name(i), type |-> ty[i], array |-> FALSE, req |-> TRUE]
PropSup  == [k \in { Key(Decl(i)) : i \in VarPos(t) } |->
               LET i == CHOOSE j \in VarPos(t) : Key(Decl(j)) = k IN << [cls |-> FullPath[base + i], tok |-> "v"] >>]

(* ---- Impl: strip the base prefix, then alternate constant prefixes and variables ---- *)
\* parsers: sequence of [k |-> "const", n |-> number of literal segments] / [k |-> "var", i |-> template position]
RECURSIVE Parsers(_, _)
Parsers(i, lits) == IF i > Len(t) THEN (IF lits > 0 THEN << [k |-> "const", n |-> lits, i |-> 0] >> ELSE << >>)
                    ELSE IF t[i].k = "var" THEN << [k |-> "const", n |-> lits, i |-> 0], [k |-> "var", n |-> 0, i |-> i] >> \o Parsers(i + 1, 0)
                    ELSE Parsers(i + 1, lits + 1)
RECURSIVE RunP(_, _, _)
\* p : remaining segments; returns the extracted class per variable position
RunP(ps, p, acc) == IF ps = << >> THEN acc
                    ELSE LET h == Head(ps) IN
                         IF h.k = "const" THEN RunP(Tail(ps), SubSeq(p, h.n + 1, Len(p)), acc)
                         ELSE RunP(Tail(ps), Tail(p), acc @@ (Key(Decl(h.i)) :> << [cls |-> Head(p), tok |-> "v"] >>))
ImplSup == RunP(Parsers(1, 0), SubSeq(FullPath, base + 1, Len(FullPath)), << >>)

DeclSeq == LET RECURSIVE mk(_)
               mk(i) == IF i > Len(t) THEN << >> ELSE (IF t[i].k = "var" THEN << Decl(i) >> ELSE << >>) \o mk(i + 1)
           IN mk(1)
DeclSet == { Decl(i) : i \in VarPos(t) }

PathCorrect == st = "done" =>
    /\ ImplSup = PropSup
    /\ LET res == Run(DeclSeq, ImplSup, 1)  f == Failing(DeclSet, PropSup) IN
         IF f = {} THEN res.ok ELSE (~res.ok /\ \E d \in f : Key(d) = res.err)
=============================================================================
