SPECIFICATION Spec
