SPECIFICATION Spec
CONSTANTS
  EscapePath = TRUE
  Emit = FALSE
INVARIANT HoldsInDomain
INVARIANT DomainIsTight
