SPECIFICATION Spec0
