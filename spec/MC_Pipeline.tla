----------------------------- MODULE MC_Pipeline -----------------------------
(***************************************************************************)
(* Design check: one request through the generated ServeHTTP, step by      *)
(* step, over every small security configuration (C11), middleware stack   *)
(* (C16) and kind of target.  The Impl layer follows                       *)
(* generator/file_router.gotmpl (ServeHTTP, Route, authMiddlewareOr,       *)
(* Security*Middleware.Auth) with the wiring of file_router.go NewRouter.  *)
(* Named deviations of the code from the Prop layer (known findings):      *)
(*   and-alt      a requirement object with two schemes keeps one of them  *)
(*   unsupported  schemes of unsupported kinds vanish from the requirement *)
(* Switches for repaired defects (TRUE = as repaired):                     *)
(*   BearerPerOp  bearer flag per operation (was: per path item)           *)
(*   NilSafe      a nil authenticator rejects (was: nil func call panics)  *)
(***************************************************************************)
EXTENDS Security, TLC, Json, SequencesExt

CONSTANTS MaxMw, BearerPerOp, NilSafe, Emit, Explore, Quick

VARIABLES cfgd, global, sec, cred, inst, nmw, target, pick,
          pc, entered, left, authq, ran, tag, status, writes, panicked
vars == <<cfgd, global, sec, cred, inst, nmw, target, pick, pc, entered, left, authq, ran, tag, status, writes, panicked>>

Schemes == {"A", "B", "C"}
KindOfS == [s \in Schemes |-> CASE s = "A" -> "bearer" [] s = "B" -> "apiKeyHeader" [] OTHER -> "basic"]
Ops     == {"o1", "o2", "o3"}            \* o1, o2 share path item 1; o3 is alone on item 2
ItemOf  == [o \in Ops |-> IF o = "o3" THEN 2 ELSE 1]

L(x) == [k |-> "list", list |-> x]
SecChoices == { [k |-> "inherit", list |-> << >>], L(<< >>), L(<< <<"A">> >>), L(<< <<"B">> >>), L(<< <<"A">>, <<"B">> >>),
                L(<< <<"A", "B">> >>), L(<< <<"C">> >>), L(<< <<"A">>, <<"C">> >>), L(<< <<"A", "C">> >>) }
Globals    == { [k |-> "none", list |-> << >>], L(<< <<"A">> >>), L(<< <<"A">>, <<"B">> >>), L(<< <<"C">> >>) }
CredStates == {"valid", "invalid", "absent"}
InstSets   == IF Quick THEN { Schemes, Schemes \ {"A"} } ELSE { Schemes, Schemes \ {"A"}, Schemes \ {"B"} }
Targets    == {"o1", "o3", "nf", "spec", "cors"}

Init == /\ cfgd = FALSE /\ global = [k |-> "none", list |-> << >>] /\ sec = [o \in Ops |-> [k |-> "inherit", list |-> << >>]]
        /\ cred = [s \in Schemes |-> "absent"] /\ inst = Schemes /\ nmw = 0 /\ target = "nf" /\ pick = 1
        /\ pc = "setup" /\ entered = 0 /\ left = 0 /\ authq = << >> /\ ran = FALSE /\ tag = "" /\ status = 0 /\ writes = 0 /\ panicked = FALSE

\* enumeration happens here, not in Init
SetupCfg(g, s1, s2) == /\ pc = "setup" /\ ~cfgd
                       /\ global' = g /\ sec' = [sec EXCEPT !["o1"] = s1, !["o2"] = s2] /\ cfgd' = TRUE
                       /\ UNCHANGED <<cred, inst, nmw, target, pick, pc, entered, left, authq, ran, tag, status, writes, panicked>>

EmitCfg == /\ pc = "setup" /\ cfgd /\ Emit
           /\ PrintT(ToJson([global |-> global, s1 |-> sec["o1"], s2 |-> sec["o2"]]))
           /\ UNCHANGED vars

SetupReq(c, i, n, t, p) == /\ pc = "setup" /\ cfgd /\ Explore
                           /\ cred' = c /\ inst' = i /\ nmw' = n /\ target' = t /\ pick' = p
                           /\ pc' = "recv"
                           /\ UNCHANGED <<cfgd, global, sec, entered, left, authq, ran, tag, status, writes, panicked>>

Eff(o) == Effective(global, sec[o])
Valid  == { s \in Schemes : cred[s] = "valid" }

(* ---- Impl wiring (file_router.go NewRouter) ---- *)
PickOf(alt) == IF pick <= Len(alt) THEN alt[pick] ELSE alt[1]      \* map iteration order: any key may come first
KeptSeq(o)  == [k \in DOMAIN Eff(o) |-> PickOf(Eff(o)[k])]
OpBearer(o) == \E k \in DOMAIN KeptSeq(o) : KindOfS[KeptSeq(o)[k]] = "bearer"
ItemBearer(o) == \E o2 \in Ops : ItemOf[o2] = ItemOf[o] /\ OpBearer(o2)
\* authMiddlewareOr(rt.SecurityBearerAuth, rt.SecurityAPIKeyAuth<Name>...)  - bearer first, then the api keys
AuthSeq(o) == (IF (IF BearerPerOp THEN OpBearer(o) ELSE ItemBearer(o)) THEN <<"A">> ELSE << >>)
              \o SelectSeq(KeptSeq(o), LAMBDA s : KindOfS[s] \in {"apiKeyHeader", "apiKeyQuery"})
Guarded(o) == AuthSeq(o) # << >>

(* ---- Impl steps (file_router.gotmpl ServeHTTP) ---- *)
ServeSpec == /\ pc = "recv" /\ target = "spec"
             /\ status' = 200 /\ writes' = writes + 1 /\ pc' = "done"
             /\ UNCHANGED <<cfgd, global, sec, cred, inst, nmw, target, pick, entered, left, authq, ran, tag, panicked>>

RouteMiss == /\ pc = "recv" /\ target \in {"nf", "cors"}        \* hasPath = false: no middlewares
             /\ status' = (IF target = "nf" THEN 404 ELSE 204) /\ writes' = writes + 1 /\ pc' = "done"
             /\ UNCHANGED <<cfgd, global, sec, cred, inst, nmw, target, pick, entered, left, authq, ran, tag, panicked>>

RouteOp == /\ pc = "recv" /\ target \in Ops
           /\ pc' = "mw" /\ authq' = AuthSeq(target)
           /\ UNCHANGED <<cfgd, global, sec, cred, inst, nmw, target, pick, entered, left, ran, tag, status, writes, panicked>>

EnterMW == /\ pc = "mw" /\ entered < nmw
           /\ entered' = entered + 1
           /\ UNCHANGED <<cfgd, global, sec, cred, inst, nmw, target, pick, pc, left, authq, ran, tag, status, writes, panicked>>

\* authMiddlewareOr: try the authenticators in order
AuthStep == /\ pc = "mw" /\ entered = nmw /\ Guarded(target) /\ authq # << >>
            /\ LET s == Head(authq) IN
                 IF cred[s] = "absent" THEN                                   \* Security*Middleware.Auth: no credential, user hook not called
                      /\ authq' = Tail(authq) /\ UNCHANGED <<pc, ran, tag, panicked>>
                 ELSE IF s \notin inst THEN
                      IF NilSafe THEN /\ authq' = Tail(authq) /\ UNCHANGED <<pc, ran, tag, panicked>>
                                 ELSE /\ panicked' = TRUE /\ pc' = "done" /\ UNCHANGED <<authq, ran, tag>>
                 ELSE IF cred[s] = "valid" THEN
                      /\ ran' = TRUE /\ tag' = s /\ pc' = "handler" /\ UNCHANGED <<authq, panicked>>
                 ELSE /\ authq' = Tail(authq) /\ UNCHANGED <<pc, ran, tag, panicked>>
            /\ UNCHANGED <<cfgd, global, sec, cred, inst, nmw, target, pick, entered, left, status, writes>>

Reject401 == /\ pc = "mw" /\ entered = nmw /\ Guarded(target) /\ authq = << >>
             /\ status' = 401 /\ writes' = writes + 1 /\ pc' = "unwind"
             /\ UNCHANGED <<cfgd, global, sec, cred, inst, nmw, target, pick, entered, left, authq, ran, tag, panicked>>

CallPublic == /\ pc = "mw" /\ entered = nmw /\ ~Guarded(target)
              /\ ran' = TRUE /\ tag' = "" /\ pc' = "handler"
              /\ UNCHANGED <<cfgd, global, sec, cred, inst, nmw, target, pick, entered, left, authq, status, writes, panicked>>

Respond == /\ pc = "handler"
           /\ status' = 200 /\ writes' = writes + 1 /\ pc' = "unwind"
           /\ UNCHANGED <<cfgd, global, sec, cred, inst, nmw, target, pick, entered, left, authq, ran, tag, panicked>>

LeaveMW == /\ pc = "unwind" /\ left < entered
           /\ left' = left + 1
           /\ UNCHANGED <<cfgd, global, sec, cred, inst, nmw, target, pick, pc, entered, authq, ran, tag, status, writes, panicked>>

Finish == /\ pc = "unwind" /\ left = entered /\ pc' = "done"
          /\ UNCHANGED <<cfgd, global, sec, cred, inst, nmw, target, pick, entered, left, authq, ran, tag, status, writes, panicked>>

Next == \/ \E g \in Globals, s1 \in SecChoices, s2 \in SecChoices : SetupCfg(g, s1, s2)
        \/ EmitCfg
        \/ \E c \in [Schemes -> CredStates], i \in InstSets, n \in (IF Quick THEN {MaxMw} ELSE {0, MaxMw}), t \in Targets, p \in {1, 2} : SetupReq(c, i, n, t, p)
        \/ ServeSpec \/ RouteMiss \/ RouteOp \/ EnterMW \/ AuthStep \/ Reject401 \/ CallPublic \/ Respond \/ LeaveMW \/ Finish

Spec == Init /\ [][Next]_vars
\* C14 "always answers", design level: under weak fairness of the step relation every received request reaches
\* "done" (there is no state of ServeHTTP from which no step is possible, and no cycle that avoids the answer);
\* checked without a state constraint (MC_Pipeline_live.cfg)
FairSpec == Spec /\ WF_vars(Next)
EveryRequestAnswered == (pc = "recv") ~> (pc = "done")

(* ---- Impl => Prop ---- *)
IsOp == target \in Ops
Auth(o) == Authorised(Eff(o), KindOfS, Valid, inst)
\* named deviations (known findings of C11)
KFAndAlt(o)      == \E k \in DOMAIN Eff(o) : Len(Eff(o)[k]) >= 2
KFUnsupported(o) == \E k \in DOMAIN Eff(o) : \E s \in SeqSet(Eff(o)[k]) : KindOfS[s] \notin SupportedKinds
Deviates(o)      == KFAndAlt(o) \/ KFUnsupported(o)

NoMore   == (ran /\ IsOp /\ ~Deviates(target)) => (Auth(target) /\ TagOK(Eff(target), KindOfS, Valid, inst, tag))
NoLess   == (pc = "done" /\ IsOp /\ ~Deviates(target) /\ ~panicked /\ Auth(target)) => ran
Only401  == (pc = "done" /\ IsOp /\ ~ran /\ ~panicked) => status = 401
NoPanic  == ~panicked
MwAround == /\ (ran => entered = nmw)
            /\ (pc = "done" /\ ~panicked => left = entered)
            /\ (~IsOp => entered = 0)
SingleWrite == (pc = "done" /\ ~panicked) => writes = 1
=============================================================================
