SPECIFICATION Spec
CONSTANTS
  MaxLen = 4
  Alphabet = {"bt", "dq", "bs", "lf", "cr", "dl", "n", "z", "nul", "bad8", "bom"}
  Version = "cur"
  Emit = TRUE
INVARIANT EmbedFaithful
