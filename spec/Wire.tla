--------------------------------- MODULE Wire ---------------------------------
(***************************************************************************)
(* C09 / C10 (and the write half of C02): one call through the generated   *)
(* Client (file_client.gotmpl ClientOperation / ClientResponse) against    *)
(* the generated server.                                                   *)
(*   client: BuildPath -> BuildQuery -> MarshalBody -> NewRequest ->       *)
(*           SetHeaders -> Do -> switch resp.StatusCode -> ParseHeaders -> *)
(*           DecodeBody -> return                                          *)
(* op = [id, m, t, decls : Seq(Decl), body : [k, s], resps : Seq(Resp),    *)
(*       hasDefault]                                                       *)
(* Resp = [status : STRING ("200" | "default"), ctype : STRING,            *)
(*         hdrs : Seq([canon, req, nn, array, type]), body : [k, s]]       *)
(***************************************************************************)
EXTENDS Params, Router, Codec

\* ---- C09: the wire request is valid for the operation ----
\* wire = [method, kind, segs, sup : [Key -> Seq([cls, tok])], undeclared : Seq(STRING), body : J, hasBody]
WireValid(base, op, wire, supF) ==
    LET b == Beneath(base, wire.kind, wire.segs) IN
    /\ wire.method = op.m
    /\ b.ok /\ Match(op.t, b.p)
    /\ \A d \in SeqToSet(op.decls) : Key(d) \in DOMAIN supF
    /\ Failing(SeqToSet(op.decls), supF) = {}
    /\ wire.undeclared = << >>
    /\ CASE op.body.k = "json" -> wire.body.t # "invalid" /\ Valid(op.body.s, wire.body)
         [] op.body.k = "raw"  -> TRUE
         [] OTHER              -> TRUE

\* ---- C10: what the client must return for a status ----
Documented(op)   == { op.resps[i].status : i \in DOMAIN op.resps }
\* outcome kinds: "documented" (the response of that status), "default", "error"
ClientOutcome(op, status) == IF status \in Documented(op) THEN "documented"
                             ELSE IF "default" \in Documented(op) THEN "default" ELSE "error"

\* Impl: switch resp.StatusCode { case <each documented numeric status>: ...; default: <default response | error> }
ImplOutcome(op, status) == IF \E i \in DOMAIN op.resps : op.resps[i].status = status /\ status # "default" THEN "documented"
                           ELSE IF \E i \in DOMAIN op.resps : op.resps[i].status = "default" THEN "default" ELSE "error"

\* ---- C02 (write half): what a handler's response puts on the wire ----
RespOf(op, status) == CHOOSE r \in SeqToSet(op.resps) : r.status = status
\* the header values a response value asks for: a scalar header is written once when set, an array header once per
\* element, an unset optional header not at all; every written value denotes the Go value in the lexical space of
\* the declared type
WireVals(done, canon) == IF \E i \in DOMAIN done.hdrVals : done.hdrVals[i].canon = canon
                         THEN (CHOOSE e \in SeqToSet(done.hdrVals) : e.canon = canon).vals ELSE << >>
\* what a wire value denotes in the lexical space of the header's type (the harness computes every denotation)
Denotes(type, w) == CASE type = "string" -> w.s
                      [] type \in IntKinds -> w.i
                      [] type = "double" -> w.f
                      [] type = "float" -> w.g
                      [] type = "bool" -> w.b
                      [] type = "datetime" -> w.t
                      [] OTHER -> "?"
Typed(type) == type \in {"string", "double", "float", "bool", "datetime"} \cup IntKinds
HeaderWritten(h, v, done) ==
    IF ~HasField(v.f, "headers") THEN TRUE
    ELSE LET hs == FieldOf(v.f, "headers") IN
         IF hs.t # "struct" \/ ~HasField(hs.f, h.nn) THEN TRUE
         ELSE LET f     == FieldOf(hs.f, h.nn)
                  unset == f.t = "maybe" /\ ~f.set
                  inner == IF f.t = "maybe" THEN f.m ELSE f
                  wire  == WireVals(done, h.canon)
              IN IF unset THEN wire = << >>
                 ELSE IF h.array THEN /\ inner.t = "list" /\ Len(wire) = Len(inner.l)
                                      /\ (Typed(h.type) => \A i \in DOMAIN wire : inner.l[i].t = "leaf" /\ Denotes(h.type, wire[i]) = inner.l[i].s)
                 ELSE /\ Len(wire) = 1
                      /\ (Typed(h.type) => inner.t = "leaf" /\ Denotes(h.type, wire[1]) = inner.s)
WriteOK(resp, v, done) ==
    /\ done.writes = 1
    /\ done.ctype = resp.ctype
    /\ \A i \in DOMAIN resp.hdrs : resp.hdrs[i].req => resp.hdrs[i].canon \in SeqToSet(done.hdrNames)
    /\ \A h \in SeqToSet(done.hdrNames) : h = "Content-Type" \/ \E i \in DOMAIN resp.hdrs : resp.hdrs[i].canon = h
    /\ \A i \in DOMAIN resp.hdrs : HeaderWritten(resp.hdrs[i], v, done)
    /\ CASE resp.body.k = "json" -> done.body.t # "invalid" /\ Valid(resp.body.s, done.body)
         [] resp.body.k = "none" -> done.bodyEmpty
         [] OTHER -> TRUE
=============================================================================
