SPECIFICATION Spec
CONSTANTS
  MaxMw = 2
  BearerPerOp = FALSE
  NilSafe = FALSE
  Emit = FALSE
  Quick = TRUE
  Explore = TRUE
INVARIANTS NoMore NoLess Only401 NoPanic MwAround SingleWrite
