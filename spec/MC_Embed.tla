------------------------------- MODULE MC_Embed -------------------------------
(* Exhaustive design check of Embed and generator of the contents replayed on the real code. *)
EXTENDS Embed, TLC, Json
CONSTANTS MaxLen, Alphabet, Version, Emit
VARIABLES c
Init == c = << >>
Extend(t) == Len(c) < MaxLen /\ c' = Append(c, t)
EmitC == Emit /\ PrintT(ToJson([c |-> c])) /\ UNCHANGED c
Next == (\E t \in Alphabet : Extend(t)) \/ EmitC
Spec == Init /\ [][Next]_c
Enc(x) == IF Version = "v0" THEN EncodeV0(x) ELSE Encode(x)
EmbedFaithful == Faithful(GoEval(Enc(c)), c)
=============================================================================
