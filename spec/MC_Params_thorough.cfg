SPECIFICATION Spec
CONSTANTS
  TypeSet = {"string", "int32", "double", "bool", "datetime"}
  MaxLex = 2
  Emit = FALSE
  Explore = TRUE
INVARIANT ImplRefinesProp
