SPECIFICATION FairSpec
CONSTANTS
  L = 7
  Policy = "readAll"
  MaxZero = 2
  Emit = FALSE
INVARIANT TypeOK
INVARIANT Complete
INVARIANT NoUseAfterClose
INVARIANT Conserved
PROPERTY Terminates
CHECK_DEADLOCK FALSE
