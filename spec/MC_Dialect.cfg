SPECIFICATION Spec
