SPECIFICATION Spec
CONSTANTS
  MaxMw = 2
  BearerPerOp = TRUE
  NilSafe = TRUE
  Emit = FALSE
  Quick = FALSE
  Explore = TRUE
INVARIANTS NoMore NoLess Only401 NoPanic MwAround SingleWrite
