----------------------------- MODULE Trace_Reader -----------------------------
(***************************************************************************)
(* Judge for the reader walk of C08: every object of MC_Reader's universe  *)
(* is generated as a component, every document over its keys (value        *)
(* status ok / null / bad per key) is unmarshalled by the real generated   *)
(* code.  What decides is the Prop layer (C08): a document with a fault is  *)
(* rejected naming a faulty property, a document the schema allows decodes *)
(* losslessly and re-encodes equivalently, a null where the schema has     *)
(* none is free.  Beyond that the observation is compared with what the    *)
(* step-level machines compute (Reader.ReadObj, Codec.WriteObj); a         *)
(* difference there is reported as DRIFT - the model needs updating, the   *)
(* property is not affected - and the case is accepted.                    *)
(*   Read {case, obj, doc, ok, named, values, nulls, zeros, extras, wrong}      *)
(*     named  : declared / document keys the error text names              *)
(*     values : keys whose field holds the document's value                *)
(*     nulls  : keys of nullable fields that are set to null               *)
(*     zeros  : keys of non-nullable fields that are set and hold the zero *)
(*     extras : keys of AdditionalProperties                               *)
(*     wrong  : keys whose field holds neither (must be empty)             *)
(*     valid, toks : the accepted value marshalled again: is it JSON, and  *)
(*              its members in order as the writer machine's tokens        *)
(* Writer walk: the value the reader built is handed to the generated      *)
(* MarshalJSON; the token stream must be exactly what the writer machine   *)
(* of Codec.tla (WriteObj, repaired template) emits for that value.        *)
(***************************************************************************)
EXTENDS Reader, Codec, Json

VARIABLES l, stats
tvars == <<l, stats>>
Trace == ndJsonDeserialize("trace.ndjson")
Ev    == Trace[l]

Init == l = 1 /\ stats = [accepted |-> 0, nontrivial |-> 0, rejected |-> 0]
Machine == ReadObj(Ev.obj, Ev.doc)
\* ---- Impl level: the observation is exactly what the step-level machines compute (a difference is model drift) ----
Agrees(r) == /\ Ev.ok = r.ok /\ Ev.wrong = << >>
             /\ r.ok => /\ SeqToSet(Ev.values) = r.set /\ SeqToSet(Ev.nulls) = r.nulls
                        /\ SeqToSet(Ev.zeros) = r.zeros /\ SeqToSet(Ev.extras) = r.extras
             /\ ~r.ok => r.err \in SeqToSet(Ev.named)          \* the error names the key the machine stops at
\* the value the machine says was built, as the writer machine sees it
RECURSIVE AsWritten(_, _, _)
AsWritten(o, r, top) ==
    [fields |-> [i \in DOMAIN o.fields |->
                   IF o.fields[i].k = "prop"
                   THEN [k |-> "prop", name |-> o.fields[i].name,
                         state |-> IF o.fields[i].name \in r.set \cup r.zeros THEN "set"
                                   ELSE IF o.fields[i].name \in r.nulls THEN "null" ELSE "unset"]
                   ELSE [k |-> "member", emb |-> o.fields[i].emb, obj |-> AsWritten(o.fields[i].obj, r, FALSE)]],
     addl |-> IF top /\ r.extras # {} THEN << CHOOSE x \in r.extras : TRUE >> ELSE << >>]
Writes(r) == r.ok => /\ Ev.valid
                     /\ Cardinality(r.extras) <= 1
                     /\ Ev.toks = WriteObj(AsWritten(Ev.obj, r, TRUE), << >>, FALSE, TRUE).toks
                     /\ WriterOK(AsWritten(Ev.obj, r, TRUE), TRUE)
ImplAgrees == Agrees(Machine) /\ (Agrees(Machine) => Writes(Machine))

\* ---- Prop level (C08): what decides ----
\* a document the schema allows: no fault, and no null where the schema has none (C08 is silent about those)
DeclKeys  == DeclNames(Ev.obj)
NullMisuse == { p.name : p \in { q \in Declared(Ev.obj) : q.name \in DOMAIN Ev.doc /\ Ev.doc[q.name] = "null" /\ ~q.nullable } }
              \cup { k \in DOMAIN Ev.doc \ DeclKeys : Ev.doc[k] = "null" }
PairsWritten == { Ev.toks[i] : i \in { k \in DOMAIN Ev.toks : Ev.toks[k].key # "," } }
PropHolds ==
    LET f == Faulty(Ev.obj, Ev.doc) IN
    IF f # {} THEN ~Ev.ok /\ SeqToSet(Ev.named) \cap f # {}                       \* rejected, naming a faulty property
    ELSE IF NullMisuse # {} THEN Ev.wrong = << >> \/ ~Ev.ok                          \* free: accepted or rejected
    ELSE /\ Ev.ok /\ Ev.wrong = << >>                                              \* valid: decodes losslessly ...
         /\ SeqToSet(Ev.values) = { k \in DOMAIN Ev.doc \cap DeclKeys : Ev.doc[k] = "ok" }
         /\ SeqToSet(Ev.nulls)  = { k \in DOMAIN Ev.doc \cap DeclKeys : Ev.doc[k] = "null" }
         /\ SeqToSet(Ev.zeros)  = {}
         /\ SeqToSet(Ev.extras) = (IF Ev.obj.addl = "typed" THEN DOMAIN Ev.doc \ DeclKeys ELSE {})
         /\ Ev.valid                                                               \* ... and re-encodes equivalently
         /\ PairsWritten = { [key |-> k, v |-> IF Ev.doc[k] = "null" THEN "null" ELSE "value"] :
                               k \in { x \in DOMAIN Ev.doc : x \in DeclKeys \/ Ev.obj.addl = "typed" } }
         /\ Cardinality(PairsWritten) = Cardinality({ k \in DOMAIN Ev.toks : Ev.toks[k].key # "," })
Read == /\ l <= Len(Trace) /\ Ev.ev = "Read"
        /\ PropHolds
        /\ ReadRefinesProp(Ev.obj, Ev.doc)                      \* (the design check, once more on the replayed case)
        /\ IF ImplAgrees THEN TRUE
           ELSE PrintT(ToJson([verdict |-> "DRIFT", case |-> Ev.case, at |-> l, event |-> [ev |-> "Read"],
                               why |-> [machineOK |-> Machine.ok, machineErr |-> Machine.err, reads |-> Agrees(Machine)]]))
        /\ stats' = [stats EXCEPT !.accepted = @ + 1, !.nontrivial = @ + (IF DOMAIN Ev.doc # {} THEN 1 ELSE 0)]
        /\ l' = l + 1
Step == Read
Skip == /\ l <= Len(Trace) /\ ~ENABLED Step
        /\ PrintT(ToJson([verdict |-> "REJECT", case |-> Ev.case, at |-> l, event |-> [ev |-> Ev.ev], kf |-> "",
                          why |-> [machineOK |-> Machine.ok, machineErr |-> Machine.err, faulty |-> Faulty(Ev.obj, Ev.doc), nullMisuse |-> NullMisuse]]))
        /\ stats' = [stats EXCEPT !.rejected = @ + 1]
        /\ l' = l + 1
Finish == /\ l = Len(Trace) + 1
          /\ PrintT(ToJson([verdict |-> "END", at |-> l, accepted |-> stats.accepted, nontrivial |-> stats.nontrivial, rejected |-> stats.rejected]))
          /\ l' = l + 1 /\ UNCHANGED stats
Next == Step \/ Skip \/ Finish
Spec == Init /\ [][Next]_tvars
=============================================================================
