----------------------------- MODULE Trace_Reader -----------------------------
(***************************************************************************)
(* Judge for the reader walk of C08: every object of MC_Reader's universe  *)
(* is generated as a component, every document over its keys (value        *)
(* status ok / null / bad per key) is unmarshalled by the real generated   *)
(* code, and the observation must be what the reader machine of Reader.tla *)
(* computes - and thereby what its Prop layer demands.                     *)
(*   Read {case, obj, doc, ok, named, values, nulls, zeros, extras, wrong}      *)
(*     named  : declared / document keys the error text names              *)
(*     values : keys whose field holds the document's value                *)
(*     nulls  : keys of nullable fields that are set to null               *)
(*     zeros  : keys of non-nullable fields that are set and hold the zero *)
(*     extras : keys of AdditionalProperties                               *)
(*     wrong  : keys whose field holds neither (must be empty)             *)
(***************************************************************************)
EXTENDS Reader, Json

VARIABLES l, stats
tvars == <<l, stats>>
Trace == ndJsonDeserialize("trace.ndjson")
Ev    == Trace[l]
SeqToSet(s) == { s[i] : i \in DOMAIN s }

Init == l = 1 /\ stats = [accepted |-> 0, nontrivial |-> 0, rejected |-> 0]
Machine == ReadObj(Ev.obj, Ev.doc)
Agrees(r) == /\ Ev.ok = r.ok /\ Ev.wrong = << >>
             /\ r.ok => /\ SeqToSet(Ev.values) = r.set /\ SeqToSet(Ev.nulls) = r.nulls
                        /\ SeqToSet(Ev.zeros) = r.zeros /\ SeqToSet(Ev.extras) = r.extras
             /\ ~r.ok => r.err \in SeqToSet(Ev.named)          \* the error names the key the machine stops at
Read == /\ l <= Len(Trace) /\ Ev.ev = "Read"
        /\ Agrees(Machine)
        /\ ReadRefinesProp(Ev.obj, Ev.doc)                      \* (the design check, once more on the replayed case)
        /\ stats' = [stats EXCEPT !.accepted = @ + 1, !.nontrivial = @ + (IF DOMAIN Ev.doc # {} THEN 1 ELSE 0)]
        /\ l' = l + 1
Step == Read
Skip == /\ l <= Len(Trace) /\ ~ENABLED Step
        /\ PrintT(ToJson([verdict |-> "REJECT", case |-> Ev.case, at |-> l, event |-> [ev |-> Ev.ev], kf |-> "",
                          why |-> [machineOK |-> Machine.ok, machineErr |-> Machine.err]]))
        /\ stats' = [stats EXCEPT !.rejected = @ + 1]
        /\ l' = l + 1
Finish == /\ l = Len(Trace) + 1
          /\ PrintT(ToJson([verdict |-> "END", at |-> l, accepted |-> stats.accepted, nontrivial |-> stats.nontrivial, rejected |-> stats.rejected]))
          /\ l' = l + 1 /\ UNCHANGED stats
Next == Step \/ Skip \/ Finish
Spec == Init /\ [][Next]_tvars
=============================================================================
