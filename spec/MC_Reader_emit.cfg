SPECIFICATION Spec
CONSTANTS
  SharedMap = FALSE
  MaxMembers = 1
  Emit = TRUE
