------------------------------- MODULE Security -------------------------------
(***************************************************************************)
(* C11 (and the header set of C17).                                        *)
(* Prop layer: effective requirement of an operation and authorisation.    *)
(* Impl layer: the wiring generator/file_router.go NewRouter produces      *)
(*   (which authenticators guard an operation's handler).                  *)
(***************************************************************************)
EXTENDS Naturals, Sequences, FiniteSets

\* sec = [k : "none" | "inherit" | "list", list : Seq(Seq(STRING))]   (one shape)
\* an alternative (one requirement object) is a sequence of scheme keys, ALL required
Effective(global, sec) == IF sec.k = "inherit" THEN (IF global.k = "list" THEN global.list ELSE << >>)
                          ELSE IF sec.k = "list" THEN sec.list ELSE << >>

SupportedKinds == {"bearer", "apiKeyHeader", "apiKeyQuery"}

SeqSet(s) == { s[i] : i \in DOMAIN s }

\* kindOf : scheme key -> kind ; valid : set of scheme keys whose credential in this request is valid
\* installed : set of scheme keys whose authenticator is installed on the API value
Accepts(kindOf, valid, installed, s) == s \in valid /\ s \in installed /\ s \in DOMAIN kindOf /\ kindOf[s] \in SupportedKinds

Authorised(eff, kindOf, valid, installed) ==
    \/ eff = << >>
    \/ \E k \in DOMAIN eff : \A s \in SeqSet(eff[k]) : Accepts(kindOf, valid, installed, s)

\* the scheme whose authenticator's request the handler may carry
TagOK(eff, kindOf, valid, installed, tagScheme) ==
    IF eff = << >> THEN tagScheme = ""
    ELSE \E k \in DOMAIN eff : /\ \A s \in SeqSet(eff[k]) : Accepts(kindOf, valid, installed, s)
                               /\ tagScheme \in SeqSet(eff[k])

(* ---------------- Impl: NewRouter's wiring ---------------- *)
\* one scheme is kept per requirement object (specification/security_requirement.go keeps the
\* entry of the last key ranged over; Pick models that choice), unsupported kinds vanish, and the
\* bearer flag is per operation (after the fix; per path item before: KF bearer-per-path)
Kept(eff, Pick(_)) == { Pick(eff[k]) : k \in DOMAIN eff }
AuthList(eff, kindOf, Pick(_), itemBearer) ==
    { s \in Kept(eff, Pick) : s \in DOMAIN kindOf /\ kindOf[s] \in SupportedKinds }
      \cup (IF itemBearer THEN { s \in DOMAIN kindOf : kindOf[s] = "bearer" } ELSE {})
ImplRuns(authList, valid, installed) == authList = {} \/ \E s \in authList : s \in valid /\ s \in installed
=============================================================================
