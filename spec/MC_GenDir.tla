------------------------------ MODULE MC_GenDir ------------------------------
(***************************************************************************)
(* Design check and history generator for GenDir.                          *)
(* Explores every history of at most MaxRuns invocations (and at most      *)
(* MaxTouch user edits) of the step-level model of goag.go Generate and    *)
(* checks that after every successful run the directory is Fresh(last).    *)
(* Every history is printed as one JSON line; the harness replays it on    *)
(* the real generator and Trace_GenDir judges the recorded directories.    *)
(***************************************************************************)
EXTENDS GenDir, TLC, Json

CONSTANTS MaxRuns,      \* length of histories
          SpecSet,      \* subset of {"s0","s1","s2","sP","sH"}
          MaxTouch,     \* number of user edits allowed in one history
          UserFiles,    \* names of files goag does not own
          DneSet,       \* values of the header option that occur in a history ({TRUE}: the CLI default throughout)
          GuardedRemove \* FALSE: goag.go as pinned; TRUE: the defect class of GenDir.ApplyG (negative control)

VARIABLES dir, pc, cur, i, last, res, n, touches, hist
vars == <<dir, pc, cur, i, last, res, n, touches, hist>>

Files == Owned \cup UserFiles

\* s0: no components      s1, s2: two different specs with components
\* sP: accepted by the loader, refused by goag before anything is written
\* sH: has components; rendering handler.go fails (components.go is already written)
HasComp(s) == s \in {"s1", "s2", "sH"}
FailStep(s, c, a) == IF s = "sP" THEN 1 ELSE IF s = "sH" /\ a THEN 2 ELSE IF s = "sH" /\ c THEN 6 ELSE 0

Invs == { [spec |-> s, comp |-> HasComp(s), client |-> c, api |-> a, dne |-> d, fail |-> FailStep(s, c, a)] :
            s \in SpecSet, c \in BOOLEAN, a \in BOOLEAN, d \in DneSet }

NoInv == [spec |-> "none", comp |-> FALSE, client |-> FALSE, api |-> FALSE, dne |-> TRUE, fail |-> 0]

Init == /\ dir = [f \in Files |-> IF f \in Owned THEN AbsentTok ELSE "user0:" \o f]
        /\ pc = "idle" /\ cur = NoInv /\ i = 0 /\ last = NoInv /\ res = "none"
        /\ n = 0 /\ touches = 0 /\ hist = << >>

Start(inv) == /\ pc = "idle" /\ n < MaxRuns
              /\ pc' = "run" /\ cur' = inv /\ i' = 1
              /\ hist' = Append(hist, [k |-> "run", spec |-> inv.spec, client |-> inv.client, api |-> inv.api, dne |-> inv.dne, f |-> "", how |-> ""])
              /\ UNCHANGED <<dir, last, res, n, touches>>

Step == /\ pc = "run" /\ i <= Len(Steps(cur)) /\ cur.fail # i
        /\ dir' = ApplyG(dir, cur, Steps(cur)[i], GuardedRemove)
        /\ i' = i + 1
        /\ UNCHANGED <<pc, cur, last, res, n, touches, hist>>

Fail == /\ pc = "run" /\ cur.fail = i
        /\ pc' = "idle" /\ res' = "error" /\ n' = n + 1
        /\ UNCHANGED <<dir, cur, i, last, touches, hist>>

Return == /\ pc = "run" /\ i > Len(Steps(cur)) /\ cur.fail = 0
          /\ pc' = "idle" /\ res' = "ok" /\ last' = cur /\ n' = n + 1
          /\ UNCHANGED <<dir, cur, i, touches, hist>>

\* the user edits, creates or deletes a file between two runs (owned files included)
Touch(f, how) == /\ pc = "idle" /\ touches < MaxTouch /\ n < MaxRuns /\ n >= 1
                 /\ dir' = [dir EXCEPT ![f] = IF how = "delete" THEN AbsentTok ELSE "edit" \o ToString(n) \o ":" \o f]
                 /\ touches' = touches + 1 /\ res' = "none"
                 /\ hist' = Append(hist, [k |-> "touch", spec |-> "", client |-> FALSE, api |-> FALSE, dne |-> TRUE, f |-> f, how |-> how])
                 /\ UNCHANGED <<pc, cur, i, last, n>>

EmitHist == /\ pc = "idle" /\ n >= 1 /\ hist[Len(hist)].k = "run"
            /\ PrintT(ToJson([hist |-> hist]))
            /\ UNCHANGED vars

Next == \/ \E inv \in Invs : Start(inv)
        \/ Step \/ Fail \/ Return
        \/ \E f \in Files, how \in {"edit", "delete"} : Touch(f, how)
        \/ EmitHist

Spec == Init /\ [][Next]_vars

(* ---- Impl => Prop ---- *)
DirMatchesLast == (pc = "idle" /\ res = "ok") => RunOKPost(ModelFresh(last), dir, dir, Files) 
UserUntouched  == [][pc = "run" => \A u \in UserFiles : dir'[u] = dir[u]]_vars
\* re-running the invocation that just succeeded changes nothing, at any step boundary it is at worst a rewrite
Idempotent     == [][(pc = "run" /\ res = "ok" /\ cur = last /\ pc' = "idle") => dir' = dir]_vars
=============================================================================
