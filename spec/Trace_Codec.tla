------------------------------ MODULE Trace_Codec ------------------------------
(***************************************************************************)
(* Judge for the JSON codec of generated types (C06, C07, C08).            *)
(*   Schema {id, s}                       registers a resolved schema      *)
(*   Enc {case, type, v, encOK, valid, j, decOK, v2, panic}                *)
(*        a Go value v was marshalled to bytes (tree j) and the bytes      *)
(*        unmarshalled into a fresh value v2                               *)
(*   Dec {case, type, doc, mut, prop, decOK, names, encOK, re, panic}      *)
(*        a document generated from the schema (mut = "none") or a         *)
(*        single-fault mutant of one (drop a required key / swap a JSON    *)
(*        type at property prop) was unmarshalled and re-encoded to re     *)
(***************************************************************************)
EXTENDS Codec, TLC, Json

VARIABLES l, schemas, stats
tvars == <<l, schemas, stats>>

Trace == ndJsonDeserialize("trace.ndjson")
Ev    == Trace[l]
Is(e) == l <= Len(Trace) /\ Ev.ev = e

Init == l = 1 /\ schemas = << >> /\ stats = [accepted |-> 0, nontrivial |-> 0, rejected |-> 0]

SchemaEv == /\ Is("Schema")
            /\ schemas' = Append(schemas, [id |-> Ev.id, s |-> Ev.s])
            /\ l' = l + 1 /\ UNCHANGED stats
S(id) == (CHOOSE e \in SeqToSet(schemas) : e.id = id).s
Known(id) == \E i \in DOMAIN schemas : schemas[i].id = id

\* C06: valid JSON, no duplicate keys, decoding the encoding gives the same value
C06(ev) == /\ ev.panic = "" /\ ev.encOK /\ ev.valid /\ ev.j.t # "invalid" /\ NoDupDeep(ev.j)
           /\ ev.decOK /\ VEq(ev.v, ev.v2)
\* C07: the bytes validate against the schema and say exactly what the value says
C07(ev) == /\ ev.encOK /\ ev.j.t # "invalid"
           /\ Valid(S(ev.type), ev.j) /\ Encodes(S(ev.type), ev.v, ev.j)
\* C08: valid documents decode and re-encode equivalently; single faults are rejected naming the property
C08(ev) == /\ ev.panic = ""
           /\ IF ev.mut = "none" THEN ev.decOK /\ ev.encOK /\ ev.re.t # "invalid" /\ JEquiv(S(ev.type), ev.doc, ev.re)
              \* ("maybe": a spelling a decoder may or may not take - an integer in float notation -; taken, it is that value)
              ELSE IF ev.mut = "maybe" THEN ~ev.decOK \/ (ev.encOK /\ ev.re.t # "invalid" /\ JEquiv(S(ev.type), ev.doc, ev.re))
              \* (a missing or wrongly typed discriminator is refused by its role - "unknown discriminator",
              \* "cannot unmarshal discriminator" -: the error need not spell the property's name)
              ELSE ~ev.decOK /\ (ev.names \/ ev.mut \in {"drop-disc", "swap-disc"})

Enc == /\ Is("Enc") /\ Known(Ev.type)
       /\ C06(Ev) /\ C07(Ev)
       /\ stats' = [stats EXCEPT !.accepted = @ + 1, !.nontrivial = @ + (IF Ev.j.t \in {"obj", "arr"} THEN 1 ELSE 0)]
       /\ l' = l + 1 /\ UNCHANGED schemas
Dec == /\ Is("Dec") /\ Known(Ev.type)
       /\ C08(Ev)
       /\ stats' = [stats EXCEPT !.accepted = @ + 1, !.nontrivial = @ + (IF Ev.doc.t \in {"obj", "arr"} THEN 1 ELSE 0)]
       /\ l' = l + 1 /\ UNCHANGED schemas
\* C08 through the server: a request body handed to API.ServeHTTP and parsed inside the handler
\*   Body {case, type, mut, prop, reached, ok, names, panic}
BodyEv == /\ Is("Body") /\ Known(Ev.type)
          /\ Ev.panic = "" /\ Ev.reached
          /\ IF Ev.mut = "none" THEN Ev.ok ELSE IF Ev.mut = "maybe" THEN TRUE ELSE (~Ev.ok /\ (Ev.names \/ Ev.mut \in {"drop-disc", "swap-disc"}))
          /\ stats' = [stats EXCEPT !.accepted = @ + 1, !.nontrivial = @ + 1]
          /\ l' = l + 1 /\ UNCHANGED schemas
Step == SchemaEv \/ Enc \/ Dec \/ BodyEv

Why == IF Ev.ev = "Enc" /\ Known(Ev.type) THEN [c06 |-> C06(Ev), c07 |-> IF Ev.encOK /\ Ev.j.t # "invalid" THEN C07(Ev) ELSE FALSE, c08 |-> TRUE]
       ELSE IF Ev.ev \in {"Dec", "Body"} /\ Known(Ev.type) THEN [c06 |-> TRUE, c07 |-> TRUE, c08 |-> FALSE]
       ELSE [c06 |-> FALSE, c07 |-> FALSE, c08 |-> FALSE]

\* known finding: a component schema that is a bare date-time becomes `type T time.Time`, which has no JSON methods
\* known finding: a nil inner slice of a nested inline array ([][]T) is encoded as null.  The selector is exact: the
\* event is rejected by C07 only, and is accepted once every null that stands for an empty inner list is read as [].
EmptyArrJ == [t |-> "arr", l |-> << >>, c |-> "[]"]
RECURSIVE Unwrap(_)
Unwrap(v) == IF v.t \in {"maybe", "nullable"} /\ v.set THEN Unwrap(v.m) ELSE v
\* known finding: the same for a nil slice held as a value of typed additionalProperties ({"k": null}); PatchNil with
\* addl = TRUE reads those nulls as [] as well
AddlEntryEmpty(v, key) ==
    LET fs == Flatten(v) IN
    /\ HasField(fs, "additionalproperties")
    /\ \E i \in DOMAIN FieldOf(fs, "additionalproperties").kv :
          LET e == FieldOf(fs, "additionalproperties").kv[i] IN e.k = key /\ e.v.t = "list" /\ Len(e.v.l) = 0
RECURSIVE PatchNilA(_, _, _, _)
PatchNil(s, v0, j) == PatchNilA(s, v0, j, FALSE)
PatchNilA(s, v0, j, addl) ==
    LET v == Unwrap(v0) IN
    CASE s.k = "array" /\ j.t = "arr" /\ v.t = "list" /\ Len(v.l) = Len(j.l) ->
           [j EXCEPT !.l = [i \in DOMAIN j.l |->
               IF s.items.k = "array" /\ ~s.items.nullable /\ j.l[i].t = "null" /\ v.l[i].t = "list" /\ Len(v.l[i].l) = 0 THEN EmptyArrJ
               ELSE PatchNilA(s.items, v.l[i], j.l[i], addl)]]
      [] s.k = "object" /\ j.t = "obj" /\ v.t = "struct" ->
           [j EXCEPT !.m = [i \in DOMAIN j.m |->
               IF j.m[i].k \in DeclaredNames(s) /\ HasField(Flatten(v), PropByName(s, j.m[i].k).nn)
               THEN [k |-> j.m[i].k, v |-> PatchNilA(PropByName(s, j.m[i].k).s, FieldOf(Flatten(v), PropByName(s, j.m[i].k).nn), j.m[i].v, addl)]
               ELSE IF addl /\ j.m[i].k \notin DeclaredNames(s) /\ s.addl.k = "schema" /\ s.addl.s.k = "array" /\ ~s.addl.s.nullable
                       /\ j.m[i].v.t = "null" /\ AddlEntryEmpty(v, j.m[i].k)
               THEN [k |-> j.m[i].k, v |-> EmptyArrJ]
               ELSE j.m[i]]]
      [] OTHER -> j
\* known finding: a value schema of additionalProperties that is declared inline as an object / allOf / oneOf becomes an
\* anonymous Go type without JSON methods (Go's default encoding on both ways)
KF == IF Known(Ev.type) /\ S(Ev.type).k = "datetime" THEN "codec-named-datetime"
      ELSE IF Known(Ev.type) /\ S(Ev.type).k = "object" /\ S(Ev.type).inlineAddl THEN "codec-addl-inline-composite"
      \* known finding: an allOf member with additionalProperties that is decoded before another member also collects
      \* the later members' keys as its own extras, and they are written twice on encoding (addlNotLast: the harness
      \* marks such an allOf); the selector covers the accepted document / the encodable value only - a valid document
      \* that is REFUSED is not this finding
      ELSE IF Known(Ev.type) /\ S(Ev.type).k = "object" /\ S(Ev.type).addlNotLast /\ Ev.ev = "Dec" /\ Ev.mut = "none" /\ Ev.decOK /\ Ev.panic = "" THEN "codec-allof-addl-not-last"
      ELSE IF Known(Ev.type) /\ S(Ev.type).k = "object" /\ S(Ev.type).addlNotLast /\ Ev.ev = "Enc" /\ Ev.encOK /\ Ev.panic = "" THEN "codec-allof-addl-not-last"
      \* known finding: a date-time string that sits in an array or is a value of additionalProperties is left to
      \* encoding/json and time.Time's own UnmarshalJSON, which does not decode JSON escapes: the valid document is refused
      \* when that string is spelled with \u escapes (escTime: the harness escaped every string of the document, the
      \* schema puts a date-time string in such a place, and the decoder's complaint is a time that does not parse -
      \* which for a mutant also takes the place of the error that should have named the faulty property)
      ELSE IF Ev.ev = "Dec" /\ Ev.escTime /\ ~Ev.decOK /\ Ev.panic = "" THEN "c08-escaped-time-in-collection"
      ELSE IF Ev.ev = "Body" /\ Ev.escTime /\ Ev.reached /\ ~Ev.ok /\ Ev.panic = "" THEN "c08-escaped-time-in-collection"
      ELSE IF Ev.ev = "Enc" /\ Known(Ev.type) /\ Ev.encOK /\ Ev.j.t # "invalid" /\ C06(Ev) /\ ~C07(Ev)
              /\ C07([Ev EXCEPT !.j = PatchNil(S(Ev.type), Ev.v, Ev.j)]) THEN "c07-nested-array-nil-null"
      ELSE IF Ev.ev = "Enc" /\ Known(Ev.type) /\ Ev.encOK /\ Ev.j.t # "invalid" /\ C06(Ev) /\ ~C07(Ev)
              /\ C07([Ev EXCEPT !.j = PatchNilA(S(Ev.type), Ev.v, Ev.j, TRUE)]) THEN "c07-addl-array-nil-null"
      ELSE ""

Skip == /\ l <= Len(Trace) /\ ~ENABLED Step
        /\ PrintT(ToJson([verdict |-> "REJECT", case |-> Ev.case, at |-> l, event |-> [ev |-> Ev.ev, type |-> Ev.type], kf |-> KF, why |-> Why]))
        /\ stats' = [stats EXCEPT !.rejected = @ + 1]
        /\ l' = l + 1 /\ UNCHANGED schemas

Finish == /\ l = Len(Trace) + 1
          /\ PrintT(ToJson([verdict |-> "END", at |-> l, accepted |-> stats.accepted, nontrivial |-> stats.nontrivial, rejected |-> stats.rejected]))
          /\ l' = l + 1 /\ UNCHANGED <<schemas, stats>>
Next == Step \/ Skip \/ Finish
Spec == Init /\ [][Next]_tvars
=============================================================================
