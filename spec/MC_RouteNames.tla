---------------------------- MODULE MC_RouteNames ----------------------------
(***************************************************************************)
(* Design check of RouteNames.tla over every set of two templates of       *)
(* depth 2..3 over literals that differ by separators, case and letters,   *)
(* a digit-only literal and two variable names; emission of the sets whose *)
(* derived names collide (they are generated, compiled and routed by the   *)
(* C01 and C03 checks).                                                    *)
(***************************************************************************)
EXTENDS RouteNames, Json

CONSTANT Emit

Lits == { <<"a">>, <<"d">>, <<"a", "d">>, <<"a", "_", "d">>, <<"A", "d">>, <<"1">> }
Segs == { L(s) : s \in Lits } \cup { V(<<"d">>), V(<<"a", "d">>) }
Tails == { <<L(<<"s">>)>> }
Templates == { <<x>> \o tl : x \in Segs, tl \in Tails } \cup { <<x, y>> \o tl : x \in Segs, y \in Segs, tl \in Tails }
\* two templates that are not equivalent (same keys at every position)
Sets == { <<t1, t2>> : t1 \in Templates, t2 \in Templates }
OKSet(t) == /\ NodeKey(t[1], Len(t[1])) # NodeKey(t[2], Len(t[2]))
            /\ \A j \in 1..2 : \A p, q \in 1..Len(t[j]) : (p # q /\ t[j][p].k = "var" /\ t[j][q].k = "var") => t[j][p].s # t[j][q].s

Init == ts = << >> /\ order = << >> /\ derived = << >> /\ i = 0 /\ used = {} /\ final = << >>
EmitSet(t) == /\ Emit /\ i = 0 /\ OKSet(t) /\ Collides(t)
              /\ PrintT(ToJson([routeSet |-> t, opCollides |-> OpCollides(t)])) /\ UNCHANGED vars
Next == (\E t \in Sets : OKSet(t) /\ ~Emit /\ Start(t)) \/ (~Emit /\ Number) \/ (\E t \in Sets : EmitSet(t))
Spec == Init /\ [][Next]_vars
=============================================================================
