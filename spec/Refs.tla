--------------------------------- MODULE Refs ---------------------------------
(***************************************************************************)
(* C18: replacing a reference to a component by an inline copy of its      *)
(* target (through any alias chain), or hoisting an inline definition into *)
(* a component, does not change behaviour on the wire.                     *)
(*                                                                         *)
(* A spec is seen as a set of sites; every site has a target definition    *)
(* and a surface form: "inline", "ref" or "alias" (a $ref to a component   *)
(* that is itself a $ref).  Rewrites change forms only.  The semantics of  *)
(* a spec (the union of the Prop layers of Router, Params, Codec, Wire     *)
(* applied to the resolved spec) is a function of the targets alone, so    *)
(* Sem(Rewrite(a)) = Sem(a) holds by construction of Resolve; the work is  *)
(* in the binding: two generated packages whose specs differ by a rewrite  *)
(* must be observationally equivalent (Equiv).                             *)
(***************************************************************************)
EXTENDS Codec

Forms      == {"inline", "ref", "alias"}
Categories == {"paramSchemas", "params", "bodies", "responses", "headers"}
\* a variant assigns each category of sites what to do with it
Actions    == {"keep", "inline", "hoist"}

Resolve(form, target) == target                      \* whatever the surface form
Rewrite(form, action) == CASE action = "inline" -> "inline"
                           [] action = "hoist"  -> (IF form = "inline" THEN "ref" ELSE form)
                           [] OTHER             -> form

(* ---- observational equivalence of two packages on one input ---- *)
\* values: equal after merging embedded members and regardless of field order
RECURSIVE VEqF(_, _)
VEqF(a, b) ==
    /\ a.t = b.t
    /\ CASE a.t = "leaf" -> a.s = b.s
         [] a.t \in {"maybe", "nullable"} -> a.set = b.set /\ (a.set => VEqF(a.m, b.m))
         [] a.t = "list" -> Len(a.l) = Len(b.l) /\ \A i \in DOMAIN a.l : VEqF(a.l[i], b.l[i])
         [] a.t = "map"  -> Len(a.kv) = Len(b.kv) /\ \A i \in DOMAIN a.kv : a.kv[i].k = b.kv[i].k /\ VEqF(a.kv[i].v, b.kv[i].v)
         [] a.t = "struct" ->
              LET fa == Flatten(a)  fb == Flatten(b) IN
                /\ { fa[i].n : i \in DOMAIN fa } = { fb[i].n : i \in DOMAIN fb }
                /\ \A i \in DOMAIN fa : \E k \in DOMAIN fb : fb[k].n = fa[i].n /\ VEqF(fa[i].v, fb[k].v)
         [] OTHER -> TRUE

\* wire observations: [sent, wire : [method, path, query, hdrs, body], parseOK, errKey, parsed, responded, respType?, done : [status, ctype, hdrs, body], retOK, ret]
WireEq(x, y)  == x.method = y.method /\ x.path = y.path /\ x.query = y.query /\ x.hdrs = y.hdrs /\ x.body = y.body
DoneEq(x, y)  == x.status = y.status /\ x.ctype = y.ctype /\ x.hdrs = y.hdrs /\ x.body = y.body
WireEquiv(a, b) ==
    VEqF(a.sent, b.sent) =>                                    \* the same request value was sent
      /\ WireEq(a.wire, b.wire)
      /\ a.parseOK = b.parseOK /\ a.errKey = b.errKey
      /\ (a.parseOK => VEqF(a.parsed, b.parsed))
      \* (the scripted handlers of the two packages pick "the k-th response" among the implementers ordered by the status
      \* each writes - driver.ProbeStatuses -, so equal seeds mean the same documented response in both packages)
      \* the two packages offer the same response values: the scripted handlers fill the response types from the same
      \* seed, so a difference means a declaration (type, required flag) changed with the rewrite
      /\ ((a.hasResp /\ b.hasResp) => VEqF(a.responded, b.responded))
      /\ ((a.hasResp /\ b.hasResp /\ VEqF(a.responded, b.responded)) =>
              /\ DoneEq(a.done, b.done)
              /\ a.retOK = b.retOK /\ (a.retOK => VEqF(a.ret, b.ret)))

\* raw requests: [status, handler : op id or "", parseOK, errKey, parsed, panic]
\* (when a handler ran the status is whatever response the scripted handler picked: not compared)
RawEquiv(a, b) == /\ a.handler = b.handler /\ a.panic = b.panic /\ (a.handler = "" => a.status = b.status)
                  /\ a.parseOK = b.parseOK /\ a.errKey = b.errKey
                  /\ (a.parseOK => VEqF(a.parsed, b.parsed))
=============================================================================
