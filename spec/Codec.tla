-------------------------------- MODULE Codec --------------------------------
(***************************************************************************)
(* C06 / C07 / C08: the JSON codec of schema-derived Go types              *)
(* (generator/file_components.gotmpl MarshalJSON / UnmarshalJSON,          *)
(* types.gotmpl, primitive.gotmpl, Maybe / Nullable).                      *)
(*                                                                         *)
(* Schemas (resolved: $ref replaced by its target, allOf merged):          *)
(*   [k : "string"|"int"|"int32"|"int64"|"double"|"float"|"bool"|          *)
(*        "datetime"|"any", nullable]                                      *)
(*   [k : "array", nullable, items]                                        *)
(*   [k : "object", nullable, props : Seq([name, nn, req, s]),             *)
(*        addl : [k : "none"|"any"|"schema", s]]                           *)
(*   [k : "oneOf", of : Seq(Schema)]                                       *)
(* Abstract Go values (harness projection, DESIGN §8):                     *)
(*   [t:"leaf", s] [t:"maybe"|"nullable", set, m] [t:"struct", f:Seq([n,emb,v])]*)
(*   [t:"list", l] [t:"map", kv : Seq([k, v])]                             *)
(* Abstract JSON: [t:"null"] [t:"bool", tok] [t:"num", i, f, g, i32]       *)
(*   [t:"str", tok, tt] [t:"arr", l] [t:"obj", m : Seq([k, v])] [t:"invalid"] *)
(*   every node has c = its canonical text.                                *)
(*                                                                         *)
(* Prop layer: Valid (C07), Encodes = "j is the encoding of v under s"       *)
(* (C06/C07), VEq (C06 round trip), JEquiv (C08).                          *)
(* Impl layer: the writer machine with its comma register (MC_Codec).      *)
(***************************************************************************)
EXTENDS Naturals, Sequences, FiniteSets

SeqToSet(s) == { s[i] : i \in DOMAIN s }
Keys(j)     == { j.m[i].k : i \in DOMAIN j.m }
NoDupKeys(j) == Cardinality(Keys(j)) = Len(j.m)
HasKey(j, k) == k \in Keys(j)
Get(j, k)   == (CHOOSE e \in SeqToSet(j.m) : e.k = k).v

RECURSIVE NoDupDeep(_)
NoDupDeep(j) == CASE j.t = "obj" -> NoDupKeys(j) /\ \A i \in DOMAIN j.m : NoDupDeep(j.m[i].v)
                  [] j.t = "arr" -> \A i \in DOMAIN j.l : NoDupDeep(j.l[i])
                  [] OTHER -> TRUE

StringKinds == {"string"}
IntKinds    == {"int", "int32", "int64"}

(* ---------------- C07: validity of a JSON tree for a schema ---------------- *)
DeclaredNames(s) == { s.props[i].name : i \in DOMAIN s.props }
PropByName(s, n) == CHOOSE p \in SeqToSet(s.props) : p.name = n

RECURSIVE Valid(_, _)
ValidNN(s, j) ==
    CASE s.k \in StringKinds -> j.t = "str"
      [] s.k = "datetime"    -> j.t = "str" /\ j.tt # ""
      [] s.k \in IntKinds    -> j.t = "num" /\ j.i # "" /\ (s.k = "int32" => j.i32)
      [] s.k \in {"double", "float"} -> j.t = "num"
      [] s.k = "bool"        -> j.t = "bool"
      [] s.k = "any"         -> j.t # "invalid"
      [] s.k = "array"       -> j.t = "arr" /\ \A i \in DOMAIN j.l : Valid(s.items, j.l[i])
      [] s.k = "object"      ->
            /\ j.t = "obj" /\ NoDupKeys(j)
            /\ \A i \in DOMAIN s.props : s.props[i].req => HasKey(j, s.props[i].name)
            /\ \A k \in Keys(j) :
                 IF k \in DeclaredNames(s) THEN Valid(PropByName(s, k).s, Get(j, k))
                 ELSE CASE s.addl.k = "none"   -> FALSE          \* encoded names are exactly the declared names
                        [] s.addl.k = "any"    -> Get(j, k).t # "invalid"
                        [] OTHER               -> Valid(s.addl.s, Get(j, k))
      [] s.k = "oneOf"       -> Cardinality({ i \in DOMAIN s.of : Valid(s.of[i], j) }) = 1
      [] OTHER -> FALSE
Valid(s, j) == IF j.t = "null" THEN (s.nullable \/ s.k = "any") ELSE ValidNN(s, j)

(* ---------------- C06/C07: j is the encoding of the Go value v ---------------- *)
RECURSIVE Flatten(_)
\* fields of a struct with embedded members (allOf $ref members) merged in
Flatten(v) == LET RECURSIVE go(_)
                  go(fs) == IF fs = << >> THEN << >>
                            ELSE (IF Head(fs).emb /\ Head(fs).v.t = "struct" THEN Flatten(Head(fs).v) ELSE << Head(fs) >>) \o go(Tail(fs))
              IN go(v.f)
HasField(fs, nn) == \E i \in DOMAIN fs : fs[i].n = nn
FieldOf(fs, nn)  == (CHOOSE e \in SeqToSet(fs) : e.n = nn).v

RECURSIVE Encodes(_, _, _)
EncodesNN(s, v, j) ==
    CASE s.k \in StringKinds -> v.t = "leaf" /\ j.t = "str" /\ j.tok = v.s
      [] s.k = "datetime"    -> v.t = "leaf" /\ j.t = "str" /\ j.tt = v.s
      [] s.k \in IntKinds    -> v.t = "leaf" /\ j.t = "num" /\ j.i = v.s
      [] s.k = "double"      -> v.t = "leaf" /\ j.t = "num" /\ j.f = v.s
      [] s.k = "float"       -> v.t = "leaf" /\ j.t = "num" /\ j.g = v.s
      [] s.k = "bool"        -> v.t = "leaf" /\ j.t = "bool" /\ j.tok = v.s
      [] s.k = "any"         -> v.t = "leaf" /\ j.t # "invalid" /\ ("j:" \o j.c) = v.s
      [] s.k = "array"       -> v.t = "list" /\ j.t = "arr" /\ Len(v.l) = Len(j.l)
                                /\ \A i \in DOMAIN v.l : Encodes(s.items, v.l[i], j.l[i])
      [] s.k = "object"      ->
            /\ v.t = "struct" /\ j.t = "obj" /\ NoDupKeys(j)
            /\ LET fs == Flatten(v)
                   present == { s.props[i].name : i \in { k \in DOMAIN s.props :
                                   /\ HasField(fs, s.props[k].nn)
                                   /\ (s.props[k].req \/ (FieldOf(fs, s.props[k].nn).t = "maybe" /\ FieldOf(fs, s.props[k].nn).set)) } }
                   extra == IF s.addl.k = "none" \/ ~HasField(fs, "additionalproperties") THEN << >>
                            ELSE FieldOf(fs, "additionalproperties").kv
               IN /\ \A i \in DOMAIN s.props : HasField(fs, s.props[i].nn)
                  /\ Keys(j) = present \cup { extra[i].k : i \in DOMAIN extra }
                  /\ \A i \in DOMAIN s.props :
                       LET p == s.props[i]  f == FieldOf(fs, p.nn) IN
                         IF p.req THEN Encodes(p.s, f, Get(j, p.name))
                         ELSE f.t = "maybe" /\ (f.set => Encodes(p.s, f.m, Get(j, p.name)))
                  /\ \A i \in DOMAIN extra :
                       IF s.addl.k = "any" THEN Encodes([k |-> "any", nullable |-> FALSE], extra[i].v, Get(j, extra[i].k))
                       ELSE Encodes(s.addl.s, extra[i].v, Get(j, extra[i].k))
      [] s.k = "oneOf"       ->
            /\ v.t = "struct"
            /\ Cardinality({ i \in DOMAIN v.f : v.f[i].v.t = "maybe" /\ v.f[i].v.set }) = 1
            /\ \E i \in DOMAIN v.f : v.f[i].v.t = "maybe" /\ v.f[i].v.set
                                     /\ \E k \in DOMAIN s.of : Encodes(s.of[k], v.f[i].v.m, j)
      [] OTHER -> FALSE
Encodes(s, v, j) == IF s.nullable /\ s.k # "any"
                  THEN v.t = "nullable" /\ (IF v.set THEN EncodesNN(s, v.m, j) ELSE j.t = "null")
                  ELSE EncodesNN(s, v, j)

(* ---------------- C06: equality of projected values ---------------- *)
RECURSIVE VEq(_, _)
VEq(a, b) == /\ a.t = b.t
             /\ CASE a.t = "leaf" -> a.s = b.s
                  [] a.t \in {"maybe", "nullable"} -> a.set = b.set /\ (a.set => VEq(a.m, b.m))
                  [] a.t = "struct" -> Len(a.f) = Len(b.f) /\ \A i \in DOMAIN a.f : a.f[i].n = b.f[i].n /\ VEq(a.f[i].v, b.f[i].v)
                  [] a.t = "list" -> Len(a.l) = Len(b.l) /\ \A i \in DOMAIN a.l : VEq(a.l[i], b.l[i])
                  [] a.t = "map" -> Len(a.kv) = Len(b.kv) /\ \A i \in DOMAIN a.kv : a.kv[i].k = b.kv[i].k /\ VEq(a.kv[i].v, b.kv[i].v)
                  [] OTHER -> TRUE

(* ---------------- C08: equivalence of a document and its re-encoding ---------------- *)
RECURSIVE JEquiv(_, _, _)
JEquivNN(s, a, b) ==
    CASE s.k \in StringKinds -> a.t = "str" /\ b.t = "str" /\ a.tok = b.tok
      [] s.k = "datetime"    -> a.t = "str" /\ b.t = "str" /\ a.tt = b.tt /\ a.tt # ""
      [] s.k \in IntKinds    -> a.t = "num" /\ b.t = "num" /\ a.i = b.i /\ a.i # ""
      [] s.k = "double"      -> a.t = "num" /\ b.t = "num" /\ a.f = b.f
      [] s.k = "float"       -> a.t = "num" /\ b.t = "num" /\ a.g = b.g
      [] s.k = "bool"        -> a.t = "bool" /\ b.t = "bool" /\ a.tok = b.tok
      [] s.k = "any"         -> a.c = b.c
      [] s.k = "array"       -> a.t = "arr" /\ b.t = "arr" /\ Len(a.l) = Len(b.l) /\ \A i \in DOMAIN a.l : JEquiv(s.items, a.l[i], b.l[i])
      [] s.k = "object"      ->
            /\ a.t = "obj" /\ b.t = "obj" /\ NoDupKeys(b)
            /\ \A i \in DOMAIN s.props : LET n == s.props[i].name IN
                   /\ HasKey(a, n) = HasKey(b, n)
                   /\ HasKey(a, n) => JEquiv(s.props[i].s, Get(a, n), Get(b, n))
            /\ IF s.addl.k = "none" THEN Keys(b) \subseteq DeclaredNames(s)        \* extras of a silent schema need not survive
               ELSE /\ Keys(a) \ DeclaredNames(s) = Keys(b) \ DeclaredNames(s)
                    /\ \A k \in Keys(a) \ DeclaredNames(s) :
                         IF s.addl.k = "any" THEN Get(a, k).c = Get(b, k).c ELSE JEquiv(s.addl.s, Get(a, k), Get(b, k))
      [] s.k = "oneOf"       -> \E k \in DOMAIN s.of : Valid(s.of[k], a) /\ JEquiv(s.of[k], a, b)
      [] OTHER -> FALSE
JEquiv(s, a, b) == IF a.t = "null" \/ b.t = "null" THEN (a.t = b.t \/ (s.k = "any" /\ a.c = b.c)) ELSE JEquivNN(s, a, b)

(* ---------------- Impl: the generated object writer (marshalJSONInnerBody) ---------------- *)
\* An object value as the writer sees it:
\*   [fields : Seq(Field), addl : Seq(STRING)]
\*   Field = [k : "prop", name, state : "set" | "unset" | "null"]      a required / optional / nullable property
\*         | [k : "member", emb : BOOLEAN, obj : Object]               an allOf member: inline members' fields belong to the
\*                                                                      outer struct (shared `comma`), embedded ($ref) members
\*                                                                      run their own marshalJSONInnerBody
\* Token stream: CommaTok | [key |-> name, v |-> "value" | "null"].
\* fixed = TRUE : an embedded member is rendered into a buffer and takes part in the comma protocol only when
\*                non-empty (the repaired template);  fixed = FALSE : the pinned tree - the member writes straight to
\*                `out` starting from an empty register, and the outer register is set to "," unconditionally.
CommaTok == [key |-> ",", v |-> ","]          \* tokens are all records (TLC cannot compare a record with a string)
Sep(comma) == IF comma THEN << CommaTok >> ELSE << >>
RECURSIVE WriteObj(_, _, _, _)
RECURSIVE WriteFields(_, _, _, _)
WriteFields(fs, toks, comma, fixed) ==
    IF fs = << >> THEN [toks |-> toks, comma |-> comma]
    ELSE LET f == Head(fs) IN
         IF f.k = "prop" THEN
              IF f.state = "unset" THEN WriteFields(Tail(fs), toks, comma, fixed)
              ELSE WriteFields(Tail(fs), toks \o Sep(comma) \o << [key |-> f.name, v |-> IF f.state = "null" THEN "null" ELSE "value"] >>, TRUE, fixed)
         ELSE IF ~f.emb THEN
              LET r == WriteFields(f.obj.fields, toks, comma, fixed) IN WriteFields(Tail(fs), r.toks, r.comma, fixed)
         ELSE LET body == WriteObj(f.obj, << >>, FALSE, fixed).toks IN
              IF fixed THEN (IF body = << >> THEN WriteFields(Tail(fs), toks, comma, fixed)
                             ELSE WriteFields(Tail(fs), toks \o Sep(comma) \o body, TRUE, fixed))
              ELSE WriteFields(Tail(fs), toks \o body, TRUE, fixed)
WriteObj(o, toks, comma, fixed) ==
    LET r == WriteFields(o.fields, toks, comma, fixed)
        RECURSIVE addl(_, _, _)
        addl(ks, t, c) == IF ks = << >> THEN [toks |-> t, comma |-> c]
                          ELSE addl(Tail(ks), t \o Sep(c) \o << [key |-> Head(ks), v |-> "value"] >>, TRUE)
    IN addl(o.addl, r.toks, r.comma)

\* what must be written: every set / null property of the object and of all its members, and the map entries
RECURSIVE ExpectedPairs(_)
ExpectedPairs(o) ==
    UNION { IF o.fields[i].k = "prop"
            THEN (IF o.fields[i].state = "unset" THEN {} ELSE { [key |-> o.fields[i].name, v |-> IF o.fields[i].state = "null" THEN "null" ELSE "value"] })
            ELSE ExpectedPairs(o.fields[i].obj) : i \in DOMAIN o.fields }
    \cup { [key |-> o.addl[i], v |-> "value"] : i \in DOMAIN o.addl }

\* a well-formed member list: pair ("," pair)*
RECURSIVE WFToks(_, _)
WFToks(toks, expectPair) == IF toks = << >> THEN ~expectPair
                            ELSE IF expectPair THEN Head(toks).key # "," /\ WFToks(Tail(toks), FALSE)
                            ELSE Head(toks).key = "," /\ Tail(toks) # << >> /\ WFToks(Tail(toks), TRUE)
WellFormedBody(toks) == toks = << >> \/ WFToks(toks, TRUE)
PairsOf(toks) == { toks[i] : i \in { k \in DOMAIN toks : toks[k].key # "," } }
WriterOK(o, fixed) == LET t == WriteObj(o, << >>, FALSE, fixed).toks IN
                      /\ WellFormedBody(t)
                      /\ PairsOf(t) = ExpectedPairs(o)
                      /\ Cardinality(PairsOf(t)) = Cardinality({ i \in DOMAIN t : t[i].key # "," })      \* nothing written twice
=============================================================================
