SPECIFICATION Spec
CONSTANTS
  SharedMap = TRUE
  MaxMembers = 1
  Emit = FALSE
INVARIANT OneOfCorrect
