------------------------------- MODULE MC_Wire -------------------------------
(* Design check of the client's status dispatch (C10): documented statuses x default x actual status. *)
EXTENDS Wire, TLC
VARIABLES st, docs, status
Statuses == {"200", "201", "404"}
Actual   == {"200", "201", "202", "302", "404", "418", "500"}
Init == st = "pick" /\ docs = {} /\ status = ""
Pick(d, s) == st = "pick" /\ docs' = d /\ status' = s /\ st' = "done"
Next == \E d \in SUBSET (Statuses \cup {"default"}), s \in Actual : d # {} /\ Pick(d, s)
Spec == Init /\ [][Next]_<<st, docs, status>>
Op == [resps |-> [i \in 1..Cardinality(docs) |-> [status |-> (CHOOSE f \in [1..Cardinality(docs) -> docs] : \A a, b \in 1..Cardinality(docs) : a # b => f[a] # f[b])[i]]]]
DispatchCorrect == st = "done" => ImplOutcome(Op, status) = ClientOutcome(Op, status)
=============================================================================
