------------------------------- MODULE Pipeline -------------------------------
(***************************************************************************)
(* One HTTP request through the generated API.ServeHTTP                    *)
(* (generator/file_router.gotmpl): spec file | route -> (not found | CORS  *)
(* | operation) -> middlewares -> security -> handler -> response.         *)
(* Properties C03 (dispatch), C11 (security), C13 (served half), C14       *)
(* (single write, no panic), C16 (middlewares), C17 (CORS preflight).      *)
(* This module holds the Prop-layer operators over a configuration cfg     *)
(* and a request rq; Trace_Pipeline binds recorded events to them and      *)
(* MC_Pipeline explores the step machine of the generated code.            *)
(*                                                                         *)
(* cfg = [ base : Seq(STRING), specName : STRING, cors : BOOLEAN,          *)
(*         global : Sec, schemes : Seq([key, kind, name, canon]),          *)
(*         ops  : Seq([id, m, t, ts, item, sec, hdrs]),                    *)
(*         items: Seq([t, ts, hdrs]),                                      *)
(*         api  : [mw : Nat, notFound, spec, cors : BOOLEAN, auth : Seq(STRING)] ] *)
(* rq  = [ method, kind, segs, cred : Seq([s, c]) ]                        *)
(***************************************************************************)
EXTENDS Router, Security

OpsOf(cfg)   == { cfg.ops[i] : i \in DOMAIN cfg.ops }
KindOf(cfg)  == [ k \in { cfg.schemes[i].key : i \in DOMAIN cfg.schemes } |->
                    (CHOOSE sc \in SeqSet(cfg.schemes) : sc.key = k).kind ]
SchemeByKey(cfg, k) == CHOOSE sc \in SeqSet(cfg.schemes) : sc.key = k
Installed(cfg) == SeqSet(cfg.api.auth)
ValidCreds(rq) == { rq.cred[i].s : i \in { j \in DOMAIN rq.cred : rq.cred[j].c = "valid" } }
PresentCreds(rq) == { rq.cred[i].s : i \in DOMAIN rq.cred }

\* dispatch targets all have the shape [id, m, t, ts, item, synth]
Target(o)    == [id |-> o.id, m |-> o.m, t |-> o.t, ts |-> o.ts, item |-> o.item, synth |-> FALSE]
NotFoundT    == [id |-> "#notfound", m |-> "#", t |-> << >>, ts |-> "", item |-> 0, synth |-> FALSE]
SynthCors(cfg, i) == [id |-> "#cors", m |-> "OPTIONS", t |-> cfg.items[i].t, ts |-> cfg.items[i].ts, item |-> i, synth |-> TRUE]

ItemMethods(cfg, i) == { o.m : o \in { x \in OpsOf(cfg) : x.item = i } }
RealTargets(cfg)  == { Target(o) : o \in OpsOf(cfg) }
SynthTargets(cfg) == IF cfg.cors THEN { SynthCors(cfg, i) : i \in { j \in DOMAIN cfg.items : "OPTIONS" \notin ItemMethods(cfg, j) } }
                     ELSE {}

SpecHit(cfg, rq) == cfg.api.spec /\ rq.kind = "abs" /\ rq.segs = cfg.base \o << cfg.specName >>

\* C03 + C17: the admissible dispatch outcomes of a request that is not for the spec file
Outcomes(cfg, rq) ==
    LET b     == Beneath(cfg.base, rq.kind, rq.segs)
        real  == Cands(RealTargets(cfg), rq.method, b)
        synth == Cands(SynthTargets(cfg), rq.method, b)
        all   == NonDominated(real \cup synth)
    IN \* with CORS enabled every path item without an OPTIONS operation has a preflight operation that
       \* competes like any other (C17: a declared OPTIONS operation is never shadowed, a less specific one
       \* never takes over); without a CORSHandler installed that preflight is "not found"
       IF real \cup synth = {} THEN {NotFoundT}
       ELSE IF cfg.api.cors THEN all
       ELSE { IF o.synth THEN NotFoundT ELSE o : o \in all }

OpById(cfg, id) == CHOOSE o \in OpsOf(cfg) : o.id = id
EffOf(cfg, o)   == Effective(cfg.global, o.sec)

\* C17: what the CORS factory must be given for path item i (as sets)
BearerListed(cfg, o) == \E k \in DOMAIN EffOf(cfg, o) : \E s \in SeqSet(EffOf(cfg, o)[k]) : KindOf(cfg)[s] = "bearer"
KeyHeaders(cfg, o)   == { SchemeByKey(cfg, s).canon : s \in { x \in UNION { SeqSet(EffOf(cfg, o)[k]) : k \in DOMAIN EffOf(cfg, o) } : KindOf(cfg)[x] = "apiKeyHeader" } }
CorsMethods(cfg, i)  == ItemMethods(cfg, i)
CorsHeaders(cfg, i)  ==
    LET os == { o \in OpsOf(cfg) : o.item = i } IN
        SeqSet(cfg.items[i].hdrs)
        \cup UNION { SeqSet(o.hdrs) : o \in os }
        \cup (IF \E o \in os : BearerListed(cfg, o) THEN {"Authorization"} ELSE {})
        \cup UNION { KeyHeaders(cfg, o) : o \in os }
NoDup(s) == Cardinality(SeqSet(s)) = Len(s)
=============================================================================
