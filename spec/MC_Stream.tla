------------------------------ MODULE MC_Stream ------------------------------
(***************************************************************************)
(* Design check of Stream.tla and emission of the source behaviours.       *)
(***************************************************************************)
EXTENDS Stream, TLC, Json

CONSTANT Emit     \* TRUE: print every complete behaviour of the source as one JSON line

EmitDone == Emit /\ cst = "done" /\ ~closed => PrintT(ToJson([reads |-> hist]))
=============================================================================
