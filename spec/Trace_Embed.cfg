SPECIFICATION Spec
