SPECIFICATION Spec
CONSTANTS
  Req = {1, 2}
  SharedScratch = TRUE
  AppendInPlace = FALSE
INVARIANT Isolated
