SPECIFICATION Spec
CONSTANTS
  FixedWriter = FALSE
  Emit = FALSE
  Explore = TRUE
INVARIANT WriterCorrect
