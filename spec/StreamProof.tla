---------------------------- MODULE StreamProof ----------------------------
(***************************************************************************)
(* Complete and Conserved of Stream.tla for bodies of ANY length, proved   *)
(* with TLAPS (the TLC runs bound L by 4 / 7): a consumer that reads until *)
(* the end is announced holds the whole body when it is done, whatever the *)
(* source answered.                                                        *)
(***************************************************************************)
EXTENDS Stream, TLAPS

ASSUME Consts == L \in Nat /\ MaxZero \in Nat /\ Policy = "readAll"

Inv == /\ pos \in Nat /\ got \in Nat /\ pos <= L
       /\ ended \in BOOLEAN
       /\ got = pos
       /\ (ended => pos = L)
       /\ (cst = "done" => ended)

LEMMA InitInv == Init => Inv
  BY Consts DEF Init, Inv

LEMMA StepInv == Inv /\ [Next]_vars => Inv'
<1> SUFFICES ASSUME Inv, [Next]_vars PROVE Inv'
  OBVIOUS
<1>1. CASE Start
  BY <1>1, Consts DEF Start, Inv
<1>2. CASE \E n \in 0..L, e \in BOOLEAN : Answer(n, e)
  <2> PICK n \in 0..L, e \in BOOLEAN : Answer(n, e)
    BY <1>2
  <2> QED
    BY Consts DEF Answer, Inv, Cap
<1>3. CASE ReadClosed
  BY <1>3 DEF ReadClosed, Inv
<1>4. CASE Finish
  BY <1>4 DEF Finish, Inv
<1>5. CASE UNCHANGED vars
  BY <1>5 DEF vars, Inv
<1> QED
  BY <1>1, <1>2, <1>3, <1>4, <1>5 DEF Next

THEOREM Safety == Spec => [](Complete /\ Conserved)
<1>1. Inv => Complete /\ Conserved
  BY DEF Inv, Complete, Conserved
<1> QED
  BY InitInv, StepInv, <1>1, PTL DEF Spec
=============================================================================
