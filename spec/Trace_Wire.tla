------------------------------ MODULE Trace_Wire ------------------------------
(***************************************************************************)
(* Judge for calls through the generated client (C09, C10, C02 write half).*)
(*   Config {base, ops}                                                    *)
(*   Call   {case, op, sent, inject}       a request value is sent         *)
(*   Wire   {method, kind, segs, sup, undeclared, body, hasBody}           *)
(*   Parse  {ok, params}                   what the handler parsed         *)
(*   Respond{type, value, status}          what the handler returned       *)
(*   ServerDone {status, writes, ctype, hdrNames, hdrVals, body, bodyEmpty} *)
(*   Return {ok, type, value, isDefault, code, panic}  what the caller got *)
(***************************************************************************)
EXTENDS Wire, TLC, Json

VARIABLES l, cfg, cur, call, wireOK, parsed, responded, served, stats, bad
tvars == <<l, cfg, cur, call, wireOK, parsed, responded, served, stats, bad>>
Trace == ndJsonDeserialize("trace.ndjson")
Ev    == Trace[l]
Is(e) == l <= Len(Trace) /\ Ev.ev = e

None == [has |-> FALSE]
\* bad.req: a request half (Wire / Parse) of the current call was rejected; bad.nullBody: its wire body was `null`
NotBad == [req |-> FALSE, nullBody |-> FALSE]
Init == /\ l = 1 /\ cfg = [base |-> << >>, ops |-> << >>] /\ cur = "" /\ call = None /\ wireOK = FALSE /\ parsed = None
        /\ responded = None /\ served = None /\ stats = [accepted |-> 0, nontrivial |-> 0, rejected |-> 0] /\ bad = NotBad

Config == /\ Is("Config") /\ cfg' = [base |-> Ev.base, ops |-> Ev.ops]
          /\ l' = l + 1 /\ UNCHANGED <<cur, call, wireOK, parsed, responded, served, stats, bad>>
OpOf(id) == CHOOSE o \in SeqToSet(cfg.ops) : o.id = id
SupF(sq) == [ k \in { sq[i].key : i \in DOMAIN sq } |-> (CHOOSE e \in SeqToSet(sq) : e.key = k).lex ]

Call == /\ Is("Call") /\ \E o \in SeqToSet(cfg.ops) : o.id = Ev.op
        /\ cur' = Ev.case /\ call' = [has |-> TRUE, op |-> Ev.op, sent |-> Ev.sent, inject |-> Ev.inject]
        /\ wireOK' = FALSE /\ parsed' = None /\ responded' = None /\ served' = None /\ bad' = NotBad
        /\ l' = l + 1 /\ UNCHANGED <<cfg, stats>>

\* C09 second half: the request on the wire is valid for the operation
WireEv == /\ Is("Wire") /\ call.has
          /\ WireValid(cfg.base, OpOf(call.op), Ev, SupF(Ev.sup))
          /\ wireOK' = TRUE
          /\ l' = l + 1 /\ UNCHANGED <<cfg, cur, call, parsed, responded, served, stats, bad>>

\* C09 first half: the handler parses exactly what was sent
\* (each event is judged on its own: a rejected event does not hide the later events of the same call)
ParseEv == /\ Is("Parse") /\ call.has
           /\ Ev.ok /\ VEq(call.sent, Ev.params)
           /\ parsed' = [has |-> TRUE]
           /\ l' = l + 1 /\ UNCHANGED <<cfg, cur, call, wireOK, responded, served, stats, bad>>

RespondEv == /\ Is("Respond") /\ call.has
             /\ responded' = [has |-> TRUE, type |-> Ev.type, value |-> Ev.value]
             /\ l' = l + 1 /\ UNCHANGED <<cfg, cur, call, wireOK, parsed, served, stats, bad>>

\* C02 write half: the status is a documented one (the caller's code for default) and the response is written as documented
ServerDone == /\ Is("ServerDone") /\ call.has /\ responded.has
              /\ LET op == OpOf(call.op)
                     st == IF Ev.isDefault THEN "default" ELSE Ev.statusText IN
                   /\ st \in Documented(op)
                   /\ (Ev.isDefault => Ev.status = Ev.code)
                   /\ WriteOK(RespOf(op, st), responded.value, Ev)
              /\ served' = [has |-> TRUE, status |-> Ev.statusText]
              /\ l' = l + 1 /\ UNCHANGED <<cfg, cur, call, wireOK, parsed, responded, stats, bad>>

\* C10: the caller receives the response the handler produced / the right kind for an undocumented status
Return == /\ Is("Return") /\ call.has /\ Ev.panic = ""
          /\ IF call.inject = 0
             THEN /\ responded.has
                  /\ Ev.ok /\ Ev.type = responded.type /\ VEq(responded.value, Ev.value)
             ELSE LET want == ClientOutcome(OpOf(call.op), Ev.injectText) IN
                  CASE want = "error"   -> ~Ev.ok
                    [] want = "default" -> Ev.ok /\ Ev.isDefault /\ Ev.code = call.inject
                    [] OTHER            -> Ev.ok /\ ~Ev.isDefault
          /\ stats' = [stats EXCEPT !.accepted = @ + 1, !.nontrivial = @ + 1]
          /\ call' = None
          /\ l' = l + 1 /\ UNCHANGED <<cfg, cur, wireOK, parsed, responded, served, bad>>
\* after a rejected request half (Wire / Parse) the handler may never have answered: what the server wrote then and
\* what the caller got is the consequence of that rejection, not a separate judgement
Drain == /\ l <= Len(Trace) /\ Ev.ev \in {"ServerDone", "Return"} /\ call.has /\ bad.req /\ ~responded.has
         /\ (Ev.ev = "Return" => call.inject = 0)          \* (an injected status is judged by Return whatever came before)
         /\ call' = IF Ev.ev = "Return" THEN None ELSE call
         /\ l' = l + 1 /\ UNCHANGED <<cfg, cur, wireOK, parsed, responded, served, stats, bad>>

Step == Config \/ Call \/ WireEv \/ ParseEv \/ RespondEv \/ ServerDone \/ Return \/ Drain

RECURSIVE NextBoundary(_)
NextBoundary(k) == IF k > Len(Trace) THEN k ELSE IF Trace[k].ev \in {"Call", "Config"} THEN k ELSE NextBoundary(k + 1)

\* known finding: a component request body whose schema is an inline object has no JSON methods (Go's default encoding on the wire)
\* known findings: a nil Go slice as top-level (inline) array body is written as `null` by the client / by writeJSON
KF == IF call.has /\ OpOf(call.op).bodyVia = "componentInlineObject" /\ Ev.ev \in {"Wire", "Parse"} THEN "c09-component-body-inline-object"
      ELSE IF call.has /\ Ev.ev = "Wire" /\ OpOf(call.op).body.k = "json" /\ OpOf(call.op).body.s.k = "array" /\ Ev.body.t = "null" THEN "c09-nil-array-body-null"
      ELSE IF call.has /\ Ev.ev = "Parse" /\ bad.nullBody /\ OpOf(call.op).body.k = "json" /\ OpOf(call.op).body.s.k = "array" THEN "c09-nil-array-body-null"
      ELSE IF call.has /\ Ev.ev = "ServerDone" /\ Ev.body.t = "null"
              /\ \E i \in DOMAIN OpOf(call.op).resps : OpOf(call.op).resps[i].body.k = "json" /\ OpOf(call.op).resps[i].body.s.k = "array" THEN "c02-nil-array-body-null"
      ELSE ""

InCall == call.has /\ Ev.ev \in {"Wire", "Parse", "Respond", "ServerDone", "Return", "ServerPanic"}
Skip == /\ l <= Len(Trace) /\ ~ENABLED Step
        /\ PrintT(ToJson([verdict |-> "REJECT", case |-> cur, at |-> l, event |-> [ev |-> Ev.ev], kf |-> KF,
                          why |-> [at |-> Ev.ev, wireOK |-> wireOK, parsed |-> parsed.has, responded |-> responded.has, served |-> served.has]]))
        /\ stats' = [stats EXCEPT !.rejected = @ + 1]
        /\ IF InCall THEN /\ l' = l + 1
                          /\ call' = IF Ev.ev = "Return" THEN None ELSE call
                          /\ bad' = [req |-> bad.req \/ Ev.ev \in {"Wire", "Parse"},
                                      nullBody |-> bad.nullBody \/ (Ev.ev = "Wire" /\ Ev.body.t = "null")]
                     ELSE /\ l' = NextBoundary(l + 1) /\ call' = None /\ bad' = bad
        /\ UNCHANGED <<cfg, cur, wireOK, parsed, responded, served>>

Finish == /\ l = Len(Trace) + 1
          /\ PrintT(ToJson([verdict |-> "END", at |-> l, accepted |-> stats.accepted, nontrivial |-> stats.nontrivial, rejected |-> stats.rejected]))
          /\ l' = l + 1 /\ UNCHANGED <<cfg, cur, call, wireOK, parsed, responded, served, stats, bad>>
Next == Step \/ Skip \/ Finish
Spec == Init /\ [][Next]_tvars
=============================================================================
