------------------------------- MODULE Stream -------------------------------
(***************************************************************************)
(* A body that arrives over a connection, and the code that consumes it.   *)
(*                                                                         *)
(* The source follows the io.Reader contract and nothing more: a Read      *)
(* with room for cap units hands over 0 <= n <= min(cap, what is left)     *)
(* units; the end is announced together with the last units or by a later  *)
(* Read that hands over nothing; a Read that hands over nothing without    *)
(* announcing the end is allowed (bounded here by MaxZero in a row); after *)
(* Close every Read fails.  Which of these happens is the environment's    *)
(* choice (segment sizes, buffering, chunked encoding), never the          *)
(* consumer's.                                                             *)
(*                                                                         *)
(* Prop: a consumer that finishes has received the whole body, whatever    *)
(* the source did (Complete), it never reads a closed body (NoUseAfter-    *)
(* Close), and it finishes (Terminates, under weak fairness).              *)
(*                                                                         *)
(* Impl (policies): "readAll" is what the generated code does (a JSON      *)
(* decoder / io.ReadAll / io.Copy loop: read until the end is announced);  *)
(* "single" (one Read into a buffer of the announced size) and             *)
(* "closeFirst" / "cancelFirst" (a deferred Close, or a deferred cancel of  *)
(* the request's context - which governs the reading of the response body  *)
(* as well -, that runs before the body is handed on) are the mistakes the *)
(* property excludes: MC_Stream_single / _closeFirst / _cancelFirst must   *)
(* violate.                                                                *)
(*                                                                         *)
(* Every complete behaviour of the source (the sequence of (n, end)        *)
(* answers) is printed by MC_Stream_emit and replayed, scaled to the       *)
(* length of real bodies, into the generated servers and clients: the      *)
(* outcome of parsing a request or a response must not depend on it.       *)
(***************************************************************************)
EXTENDS Naturals, Sequences

CONSTANTS L,        \* length of the body in units
          Policy,   \* "readAll" | "single" | "closeFirst" | "cancelFirst"
          MaxZero   \* how many Reads in a row may hand over nothing without announcing the end

VARIABLES pos,      \* units the source has handed over
          ended,    \* the source has announced the end
          closed,   \* the consumer closed the body, or cancelled the context of the request it belongs to
          zeros,    \* empty Reads in a row
          hist,     \* the source's answers so far: << [n, end] >>
          got,      \* units the consumer holds
          cst       \* "open" | "reading" | "done" | "failed"
vars == <<pos, ended, closed, zeros, hist, got, cst>>

Init == pos = 0 /\ ended = FALSE /\ closed = FALSE /\ zeros = 0 /\ hist = << >> /\ got = 0 /\ cst = "open"

\* ---- consumer steps that are not Reads ----
Start == /\ cst = "open"
         /\ IF Policy \in {"closeFirst", "cancelFirst"} THEN closed' = TRUE ELSE closed' = closed
         /\ cst' = "reading"
         /\ UNCHANGED <<pos, ended, zeros, hist, got>>

\* the room the consumer offers: the announced length for "single", unbounded otherwise
Cap == IF Policy = "single" THEN L ELSE L + 1

\* ---- one Read: the source chooses n and whether it announces the end ----
Answer(n, e) ==
    /\ cst = "reading" /\ ~closed
    /\ n <= Cap /\ pos + n <= L
    /\ e => pos + n = L                         \* the end is announced only with or after the last unit
    /\ ended => (n = 0 /\ e)                    \* after the end: nothing, end again
    /\ (n = 0 /\ ~e) => zeros < MaxZero
    /\ pos' = pos + n /\ ended' = (ended \/ e)
    /\ zeros' = IF n = 0 /\ ~e THEN zeros + 1 ELSE 0
    /\ hist' = Append(hist, [n |-> n, end |-> e])
    /\ got' = got + n
    /\ cst' = CASE Policy = "single" -> "done"
                [] e                 -> "done"
                [] OTHER             -> "reading"
    /\ UNCHANGED closed

ReadClosed == /\ cst = "reading" /\ closed
              /\ cst' = "failed"
              /\ UNCHANGED <<pos, ended, closed, zeros, hist, got>>

Finish == /\ cst = "done" /\ ~closed
          /\ closed' = TRUE
          /\ UNCHANGED <<pos, ended, zeros, hist, got, cst>>

Next == Start \/ (\E n \in 0..L, e \in BOOLEAN : Answer(n, e)) \/ ReadClosed \/ Finish
Spec == Init /\ [][Next]_vars
FairSpec == Spec /\ WF_vars(Next)

TypeOK == /\ pos \in 0..L /\ got \in 0..L /\ zeros \in 0..MaxZero
          /\ cst \in {"open", "reading", "done", "failed"}
Complete == cst = "done" => got = L
NoUseAfterClose == cst # "failed"
Terminates == <>(cst = "done")
\* the consumer holds exactly what the source handed over (no unit twice, none dropped on the way)
Conserved == got = pos
=============================================================================
