SPECIFICATION Spec
CONSTANT EscapePath = TRUE
