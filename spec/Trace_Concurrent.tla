--------------------------- MODULE Trace_Concurrent ---------------------------
(***************************************************************************)
(* Judge for C20: the interleaved event log of many concurrent calls       *)
(* (events carry their request's case id and were appended under one       *)
(* mutex, so the log order is a linearization of the observation points).  *)
(* The log must be a behaviour of Concurrent: every event is a step of its *)
(* own request's machine and tags never cross.                             *)
(*   Cases {ids}                       all requests of the round           *)
(*   Call {case, sent, tmpl, sec, tag} | MwEnter {case, i} |               *)
(*   Auth {case, s, tok, ok} | Handler {case, tmpl, tag} |                 *)
(*   Parse {case, ok, params} | Respond {case, type, value} |              *)
(*   MwLeave {case, i} | Return {case, ok, type, value, panic}             *)
(*   Raw {case, status, want, bodyOK}  a request matching no operation     *)
(*   Race {reports}                    what the race detector printed      *)
(***************************************************************************)
EXTENDS Codec, TLC, Json

VARIABLES l, st, stats
tvars == <<l, st, stats>>
Trace == ndJsonDeserialize("trace.ndjson")
Ev    == Trace[l]
Is(e) == l <= Len(Trace) /\ Ev.ev = e

NoV  == [t |-> "leaf", s |-> "-"]
Idle == [pc |-> "idle", sent |-> NoV, resp |-> NoV, rtype |-> "", entered |-> 0, left |-> 0, tmpl |-> "", sec |-> "", tag |-> "", authed |-> FALSE]
Init == l = 1 /\ st = << >> /\ stats = [accepted |-> 0, nontrivial |-> 0, rejected |-> 0]

Cases == /\ Is("Cases") /\ st' = [c \in SeqToSet(Ev.ids) |-> Idle]
         /\ l' = l + 1 /\ UNCHANGED stats
Mine  == Ev.case \in DOMAIN st
S     == st[Ev.case]

Call == /\ Is("Call") /\ Mine /\ S.pc = "idle"
        /\ st' = [st EXCEPT ![Ev.case] = [S EXCEPT !.pc = "called", !.sent = Ev.sent, !.tmpl = Ev.tmpl, !.sec = Ev.sec, !.tag = Ev.tag]]
        /\ l' = l + 1 /\ UNCHANGED stats
\* the template visible to middlewares and handler is the one of this request's operation
MwEnter == /\ Is("MwEnter") /\ Mine /\ S.pc = "called" /\ Ev.i = S.entered + 1 /\ Ev.tmpl = S.tmpl
           /\ st' = [st EXCEPT ![Ev.case].entered = Ev.i]
           /\ l' = l + 1 /\ UNCHANGED stats
\* isolation: the security check a request passes is the one its own operation requires, with its own credential
Auth == /\ Is("Auth") /\ Mine /\ S.pc = "called" /\ ~S.authed /\ S.sec # ""
        /\ Ev.s = S.sec /\ Ev.ok /\ (Ev.s \o "|" \o Ev.tok) = S.tag
        /\ st' = [st EXCEPT ![Ev.case].authed = TRUE]
        /\ l' = l + 1 /\ UNCHANGED stats
Handler == /\ Is("Handler") /\ Mine /\ S.pc = "called" /\ Ev.tmpl = S.tmpl
           /\ Ev.tag = S.tag /\ S.authed = (S.sec # "")
           /\ st' = [st EXCEPT ![Ev.case].pc = "handler"]
           /\ l' = l + 1 /\ UNCHANGED stats
\* isolation: the handler of request c parses exactly what request c sent
Parse == /\ Is("Parse") /\ Mine /\ S.pc = "handler"
         /\ Ev.ok /\ VEq(S.sent, Ev.params)
         /\ st' = [st EXCEPT ![Ev.case].pc = "parsed"]
         /\ l' = l + 1 /\ UNCHANGED stats
Respond == /\ Is("Respond") /\ Mine /\ S.pc = "parsed"
           /\ st' = [st EXCEPT ![Ev.case] = [S EXCEPT !.pc = "responded", !.resp = Ev.value, !.rtype = Ev.type]]
           /\ l' = l + 1 /\ UNCHANGED stats
MwLeave == /\ Is("MwLeave") /\ Mine /\ S.pc = "responded" /\ Ev.i = S.entered - S.left
           /\ st' = [st EXCEPT ![Ev.case].left = S.left + 1]
           /\ l' = l + 1 /\ UNCHANGED stats
\* isolation: the caller of request c receives the response produced for request c
Return == /\ Is("Return") /\ Mine /\ S.pc = "responded" /\ S.left = S.entered
          /\ Ev.panic = "" /\ Ev.ok /\ Ev.type = S.rtype /\ VEq(S.resp, Ev.value)
          /\ st' = [st EXCEPT ![Ev.case].pc = "done"]
          /\ stats' = [stats EXCEPT !.accepted = @ + 1, !.nontrivial = @ + 1]
          /\ l' = l + 1
\* a request that matches no operation (unrouted path, spec-file route) handed to ServeHTTP next to the client calls:
\* it is answered on its own - not found / the spec file - whatever else is in flight
Raw == /\ Is("Raw") /\ Mine /\ S.pc = "idle"
       /\ Ev.panic = "" /\ Ev.status = Ev.want /\ Ev.bodyOK
       /\ st' = [st EXCEPT ![Ev.case].pc = "done"]
       /\ stats' = [stats EXCEPT !.accepted = @ + 1]
       /\ l' = l + 1
Race == /\ Is("Race") /\ Ev.reports = 0
        /\ stats' = [stats EXCEPT !.accepted = @ + 1]
        /\ l' = l + 1 /\ UNCHANGED st
Step == Cases \/ Raw \/ Call \/ MwEnter \/ Auth \/ Handler \/ Parse \/ Respond \/ MwLeave \/ Return \/ Race

\* an unexplained event poisons only its own request; the rest of the log is still judged
Skip == /\ l <= Len(Trace) /\ ~ENABLED Step
        /\ PrintT(ToJson([verdict |-> "REJECT", case |-> Ev.case, at |-> l, event |-> [ev |-> Ev.ev], kf |-> "",
                          why |-> [pc |-> IF Ev.case \in DOMAIN st THEN st[Ev.case].pc ELSE "unknown case"]]))
        /\ stats' = [stats EXCEPT !.rejected = @ + 1]
        /\ st' = IF Ev.case \in DOMAIN st THEN [st EXCEPT ![Ev.case].pc = "poisoned"] ELSE st
        /\ l' = l + 1
Finish == /\ l = Len(Trace) + 1
          /\ PrintT(ToJson([verdict |-> "END", at |-> l, accepted |-> stats.accepted, nontrivial |-> stats.nontrivial, rejected |-> stats.rejected]))
          /\ l' = l + 1 /\ UNCHANGED <<st, stats>>
Next == Step \/ Skip \/ Finish
Spec == Init /\ [][Next]_tvars
=============================================================================
