SPECIFICATION Spec
CONSTANTS
  Req = {1, 2}
  SharedScratch = FALSE
  AppendInPlace = TRUE
INVARIANT Isolated
