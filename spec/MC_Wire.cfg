SPECIFICATION Spec
INVARIANT DispatchCorrect
