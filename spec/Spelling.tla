------------------------------ MODULE Spelling ------------------------------
(***************************************************************************)
(* The lexical layer of JSON strings: one value, many spellings.           *)
(*                                                                         *)
(* A string value is a sequence of characters.  A JSON text spells every   *)
(* character as itself (where JSON allows that), as \uXXXX, or - for the   *)
(* few characters that have one - by its short escape (\" \\ \/ \n ...);   *)
(* between the tokens of a document any white space may stand.  Which      *)
(* spelling a producer picks is its own business (Go's encoding/json,      *)
(* .NET's System.Text.Json, a hand-written client all differ).             *)
(*                                                                         *)
(* Prop: a reader sees the value, not the spelling - Read(Spell(v, c)) = v *)
(* for every choice c (SpellingFree).                                      *)
(* Impl (Reader): "unescape" is encoding/json's string reader;             *)
(* "between-quotes" takes the bytes between the quotes as the value (what  *)
(* time.Time.UnmarshalJSON does, open finding c08-escaped-time-in-         *)
(* collection, and what a "no need to unescape a formatted time" shortcut  *)
(* does) - MC_Spelling_raw must violate.                                   *)
(*                                                                         *)
(* The choices (one per character, taken in turn along the document) and   *)
(* the white-space choices are emitted by MC_Spelling_emit as plans; the   *)
(* harness respells valid documents by every plan (respellJSON) and the    *)
(* decoders of the generated code must not notice.                         *)
(***************************************************************************)
EXTENDS Naturals, Sequences

CONSTANTS Reader       \* "unescape" | "between-quotes"

\* character classes: plain (may stand raw), quote-like (must be escaped, has a short escape), slash (may stand raw,
\* has a short escape), control (must be escaped, \uXXXX or short), wide (beyond the BMP: a surrogate pair when escaped)
Chars == {"p", "q", "s", "c", "w"}
Ways  == {"raw", "u", "short"}
Allowed(ch, w) == CASE ch = "p" -> w \in {"raw", "u"}
                    [] ch = "q" -> w \in {"u", "short"}
                    [] ch = "s" -> w \in {"raw", "u", "short"}
                    [] ch = "c" -> w \in {"u", "short"}
                    [] ch = "w" -> w \in {"raw", "u"}
\* the way actually used when the plan asks for one the character does not have: the nearest allowed one
Use(ch, w) == IF Allowed(ch, w) THEN w ELSE IF Allowed(ch, "u") /\ w = "short" THEN "u" ELSE IF ch \in {"q", "c"} THEN "u" ELSE "raw"

\* a spelled unit: [ch, way]; the text of a string is the sequence of its units
Spell(v, plan) == [k \in DOMAIN v |-> [ch |-> v[k], way |-> Use(v[k], plan[((k - 1) % Len(plan)) + 1])]]

\* what a reader makes of one unit: the character, or - taking the bytes as they stand - something else whenever the
\* unit is an escape
ReadUnit(u) == IF Reader = "unescape" \/ u.way = "raw" THEN u.ch ELSE "?"
Read(text) == [k \in DOMAIN text |-> ReadUnit(text[k])]

VARIABLES v, plan, st
vars == <<v, plan, st>>
=============================================================================
