----------------------------- MODULE Trace_Answer -----------------------------
(***************************************************************************)
(* Judge for C14: whatever the request, serving it through the generated   *)
(* API and parsing it inside the handler never panics and exactly one      *)
(* response is written (Pipeline: NoPanic, SingleWrite).                   *)
(*   Serve {case, panic, writes, parsePanic, handlerRan, status}           *)
(*         one structured near-miss request                                *)
(*   Fuzz  {case, n, panics, badWrites, parsePanics}                       *)
(*         a batch of n seeded byte-level random requests, summarised by   *)
(*         the driver (first offenders kept in the replay file)            *)
(***************************************************************************)
EXTENDS TLC, Json, Sequences, Naturals
VARIABLES l, stats
tvars == <<l, stats>>
Trace == ndJsonDeserialize("trace.ndjson")
Ev    == Trace[l]
Init == l = 1 /\ stats = [accepted |-> 0, nontrivial |-> 0, rejected |-> 0]
NoPanic(e)     == e.panic = "" /\ e.parsePanic = ""
SingleWrite(e) == e.writes = 1
Serve == /\ l <= Len(Trace) /\ Ev.ev = "Serve"
         /\ NoPanic(Ev) /\ SingleWrite(Ev)
         /\ stats' = [stats EXCEPT !.accepted = @ + 1, !.nontrivial = @ + (IF Ev.handlerRan THEN 1 ELSE 0)]
         /\ l' = l + 1
Fuzz == /\ l <= Len(Trace) /\ Ev.ev = "Fuzz"
        /\ Ev.panics = 0 /\ Ev.badWrites = 0 /\ Ev.parsePanics = 0
        /\ stats' = [stats EXCEPT !.accepted = @ + 1, !.nontrivial = @ + (IF Ev.handlerRuns > 0 THEN 1 ELSE 0)]
        /\ l' = l + 1
Step == Serve \/ Fuzz
Skip == /\ l <= Len(Trace) /\ ~ENABLED Step
        /\ PrintT(ToJson([verdict |-> "REJECT", case |-> Ev.case, at |-> l, event |-> [ev |-> Ev.ev], kf |-> ""]))
        /\ stats' = [stats EXCEPT !.rejected = @ + 1] /\ l' = l + 1
Finish == /\ l = Len(Trace) + 1
          /\ PrintT(ToJson([verdict |-> "END", at |-> l, accepted |-> stats.accepted, nontrivial |-> stats.nontrivial, rejected |-> stats.rejected]))
          /\ l' = l + 1 /\ UNCHANGED stats
Next == Step \/ Skip \/ Finish
Spec == Init /\ [][Next]_tvars
=============================================================================
