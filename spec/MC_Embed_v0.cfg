SPECIFICATION Spec
CONSTANTS
  MaxLen = 3
  Alphabet = {"bt", "dq", "bs", "lf", "cr", "dl", "n", "z", "nul", "bad8", "bom"}
  Version = "v0"
  Emit = FALSE
INVARIANT EmbedFaithful
