------------------------------- MODULE Batch -------------------------------
(***************************************************************************)
(* `goag --dir D` (goag.go GenerateDir): one process generates every       *)
(* sub-directory of D in name order, each from its own spec and its own    *)
(* .goag.yaml, and stops at the first one that fails.                      *)
(*                                                                         *)
(* Prop (C12 for a process that serves several invocations, C15 for the    *)
(* batch): what is written for an item is what a lone invocation of that   *)
(* item writes - nothing an earlier item asked for sticks to the process   *)
(* (Independent); the batch fails iff some item fails, with an error that  *)
(* names the first failing item (FailsAtFirst); the items before it are    *)
(* complete, the items after it untouched (PrefixDone).                    *)
(*                                                                         *)
(* Impl: the loop of GenerateDir, one item per step.  Sticky = TRUE models *)
(* options that are kept in process-wide state and only ever switched on   *)
(* (a seeded change did exactly that with the CORS switch) -               *)
(* MC_Batch_sticky must violate Independent.                               *)
(***************************************************************************)
EXTENDS BatchProp

CONSTANTS Sticky          \* TRUE: an option switched on by an item stays on for the items after it

VARIABLES items,      \* the sub-directories in name order
          i,          \* next item
          written,    \* what the batch left in each item's output directory
          corsOn,     \* process state (Sticky only)
          res         \* [st : "running" | "ok" | "error", err : index of the item the error names (0: none)]
vars == <<items, i, written, corsOn, res>>

Start(its) == /\ i = 0
              /\ items' = its /\ i' = 1 /\ written' = [k \in DOMAIN its |-> "none"] /\ corsOn' = FALSE /\ res' = R("running", 0)
Item == /\ res.st = "running" /\ i >= 1 /\ i <= Len(items)
        /\ IF Fails(items[i])
           THEN /\ res' = R("error", i) /\ UNCHANGED <<written, corsOn, i>>
           ELSE /\ LET cors == items[i].kind = "cors" \/ (Sticky /\ corsOn)
                   IN written' = [written EXCEPT ![i] = IF cors THEN "out:cors" ELSE "out:plain"]
                /\ corsOn' = (corsOn \/ items[i].kind = "cors")
                /\ i' = i + 1 /\ UNCHANGED res
        /\ UNCHANGED items
Finish == /\ res.st = "running" /\ i > Len(items) /\ i >= 1
          /\ res' = R("ok", 0) /\ UNCHANGED <<items, i, written, corsOn>>

Done == res.st # "running" /\ i >= 1
Independent  == Done => IndependentP(items, written)
FailsAtFirst == Done => FailsAtFirstP(items, res)
PrefixDone   == Done => PrefixDoneP(items, written)
=============================================================================
