SPECIFICATION Spec
INVARIANT SemPreserved
