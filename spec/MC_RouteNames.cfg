SPECIFICATION Spec
CONSTANTS
  Numbering = TRUE
  Emit = FALSE
INVARIANT Distinct
INVARIANT Stable
CHECK_DEADLOCK FALSE
