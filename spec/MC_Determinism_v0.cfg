SPECIFICATION Spec
CONSTANTS
  Keys = {1, 2, 3}
  Version = "v0"
INVARIANT ScheduleIndependent
