SPECIFICATION Spec
