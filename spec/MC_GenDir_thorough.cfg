SPECIFICATION Spec
CONSTANTS
  MaxRuns = 3
  SpecSet = {"s0", "s1", "s2", "sP", "sH"}
  MaxTouch = 1
  UserFiles = {"notes.txt", "zz_user.go"}
  DneSet = {TRUE}
  GuardedRemove = FALSE
INVARIANT DirMatchesLast
PROPERTY UserUntouched
PROPERTY Idempotent
