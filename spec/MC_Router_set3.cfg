SPECIFICATION Spec
CONSTANTS
  Lits = {"a"}
  D = 4
  R = 5
  ReqAlpha = {"a", "z", ""}
  MaxSet = 3
  Guard = TRUE
  Emit = FALSE
INVARIANT RouterCorrect
