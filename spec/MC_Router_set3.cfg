SPECIFICATION Spec
CONSTANTS
  Lits = {"a"}
  D = 3
  R = 4
  ReqAlpha = {"a", "z", ""}
  MaxSet = 3
  Guard = TRUE
  Emit = FALSE
INVARIANT RouterCorrect
