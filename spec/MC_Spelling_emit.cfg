SPECIFICATION Spec
CONSTANTS
  Reader = "unescape"
  MaxLen = 0
  Emit = TRUE
CHECK_DEADLOCK FALSE
