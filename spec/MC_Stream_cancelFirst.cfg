SPECIFICATION FairSpec
CONSTANTS
  L = 4
  Policy = "cancelFirst"
  MaxZero = 1
  Emit = FALSE
INVARIANT TypeOK
INVARIANT Complete
INVARIANT NoUseAfterClose
INVARIANT Conserved
PROPERTY Terminates
CHECK_DEADLOCK FALSE
