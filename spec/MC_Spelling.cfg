SPECIFICATION Spec
CONSTANTS
  Reader = "unescape"
  MaxLen = 4
  Emit = FALSE
INVARIANT SpellingFree
INVARIANT WellFormed
CHECK_DEADLOCK FALSE
