SPECIFICATION Spec
CONSTANTS
  FixedWriter = TRUE
  Emit = TRUE
  Explore = FALSE
INVARIANT WriterCorrect
