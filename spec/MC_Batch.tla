------------------------------ MODULE MC_Batch ------------------------------
(* every batch of up to MaxItems items over the four kinds; Emit prints them for replay with the real GenerateDir *)
EXTENDS Batch, TLC, Json
CONSTANTS MaxItems, Emit
Kinds == {"plain", "cors", "fail", "nospec"}
It(k) == [kind |-> k]
Batches == { <<It(a)>> : a \in Kinds } \cup { <<It(a), It(b)>> : a \in Kinds, b \in Kinds }
           \cup (IF MaxItems >= 3 THEN { <<It(a), It(b), It(c)>> : a \in Kinds, b \in Kinds, c \in Kinds } ELSE {})
Init == items = << >> /\ i = 0 /\ written = << >> /\ corsOn = FALSE /\ res = R("running", 0)
EmitBatch(b) == Emit /\ i = 0 /\ PrintT(ToJson([batch |-> b])) /\ UNCHANGED vars
Next == (\E b \in Batches : ~Emit /\ Start(b)) \/ (~Emit /\ Item) \/ (~Emit /\ Finish) \/ (\E b \in Batches : EmitBatch(b))
Spec == Init /\ [][Next]_vars
=============================================================================
