----------------------------- MODULE Trace_GenDir -----------------------------
(***************************************************************************)
(* Judge for directories recorded from the real goag.Generator (C19).      *)
(* Events (one JSON object per line of trace.ndjson):                      *)
(*   Config {invs: <<[ok, fresh : [file -> token]]>>, files: <<names>>}    *)
(*          fresh = what a single run of that invocation into an empty     *)
(*          directory produced (measured on the real generator)            *)
(*   Reset  {case, dir}          a new history starts in directory dir     *)
(*   Touch  {f, tok}             the user edits / deletes a file           *)
(*   Run    {inv, ok, dir, extra} the generator ran invocation inv         *)
(* Every Run must be explained by the Prop layer of GenDir.                *)
(***************************************************************************)
EXTENDS GenDir, TLC, Json

VARIABLES l, cfg, dir, cur, open, nt, stats
tvars == <<l, cfg, dir, cur, open, nt, stats>>

Trace == ndJsonDeserialize("trace.ndjson")
Ev    == Trace[l]
Is(e) == l <= Len(Trace) /\ Ev.ev = e

Files == { cfg.files[k] : k \in DOMAIN cfg.files }
Close(s) == [s EXCEPT !.accepted = @ + (IF open THEN 1 ELSE 0), !.nontrivial = @ + (IF open /\ nt THEN 1 ELSE 0)]

Init == /\ l = 1 /\ cfg = [invs |-> << >>, files |-> << >>] /\ dir = << >> /\ cur = "" /\ open = FALSE /\ nt = FALSE
        /\ stats = [accepted |-> 0, nontrivial |-> 0, rejected |-> 0]

Config == /\ Is("Config")
          /\ cfg' = [invs |-> Ev.invs, files |-> Ev.files]
          /\ stats' = Close(stats) /\ open' = FALSE /\ nt' = FALSE
          /\ l' = l + 1 /\ UNCHANGED <<dir, cur>>

Reset == /\ Is("Reset")
         /\ dir' = Ev.dir /\ cur' = Ev.case
         /\ stats' = Close(stats) /\ open' = TRUE /\ nt' = FALSE
         /\ l' = l + 1 /\ UNCHANGED cfg

Touch == /\ Is("Touch") /\ open
         /\ dir' = [dir EXCEPT ![Ev.f] = Ev.tok]
         /\ l' = l + 1 /\ UNCHANGED <<cfg, cur, open, nt, stats>>

Run == /\ Is("Run") /\ open
       /\ Ev.inv \in DOMAIN cfg.invs
       /\ LET inv == cfg.invs[Ev.inv] IN
            /\ Ev.ok = inv.ok                        \* success must not depend on what is in the directory
            /\ Ev.extra = << >>                      \* goag creates nothing but its five files
            /\ IF Ev.ok THEN RunOKPost(inv.fresh, dir, Ev.dir, Files)
                        ELSE RunErrPost(dir, Ev.dir, Files)
            /\ nt' = (nt \/ (Ev.ok /\ NeedsRepair(inv.fresh, dir)))
       /\ dir' = Ev.dir
       /\ l' = l + 1 /\ UNCHANGED <<cfg, cur, open, stats>>

Step == Config \/ Reset \/ Touch \/ Run

RECURSIVE NextBoundary(_)
NextBoundary(k) == IF k > Len(Trace) THEN k
                   ELSE IF Trace[k].ev \in {"Reset", "Config"} THEN k ELSE NextBoundary(k + 1)

Skip == /\ l <= Len(Trace) /\ ~ENABLED Step
        /\ PrintT(ToJson([verdict |-> "REJECT", case |-> cur, at |-> l, event |-> Ev, before |-> dir]))
        /\ stats' = [stats EXCEPT !.rejected = @ + 1]
        /\ open' = FALSE /\ nt' = FALSE
        /\ l' = NextBoundary(l + 1)
        /\ UNCHANGED <<cfg, dir, cur>>

Finish == /\ l = Len(Trace) + 1
          /\ PrintT(ToJson([verdict |-> "END", at |-> l, accepted |-> Close(stats).accepted,
                            nontrivial |-> Close(stats).nontrivial, rejected |-> stats.rejected]))
          /\ l' = l + 1 /\ UNCHANGED <<cfg, dir, cur, open, nt, stats>>

Next == Step \/ Skip \/ Finish
Spec == Init /\ [][Next]_tvars
=============================================================================
