SPECIFICATION Spec
CONSTANTS
  Lits = {"a"}
  D = 2
  R = 2
  ReqAlpha = {"a", "z", ""}
  MaxSet = 2
  Guard = FALSE
  Emit = FALSE
INVARIANT RouterCorrect
