------------------------------ MODULE MC_Router ------------------------------
(***************************************************************************)
(* Design check of Router: for every set of non-equivalent templates (up   *)
(* to MaxSet) with every method assignment, and EVERY request path up to   *)
(* depth R over ReqAlpha and every method, the walk of the generated route *)
(* functions returns an admissible dispatch.  Also prints every template   *)
(* set as a JSON line (case generation for the conformance run).           *)
(***************************************************************************)
EXTENDS Router, TLC, Json, SequencesExt

CONSTANTS Lits,      \* literal segment names usable in templates, e.g. {"a","b"}
          D,         \* maximal template depth
          R,         \* maximal request depth
          ReqAlpha,  \* request segment alphabet, e.g. {"a","b","z",""}
          MaxSet,    \* 1 or 2 templates per set (3 in the thorough configuration)
          Guard,     \* TRUE: the generated code has the "no segment left" entry guard
          Emit

VARIABLES st, set, ms, rq, m
vars == <<st, set, ms, rq, m>>

SegAlpha == { [k |-> "lit", s |-> x] : x \in Lits } \cup { [k |-> "var", s |-> "x"], [k |-> "lit", s |-> ""] }
WFT(t)   == \A i \in 1..Len(t) : (t[i].k = "lit" /\ t[i].s = "") => i = Len(t)
Templates == { t \in UNION { [1..n -> SegAlpha] : n \in 1..D } : WFT(t) }
TSeq      == SetToSeq(Templates)
NT        == Len(TSeq)

MethodSets == { {"GET"}, {"POST"}, {"GET", "POST"} }
Methods    == {"GET", "POST", "DELETE"}
ReqPaths   == UNION { [1..n -> ReqAlpha] : n \in 0..R }

\* set : sequence of template indexes (strictly increasing), ms : their method sets
Init == st = "pick" /\ set = << >> /\ ms = << >> /\ rq = << >> /\ m = ""

Pick(i, mset) == /\ st = "pick" /\ Len(set) < MaxSet
                 /\ (IF set = << >> THEN TRUE ELSE i > set[Len(set)])
                 /\ set' = Append(set, i) /\ ms' = Append(ms, mset)
                 /\ UNCHANGED <<st, rq, m>>

OpsNow == { [t |-> TSeq[set[k]], m |-> mm] : k \in DOMAIN set, mm \in Methods } 
RealOps == { o \in OpsNow : \E k \in DOMAIN set : TSeq[set[k]] = o.t /\ o.m \in ms[k] }

EmitSet == /\ st = "pick" /\ set # << >> /\ Emit
           /\ PrintT(ToJson([set |-> [k \in DOMAIN set |-> [t |-> TSeq[set[k]], ms |-> SetToSeq(ms[k])]]]))
           /\ UNCHANGED vars

Ask(p, mm) == /\ st = "pick" /\ set # << >>
              /\ st' = "asked" /\ rq' = p /\ m' = mm
              /\ UNCHANGED <<set, ms>>

Next == \/ \E i \in 1..NT, mset \in MethodSets : Pick(i, mset)
        \/ EmitSet
        \/ \E p \in ReqPaths, mm \in Methods : Ask(p, mm)

Spec == Init /\ [][Next]_vars

HasM(t) == \E o \in RealOps : o.t = t /\ o.m = m
Result  == LET w == Walk(Tree({ TSeq[set[k]] : k \in DOMAIN set }), rq, HasM, Guard) IN
           IF w.found THEN [t |-> w.t, m |-> m] ELSE [t |-> << >>, m |-> "#nf"]
Allowed == LET c == Cands(RealOps, m, [ok |-> TRUE, p |-> rq]) IN
           IF c = {} THEN { [t |-> << >>, m |-> "#nf"] } ELSE NonDominated(c)

RouterCorrect == st = "asked" => Result \in Allowed
=============================================================================
