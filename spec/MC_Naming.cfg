SPECIFICATION Spec
CONSTANTS
  MaxLen = 4
  Emit = TRUE
INVARIANT DerivedNamesAreIdentifiers
