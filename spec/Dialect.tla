------------------------------- MODULE Dialect -------------------------------
(***************************************************************************)
(* The supported dialect as an enumerable universe (DESIGN §3): the        *)
(* single-feature matrix of C01 (schema kind x position x required x       *)
(* nullable x ref form), the mutation operators of C15, and the result     *)
(* protocol of goag.Generator.Generate shared by both.                     *)
(***************************************************************************)
EXTENDS Naturals, Sequences, FiniteSets

Kinds == {"bool", "int", "int32", "int64", "double", "float", "string", "date", "byte", "password", "datetime", "any",
          "arrayOfString", "arrayOfInt", "arrayOfDatetime", "arrayOfObject", "arrayOfArray",
          "object", "objectAddlAny", "objectAddlString", "objectEmpty",
          "allOfInlineRef", "allOfRefInline", "allOfRefRef", "allOfInlineInline",
          "oneOf", "oneOfDisc", "oneOfDiscMap"}
Primitive == {"bool", "int", "int32", "int64", "double", "float", "string", "date", "byte", "password", "datetime"}
Positions == {"component", "property", "items", "addl", "query", "header", "path", "requestBody", "responseBody", "responseHeader",
              "componentParameter", "componentHeader", "componentResponse", "componentRequestBody"}
\* alias: a component that is only a $ref, declared before its target (names sort); aliasBack: declared after it
RefForms  == {"inline", "ref", "alias", "aliasBack"}

Cells == { [kind |-> k, pos |-> p, req |-> r, nullable |-> n, ref |-> f] :
             k \in Kinds, p \in Positions, r \in BOOLEAN, n \in BOOLEAN, f \in RefForms }

\* cells that say the same thing twice are left out
WFCell(c) == /\ (c.pos \in {"component", "items", "addl", "componentResponse", "componentRequestBody", "requestBody", "responseBody"} => c.req)   \* no requiredness there
             /\ (c.pos = "path" => c.req)
             /\ (c.pos = "component" => c.ref \in {"inline", "alias", "aliasBack"})

(* ---------------- known-finding selectors of C01 (predicates on the abstract cell) ---------------- *)
\* cells of the extra axes have kind "extra", ref = the axis ("name", "text", "config"), pos = the site, shape = the value
NotIdentifierNames == {"type", "func", "2fa", "kebab-case", "X-Header-Uuid", "a.b", "?mile", "with space"}
KFCell(c) ==
    IF c.kind = "extra" THEN
         IF c.ref = "name" /\ c.pos = "twoProps" THEN "c01-name-collision"
         ELSE IF c.ref = "name" /\ c.shape \in NotIdentifierNames /\ c.pos \in {"schema", "responseHeader", "header", "operationId"} THEN "c01-name-not-identifier"
         ELSE IF c.ref = "config" /\ c.shape = "client-without-handler" THEN "c01-client-without-handler"
         ELSE IF c.ref = "config" /\ c.shape = "apikey-header-also-declared-parameter" THEN "c01-apikey-header-declared-twice"
         ELSE IF c.ref = "wireop" /\ c.pos = "aliasResponseInlineObjectBody" THEN "c01-alias-response-inline-body"
         \* (pos "routenames-opcollide": RouteNames.OpCollides holds of the cell's template pair and no operationId is given)
         ELSE IF c.ref = "config" /\ c.pos = "routenames-opcollide" THEN "c01-operation-name-collision"
         ELSE ""
    ELSE IF c.kind = "mutant" THEN
         IF c.shape = "template-error" THEN "c15-template-error-unlocated"
         ELSE IF c.shape = "panic" /\ c.pos \in {"CyclicRef"} THEN "c15-cyclic-ref"
         ELSE ""
    ELSE IF c.nullable THEN "c01-nullable"
    ELSE IF c.kind = "arrayOfDatetime" \/ (c.kind = "datetime" /\ c.pos = "items") THEN "c01-array-datetime"
    ELSE IF c.ref # "inline" /\ c.pos \in {"property", "items"} THEN "c01-ref-nonstruct"
    ELSE IF c.ref = "inline" /\ c.pos = "items" THEN "c01-inline-items"
    ELSE ""

(* ---------------- result protocol (C01, C15) ---------------- *)
\* r = [ok, panic : BOOLEAN, errText : STRING, swallowedFormatError : BOOLEAN, parseErrs, fmtDiffs, typeErrs : Nat]
WellFormedOutput(r) == r.parseErrs = 0 /\ r.fmtDiffs = 0 /\ r.typeErrs = 0 /\ ~r.swallowedFormatError
ResultOK(r) == /\ ~r.panic
               /\ r.ok => WellFormedOutput(r)
               /\ ~r.ok => r.errText # ""
=============================================================================
