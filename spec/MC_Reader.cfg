SPECIFICATION Spec
CONSTANTS
  SharedMap = FALSE
  MaxMembers = 1
  Emit = FALSE
INVARIANT ReaderCorrect
INVARIANT OneOfCorrect
