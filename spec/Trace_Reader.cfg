SPECIFICATION Spec
