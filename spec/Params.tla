-------------------------------- MODULE Params --------------------------------
(***************************************************************************)
(* C04 / C05: parameter parsing (new<Op>Params in file_handler.gotmpl).    *)
(*                                                                         *)
(* A declaration  d = [in, name, type, array, req].  A request supplies,   *)
(* for every declaration, a sequence of lexemes (<< >> = absent); a lexeme *)
(* is abstracted to its class for the declared type:                       *)
(*    canon | boundary (in the lexical space and range of the type)        *)
(*    outOfRange | garbage | empty (outside - except that every text,      *)
(*    including the empty one, is a string)                                *)
(* Prop layer: Failing, Outcomes (set-valued: which failing parameter is   *)
(*    named is left open).                                                 *)
(* Impl layer: Run = the generated order query -> header -> path, per      *)
(*    parameter presence -> cardinality -> lexical parse, first error wins.*)
(***************************************************************************)
EXTENDS Naturals, Sequences, FiniteSets

Types   == {"string", "int", "int32", "int64", "double", "float", "bool", "datetime"}
Classes == {"canon", "boundary", "outOfRange", "garbage", "empty"}

InSpace(t, c) == IF t = "string" THEN TRUE ELSE c \in {"canon", "boundary"}

Key(d) == d.in \o ":" \o d.name

\* path parameters (C05): the segment at the template position; an empty segment is never a value
Fails(d, s) == \/ d.req /\ s = << >>
               \/ ~d.array /\ Len(s) > 1
               \/ \E i \in 1..Len(s) : ~InSpace(d.type, s[i].cls)
               \/ d.in = "path" /\ \E i \in 1..Len(s) : s[i].cls = "empty"

\* sup : [Key -> Seq([cls, tok])]   tok = the typed token the lexeme denotes (from the harness's lexeme table)
Failing(ds, sup) == { d \in ds : Fails(d, sup[Key(d)]) }

ExpectedField(d, s) == IF s = << >> /\ ~d.req THEN [set |-> FALSE, toks |-> << >>]
                       ELSE [set |-> TRUE, toks |-> [i \in 1..Len(s) |-> s[i].tok]]

(* ---------------- Impl: generated parse order ---------------- *)
InOrder(in) == CASE in = "query" -> 1 [] in = "header" -> 2 [] OTHER -> 3

\* dseq : declarations in generated order within each location
RECURSIVE Run(_, _, _)
Run(dseq, sup, i) ==
    IF i > Len(dseq) THEN [ok |-> TRUE, err |-> ""]
    ELSE LET d == dseq[i]  s == sup[Key(d)] IN
         IF d.req /\ s = << >> THEN [ok |-> FALSE, err |-> Key(d)]                    \* "is required"
         ELSE IF s = << >> THEN Run(dseq, sup, i + 1)                                 \* stays unset
         ELSE IF ~d.array /\ Len(s) # 1 THEN [ok |-> FALSE, err |-> Key(d)]           \* "multiple values found"
         ELSE IF d.in = "path" /\ s[1].cls = "empty" THEN [ok |-> FALSE, err |-> Key(d)]   \* len(vPath) == 0
         ELSE IF \E k \in 1..Len(s) : ~InSpace(d.type, s[k].cls) THEN [ok |-> FALSE, err |-> Key(d)]
         ELSE Run(dseq, sup, i + 1)
=============================================================================
