SPECIFICATION Spec
