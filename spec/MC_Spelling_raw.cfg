SPECIFICATION Spec
CONSTANTS
  Reader = "between-quotes"
  MaxLen = 4
  Emit = FALSE
INVARIANT SpellingFree
INVARIANT WellFormed
CHECK_DEADLOCK FALSE
