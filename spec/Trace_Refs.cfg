SPECIFICATION Spec
