SPECIFICATION Spec
CONSTANTS
  MaxRuns = 3
  SpecSet = {"s0", "s1"}
  MaxTouch = 0
  UserFiles = {}
  DneSet = {TRUE}
  GuardedRemove = FALSE
INVARIANT DirMatchesLast
PROPERTY UserUntouched
PROPERTY Idempotent
