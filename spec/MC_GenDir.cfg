SPECIFICATION Spec
CONSTANTS
  MaxRuns = 3
  SpecSet = {"s0", "s1"}
  MaxTouch = 0
  UserFiles = {}
INVARIANT DirMatchesLast
PROPERTY UserUntouched
PROPERTY Idempotent
