----------------------------- MODULE MC_Spelling -----------------------------
(* every string of up to MaxLen characters over the five classes x every plan of up to three ways *)
EXTENDS Spelling, TLC, Json
CONSTANTS MaxLen, Emit

Plans == { <<a>> : a \in Ways } \cup { <<a, b>> : a \in Ways, b \in Ways } \cup { <<a, b, c>> : a \in Ways, b \in Ways, c \in Ways }
WS == {"", " ", "nl-tab", "crlf-sp"}

Init == v = << >> /\ plan = <<"raw">> /\ st = "grow"
Grow(ch) == st = "grow" /\ Len(v) < MaxLen /\ v' = Append(v, ch) /\ UNCHANGED <<plan, st>>
Pick(p) == st = "grow" /\ ~Emit /\ plan' = p /\ st' = "spelled" /\ UNCHANGED v
EmitPlan(p, w1, w2) == /\ st = "grow" /\ Emit /\ v = << >>
                       /\ PrintT(ToJson([spelling |-> [ways |-> p, ws |-> <<w1, w2>>]])) /\ UNCHANGED vars
Next == (\E ch \in Chars : ~Emit /\ Grow(ch)) \/ (\E p \in Plans : Pick(p)) \/ (\E p \in Plans, w1 \in WS, w2 \in WS : EmitPlan(p, w1, w2))
Spec == Init /\ [][Next]_vars

SpellingFree == st = "spelled" => Read(Spell(v, plan)) = v
\* every unit a plan produces is one JSON allows for its character
WellFormed == st = "spelled" => \A k \in DOMAIN v : Allowed(v[k], Spell(v, plan)[k].way)
=============================================================================
