------------------------------ MODULE MC_Client ------------------------------
(***************************************************************************)
(* Design check of Client.tla: for every template of depth <= 3 over one   *)
(* literal and up to two variables, every assignment of value kinds, and   *)
(* up to two query parameters (scalar / array x required / optional) with  *)
(* every argument (unset, empty list, one or two values of every kind):    *)
(*   InDomain(call)  => EndToEnd(call)                                     *)
(*   and the restrictions are tight: a call that leaves the domain by a    *)
(*   path value (slash, empty) or by an empty list that is sent breaks     *)
(*   EndToEnd.                                                             *)
(***************************************************************************)
EXTENDS Client, TLC, Json

CONSTANT Emit      \* TRUE: print the operation shapes (template x declarations) as JSON lines, no exploration

VARIABLES st, call
vars == <<st, call>>

L(s) == [k |-> "lit", s |-> s]
V(s) == [k |-> "var", s |-> s]
Templates == { << L("a") >>, << V("x") >>, << L("a"), V("x") >>, << V("x"), L("a") >>, << V("x"), V("y") >>,
               << L("a"), V("x"), V("y") >>, << V("x"), L("a"), V("y") >>, << L("a"), V("x"), L("") >> }
NVars(t) == Cardinality({ i \in 1..Len(t) : t[i].k = "var" })
Val(i, k) == [id |-> i, kind |-> k]
PathVals(n) == IF n = 0 THEN { << >> }
               ELSE IF n = 1 THEN { << Val("p1", k) >> : k \in Kinds }
               ELSE { << Val("p1", k1), Val("p2", k2) >> : k1 \in Kinds, k2 \in Kinds }
Decl(n, a, r) == [name |-> n, array |-> a, req |-> r]
DeclSeqs == { << >> } \cup { << Decl("q", a, r) >> : a \in BOOLEAN, r \in BOOLEAN }
            \cup { << Decl("q", a1, r1), Decl("r", a2, r2) >> : a1 \in BOOLEAN, r1 \in BOOLEAN, a2 \in BOOLEAN, r2 \in BOOLEAN }
QKinds == {"plain", "reserved", "empty"}          \* (a "/" in a query value is just a reserved character)
ArgsOf(n) == { [set |-> FALSE, vs |-> << >>], [set |-> TRUE, vs |-> << >>] }
             \cup { [set |-> TRUE, vs |-> << Val(n \o "1", k) >>] : k \in QKinds }
             \cup { [set |-> TRUE, vs |-> << Val(n \o "1", k1), Val(n \o "2", k2) >>] : k1 \in QKinds, k2 \in {"plain", "empty"} }
Calls == { [t |-> t, pathVals |-> pv, decls |-> ds, args |-> as] :
             t \in Templates, pv \in UNION { PathVals(NVars(tt)) : tt \in Templates }, ds \in DeclSeqs,
             as \in [ {"q", "r"} -> ArgsOf("q") \cup ArgsOf("r") ] }
WF(c) == /\ Len(c.pathVals) = NVars(c.t)
         /\ \A n \in {"q", "r"} : c.args[n] \in ArgsOf(n)
         /\ \A n \in {"q", "r"} : (~\E i \in 1..Len(c.decls) : c.decls[i].name = n) => c.args[n] = [set |-> FALSE, vs |-> << >>]

Init == st = "pick" /\ call = [t |-> << L("a") >>, pathVals |-> << >>, decls |-> << >>, args |-> [n \in {"q", "r"} |-> [set |-> FALSE, vs |-> << >>]]]
EmitOp(t, ds) == Emit /\ PrintT(ToJson([shape |-> [t |-> t, decls |-> ds]])) /\ UNCHANGED vars
Next == /\ st = "pick"
        /\ \/ \E t \in Templates, ds \in DeclSeqs : EmitOp(t, ds)
           \/ ~Emit /\ \E t \in Templates : \E pv \in PathVals(NVars(t)) : \E ds \in DeclSeqs :
             \E aq \in (IF \E i \in 1..Len(ds) : ds[i].name = "q" THEN ArgsOf("q") ELSE { [set |-> FALSE, vs |-> << >>] }) :
             \E ar \in (IF \E i \in 1..Len(ds) : ds[i].name = "r" THEN ArgsOf("r") ELSE { [set |-> FALSE, vs |-> << >>] }) :
               /\ call' = [t |-> t, pathVals |-> pv, decls |-> ds, args |-> [n \in {"q", "r"} |-> IF n = "q" THEN aq ELSE ar]]
               /\ st' = "done"
Spec == Init /\ [][Next]_vars

HoldsInDomain == (st = "done" /\ InDomain(call)) => EndToEnd(call)
\* tightness: each restriction, violated alone, breaks the round trip
PathValueOut == \E i \in 1..Len(call.pathVals) : call.pathVals[i].kind \in {"slash", "empty"}
EmptyListSent == \E i \in 1..Len(call.decls) : LET d == call.decls[i]  a == call.args[d.name] IN d.array /\ (d.req \/ a.set) /\ a.vs = << >>
DomainIsTight == (st = "done" /\ (PathValueOut \/ EmptyListSent)) => ~EndToEnd(call)
=============================================================================
