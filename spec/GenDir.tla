------------------------------- MODULE GenDir -------------------------------
(***************************************************************************)
(* The output directory of goag.Generator.Generate (goag.go) as a state    *)
(* machine.  Properties C19 (the directory reflects only the last          *)
(* invocation), and the result protocol shared with C01 / C15.             *)
(*                                                                         *)
(* Prop layer : Fresh, RunOKPost, RunErrPost      (what a run must achieve)*)
(* Impl layer : Steps(inv) = the remove / render+write sequence of         *)
(*              Generate, executed one file operation at a time.           *)
(* This module has no variables; MC_GenDir explores the Impl layer and     *)
(* Trace_GenDir judges directories recorded from the real generator.       *)
(***************************************************************************)
EXTENDS Naturals, Sequences, FiniteSets

Owned    == {"components.go", "handler.go", "router.go", "spec_file.go", "client.go"}
ApiFiles == {"handler.go", "router.go", "spec_file.go"}
AbsentTok == "absent"

(* ---------------- Prop layer ------------------------------------------ *)

\* inv = [spec : STRING, comp, client, api, dne : BOOLEAN, fail : Nat]
\* dne   - the "DO NOT EDIT" header is written (the CLI default; --donotedit=false switches it off)
\* comp  - the spec has components that render (gen.Components.LenToRender() > 0)
\* fail  - 0: the invocation succeeds; k > 0: it returns an error when it reaches step k
Wants(inv, f) == CASE f = "components.go" -> inv.comp
                   [] f \in ApiFiles       -> inv.api
                   [] f = "client.go"      -> inv.client
                   [] OTHER                -> FALSE

\* The model's idea of file bytes: a function of the spec, the header option and the file only.
ContentOf(inv, f) == inv.spec \o ":" \o f \o (IF inv.dne THEN "" ELSE ":noheader")
HasHeader(tok) == tok # AbsentTok /\ \A s \in {"s0", "s1", "s2", "sP", "sH"}, f \in Owned : tok # s \o ":" \o f \o ":noheader"

ModelFresh(inv) == [f \in Owned |-> IF Wants(inv, f) THEN ContentOf(inv, f) ELSE AbsentTok]

\* A successful run: every owned file is exactly what a fresh run produces, everything else untouched.
RunOKPost(fresh, before, after, files) ==
    /\ \A f \in Owned : after[f] = fresh[f]
    /\ \A u \in files \ Owned : after[u] = before[u]

\* A failing run may leave any mixture of owned files but never touches user files.
RunErrPost(before, after, files) == \A u \in files \ Owned : after[u] = before[u]

\* Did this run have anything to repair?  (non-triviality of a history)
NeedsRepair(fresh, before) == \E f \in Owned : before[f] # fresh[f] /\ before[f] # AbsentTok

(* ---------------- Impl layer: goag.go Generate, step by step ----------- *)

W(f) == [op |-> "write",  f |-> f]     \* RenderToFile: render, goimports, O_CREATE|O_TRUNC write
R(f) == [op |-> "remove", f |-> f]     \* os.Remove ignoring IsNotExist

Steps(inv) ==
       << IF inv.comp THEN W("components.go") ELSE R("components.go") >>
    \o (IF inv.api THEN << W("handler.go"), W("router.go"), W("spec_file.go") >>
                   ELSE << R("handler.go"), R("router.go"), R("spec_file.go") >>)
    \o << R("client.go") >>
    \o (IF inv.client THEN << W("client.go") >> ELSE << >>)

Apply(dir, inv, s) == IF s.op = "write" THEN [dir EXCEPT ![s.f] = ContentOf(inv, s.f)]
                                         ELSE [dir EXCEPT ![s.f] = AbsentTok]
\* guarded = TRUE models a class of defect the property excludes: a run that writes the header removes a stale file
\* only when that file carries the header ("it might be the user's") - but whether it does depends on the options
\* of the earlier run that wrote it.
ApplyG(dir, inv, s, guarded) == IF s.op = "remove" /\ guarded /\ inv.dne /\ ~HasHeader(dir[s.f]) THEN dir ELSE Apply(dir, inv, s)
=============================================================================
