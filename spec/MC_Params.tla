------------------------------ MODULE MC_Params ------------------------------
(***************************************************************************)
(* Design check: for every pair of declarations (distinct keys) and every  *)
(* supply of at most MaxLex lexemes each, the generated parse order        *)
(* returns an outcome the Prop layer admits.  Also enumerates every single *)
(* declaration of the matrix as a JSON line (case generation for C04).     *)
(***************************************************************************)
EXTENDS Params, TLC, Json, SequencesExt

CONSTANTS TypeSet, MaxLex, Emit, Explore
VARIABLES st, d1, d2, s1, s2
vars == <<st, d1, d2, s1, s2>>

Ins == {"query", "header"}
Decls(n) == { [in |-> i, name |-> n, type |-> t, array |-> a, req |-> r] :
                i \in Ins, t \in TypeSet, a \in BOOLEAN, r \in BOOLEAN }
WFD(d) == ~(d.in = "header" /\ d.array)         \* header arrays are outside the matrix (DESIGN §11)
Lex == { [cls |-> c, tok |-> c] : c \in Classes }
Sups == UNION { [1..n -> Lex] : n \in 0..MaxLex }

NoD == [in |-> "query", name |-> "none", type |-> "string", array |-> FALSE, req |-> FALSE]
Init == st = "pick" /\ d1 = NoD /\ d2 = NoD /\ s1 = << >> /\ s2 = << >>

Pick(a, b) == /\ st = "pick" /\ WFD(a) /\ WFD(b) /\ Explore
              /\ d1' = a /\ d2' = b /\ st' = "supply" /\ UNCHANGED <<s1, s2>>
Supply(x, y) == /\ st = "supply" /\ s1' = x /\ s2' = y /\ st' = "done" /\ UNCHANGED <<d1, d2>>
EmitDecl(a) == /\ st = "pick" /\ Emit /\ WFD(a)
               /\ PrintT(ToJson([decl |-> a])) /\ UNCHANGED vars

Next == \/ \E a \in Decls("p"), b \in Decls("q") : Pick(a, b)
        \/ \E x \in Sups, y \in Sups : Supply(x, y)
        \/ \E a \in Decls("p") : EmitDecl(a)
Spec == Init /\ [][Next]_vars

Sup == (Key(d1) :> s1) @@ (Key(d2) :> s2)
Ordered == IF InOrder(d1.in) <= InOrder(d2.in) THEN <<d1, d2>> ELSE <<d2, d1>>
Result == Run(Ordered, Sup, 1)
ImplRefinesProp ==
    st = "done" =>
      LET f == Failing({d1, d2}, Sup) IN
        IF f = {} THEN Result.ok ELSE (~Result.ok /\ \E d \in f : Key(d) = Result.err)
=============================================================================
