SPECIFICATION Spec
CONSTANTS
  TypeSet = {"string", "int32", "bool"}
  MaxLex = 2
  Emit = FALSE
  Explore = TRUE
INVARIANT ImplRefinesProp
