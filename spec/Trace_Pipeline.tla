---------------------------- MODULE Trace_Pipeline ----------------------------
(***************************************************************************)
(* Judge for event logs recorded at the user call-backs of a generated     *)
(* API value (C03 C11 C13b C14 C16 C17).                                   *)
(*   Config  cfg                          a new generated package / API    *)
(*   Req     case method kind segs cred   one request starts               *)
(*   MwEnter i tmpl has | MwLeave i       instrumented middlewares         *)
(*   Auth    s ok                          an authenticator was consulted  *)
(*   Handler op tag tmpl has              an operation's handler ran       *)
(*   NotFound custom | Cors methods headers | Spec                         *)
(*   Done    status writes panic specBody  ServeHTTP returned              *)
(* Every event must be an enabled step of the Prop layer of Pipeline.      *)
(***************************************************************************)
EXTENDS Pipeline, TLC, Json

VARIABLES l, cfg, rq, out, pc, entered, left, tmpl, accepted, cur, open, nt, stats
tvars == <<l, cfg, rq, out, pc, entered, left, tmpl, accepted, cur, open, nt, stats>>

Trace == ndJsonDeserialize("trace.ndjson")
Ev    == Trace[l]
Is(e) == l <= Len(Trace) /\ Ev.ev = e

NoCfg == [base |-> << >>, specName |-> "", cors |-> FALSE, global |-> [k |-> "none", list |-> << >>], schemes |-> << >>,
          ops |-> << >>, items |-> << >>, api |-> [mw |-> 0, notFound |-> FALSE, spec |-> FALSE, cors |-> FALSE, auth |-> << >>]]
NoRq  == [method |-> "", kind |-> "other", segs |-> << >>, cred |-> << >>]

Close(s) == [s EXCEPT !.accepted = @ + (IF open THEN 1 ELSE 0), !.nontrivial = @ + (IF open /\ nt THEN 1 ELSE 0)]

Init == /\ l = 1 /\ cfg = NoCfg /\ rq = NoRq /\ out = {} /\ pc = "idle" /\ entered = 0 /\ left = 0 /\ tmpl = "" /\ accepted = {}
        /\ cur = "" /\ open = FALSE /\ nt = FALSE
        /\ stats = [accepted |-> 0, nontrivial |-> 0, rejected |-> 0]

\* (a request that was opened must have been answered - Done - before the next one or the next configuration starts)
Answered == ~open \/ pc = "done"
Config == /\ Is("Config") /\ Answered
          /\ cfg' = Ev.cfg
          /\ stats' = Close(stats) /\ open' = FALSE /\ nt' = FALSE /\ pc' = "idle"
          /\ l' = l + 1 /\ UNCHANGED <<rq, out, entered, left, tmpl, accepted, cur>>

Req == /\ Is("Req") /\ Answered
       /\ rq' = [method |-> Ev.method, kind |-> Ev.kind, segs |-> Ev.segs, cred |-> Ev.cred]
       /\ out' = Outcomes(cfg, [method |-> Ev.method, kind |-> Ev.kind, segs |-> Ev.segs, cred |-> Ev.cred])
       /\ cur' = Ev.case /\ pc' = "recv" /\ entered' = 0 /\ left' = 0 /\ tmpl' = "" /\ accepted' = {}
       /\ stats' = Close(stats) /\ open' = TRUE /\ nt' = FALSE
       /\ l' = l + 1 /\ UNCHANGED cfg

Out      == out      \* = Outcomes(cfg, rq), computed once per request
RealOuts == { o \in Out : o.id # "#notfound" /\ ~o.synth }
Valid    == ValidCreds(rq)
AuthOK(o) == Authorised(EffOf(cfg, OpById(cfg, o.id)), KindOf(cfg), Valid, Installed(cfg))

\* C16: entered in declaration order, only for requests dispatched to an operation, template visible
MwEnter == /\ Is("MwEnter") /\ open /\ pc \in {"recv", "mw"}
           /\ ~SpecHit(cfg, rq)
           /\ Ev.i = entered + 1 /\ Ev.i <= cfg.api.mw
           /\ Ev.has /\ \E o \in RealOuts : o.ts = Ev.tmpl
           /\ (entered > 0 => Ev.tmpl = tmpl)
           /\ entered' = Ev.i /\ tmpl' = Ev.tmpl /\ pc' = "mw"
           /\ l' = l + 1 /\ UNCHANGED <<cfg, rq, out, left, accepted, cur, open, nt, stats>>

\* C11/C16: authenticators are consulted inside all middlewares
Auth == /\ Is("Auth") /\ open /\ pc \in {"recv", "mw"} /\ entered = cfg.api.mw
        /\ ~SpecHit(cfg, rq) /\ RealOuts # {}
        /\ accepted' = IF Ev.ok THEN accepted \cup {Ev.s} ELSE accepted
        /\ pc' = "mw"
        /\ l' = l + 1 /\ UNCHANGED <<cfg, rq, out, entered, left, tmpl, cur, open, nt, stats>>

TagScheme(tag) == tag   \* the harness strips the token part

Handler == /\ Is("Handler") /\ open /\ pc \in {"recv", "mw"} /\ entered = cfg.api.mw
           /\ ~SpecHit(cfg, rq)
           /\ \E o \in RealOuts :
                /\ o.id = Ev.op
                /\ (entered > 0 => o.ts = tmpl)
                /\ Ev.has /\ Ev.tmpl = o.ts                                   \* C03: reported template
                /\ AuthOK(o)                                                   \* C11: no more
                /\ TagOK(EffOf(cfg, OpById(cfg, o.id)), KindOf(cfg), Valid, Installed(cfg), Ev.tag)
                /\ (Ev.tag # "" => Ev.tag \in accepted)
           /\ pc' = "handler" /\ nt' = TRUE
           /\ l' = l + 1 /\ UNCHANGED <<cfg, rq, out, entered, left, tmpl, accepted, cur, open, stats>>

\* C04 inside the pipeline: the scripted handler calls Parse(); an operation that declares no parameter of its own
\* has nothing that could be missing or malformed (mayFail = FALSE: the spec declares no parameters and no path
\* variables at all), so Parse must succeed - whatever the security schemes of the operation read from the request
Parsed == /\ Is("Parsed") /\ open /\ pc = "handler"
          /\ (Ev.ok \/ Ev.mayFail)
          /\ l' = l + 1 /\ UNCHANGED <<cfg, rq, out, entered, left, tmpl, accepted, cur, open, nt, pc, stats>>

\* an internal forward: the handler dispatched GET <path> through the same API value (the request context already
\* carried the first dispatch's template).  If an operation ran, it is one the path matches, and the template shown
\* to it and to the middlewares is ITS template (C03 / C16), not the one of the outer dispatch
Nested == /\ Is("Nested") /\ open /\ pc = "handler"
          /\ Ev.panic = ""
          /\ LET nrq == [method |-> Ev.method, kind |-> Ev.kind, segs |-> Ev.segs, cred |-> << >>] IN
               \/ Ev.op = ""
               \/ \E o \in Outcomes(cfg, nrq) : /\ o.id # "#notfound" /\ ~o.synth /\ o.id = Ev.op
                                                  /\ Ev.has /\ Ev.tmpl = o.ts
                                                  /\ \A k \in DOMAIN Ev.mwTmpls : Ev.mwTmpls[k] = o.ts
          /\ l' = l + 1 /\ UNCHANGED <<cfg, rq, out, entered, left, tmpl, accepted, cur, open, nt, pc, stats>>

NotFound == /\ Is("NotFound") /\ open /\ pc = "recv" /\ entered = 0
            /\ ~SpecHit(cfg, rq) /\ NotFoundT \in Out
            /\ Ev.custom = cfg.api.notFound
            /\ pc' = "nf"
            /\ l' = l + 1 /\ UNCHANGED <<cfg, rq, out, entered, left, tmpl, accepted, cur, open, nt, stats>>

Cors == /\ Is("Cors") /\ open /\ pc = "recv" /\ entered = 0
        /\ ~SpecHit(cfg, rq)
        /\ \E o \in Out : /\ o.synth
                          /\ SeqSet(Ev.methods) = CorsMethods(cfg, o.item) /\ NoDup(Ev.methods)
                          /\ SeqSet(Ev.headers) = CorsHeaders(cfg, o.item) /\ NoDup(Ev.headers)
        /\ pc' = "cors" /\ nt' = TRUE
        /\ l' = l + 1 /\ UNCHANGED <<cfg, rq, out, entered, left, tmpl, accepted, cur, open, stats>>

Spec == /\ Is("Spec") /\ open /\ pc = "recv" /\ entered = 0
        /\ SpecHit(cfg, rq)
        /\ pc' = "spec" /\ nt' = TRUE
        /\ l' = l + 1 /\ UNCHANGED <<cfg, rq, out, entered, left, tmpl, accepted, cur, open, stats>>

MwLeave == /\ Is("MwLeave") /\ open /\ pc \in {"handler", "rejected", "mw"}
           /\ Ev.i = entered - left /\ Ev.i >= 1
           \* leaving without a handler is only explained by a 401 (checked at Done)
           /\ pc' = IF pc = "mw" THEN "rejected" ELSE pc
           /\ left' = left + 1
           /\ l' = l + 1 /\ UNCHANGED <<cfg, rq, out, entered, tmpl, accepted, cur, open, nt, stats>>

\* C14: exactly one response, no panic; and the status each way of ending implies
Done == /\ Is("Done") /\ open
        /\ Ev.panic = "" /\ Ev.writes = 1
        /\ left = entered
        /\ CASE pc = "handler"  -> TRUE
             [] pc = "nf"       -> Ev.status = 404
             [] pc = "cors"     -> Ev.status = 204
             [] pc = "spec"     -> Ev.status = 200 /\ Ev.specBody
             [] pc \in {"mw", "rejected"} ->            \* no handler ran: must be an unauthorised request (C11: no less)
                    /\ Ev.status = 401 /\ entered = cfg.api.mw
                    /\ \E o \in RealOuts : (entered > 0 => o.ts = tmpl) /\ ~AuthOK(o)
             [] pc = "recv"     ->                      \* nothing observable happened before the answer
                    \/ /\ Ev.status = 404 /\ ~cfg.api.notFound /\ ~SpecHit(cfg, rq) /\ NotFoundT \in Out
                    \/ /\ Ev.status = 401 /\ cfg.api.mw = 0 /\ ~SpecHit(cfg, rq)
                       /\ \E o \in RealOuts : ~AuthOK(o)
             [] OTHER -> FALSE
        /\ pc' = "done" /\ nt' = (nt \/ Ev.status = 401)
        /\ l' = l + 1 /\ UNCHANGED <<cfg, rq, out, entered, left, tmpl, accepted, cur, open, stats>>

Step == Config \/ Req \/ MwEnter \/ Auth \/ Handler \/ Parsed \/ Nested \/ NotFound \/ Cors \/ Spec \/ MwLeave \/ Done

RECURSIVE NextBoundary(_)
NextBoundary(k) == IF k > Len(Trace) THEN k
                   ELSE IF Trace[k].ev \in {"Req", "Config"} THEN k ELSE NextBoundary(k + 1)

\* ---- known-finding selectors (KnownFindings: predicates on the abstract case) ----
\* Both describe an over-permissive dispatch: the handler ran although the operation's own requirement
\* was not met, on an operation whose requirement has the shape the finding is about.
EffOfT(o)       == EffOf(cfg, OpById(cfg, o.id))
HasUnsupported(o) == \E k \in DOMAIN EffOfT(o) : \E s \in SeqSet(EffOfT(o)[k]) : KindOf(cfg)[s] \notin SupportedKinds
HasAndAlt(o)      == \E k \in DOMAIN EffOfT(o) : Len(EffOfT(o)[k]) >= 2
KF == IF l <= Len(Trace) /\ Ev.ev = "Handler" /\ \E o \in RealOuts : o.id = Ev.op /\ HasUnsupported(o) THEN "c11-unsupported"
      ELSE IF l <= Len(Trace) /\ Ev.ev = "Handler" /\ \E o \in RealOuts : o.id = Ev.op /\ HasAndAlt(o) THEN "c11-and-alt"
      ELSE ""

Skip == /\ l <= Len(Trace) /\ ~ENABLED Step
        /\ PrintT(ToJson([verdict |-> "REJECT", case |-> cur, at |-> l, event |-> Ev, kf |-> KF,
                          why |-> [pc |-> pc, entered |-> entered, left |-> left, tmpl |-> tmpl,
                                   outcomes |-> { o.id : o \in Out }]]))
        /\ stats' = [stats EXCEPT !.rejected = @ + 1]
        /\ open' = FALSE /\ nt' = FALSE /\ pc' = "idle"
        /\ l' = NextBoundary(l + 1)
        /\ UNCHANGED <<cfg, rq, out, entered, left, tmpl, accepted, cur>>

Finish == /\ l = Len(Trace) + 1
          /\ PrintT(ToJson([verdict |-> "END", at |-> l, accepted |-> Close(stats).accepted,
                            nontrivial |-> Close(stats).nontrivial, rejected |-> stats.rejected]))
          /\ l' = l + 1 /\ UNCHANGED <<cfg, rq, out, pc, entered, left, tmpl, accepted, cur, open, nt, stats>>

Next == Step \/ Skip \/ Finish
Spec0 == Init /\ [][Next]_tvars
=============================================================================
