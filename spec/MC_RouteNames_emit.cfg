SPECIFICATION Spec
CONSTANTS
  Numbering = TRUE
  Emit = TRUE
CHECK_DEADLOCK FALSE
