------------------------------ MODULE GenDirInd ------------------------------
(***************************************************************************)
(* C19, unbounded: an inductive invariant of the step-level model of       *)
(* goag.go Generate (the Impl layer of GenDir.tla, restated with Apalache  *)
(* type annotations) - histories of any length, not only MaxRuns = 3.      *)
(*   apalache-mc check --init=IndInit --inv=IndInv --length=1 (inductive   *)
(*   step) and --init=Init --inv=IndInv --length=0 (base case).            *)
(***************************************************************************)
EXTENDS Integers, Sequences, FiniteSets

Owned    == {"components.go", "handler.go", "router.go", "spec_file.go", "client.go"}
ApiFiles == {"handler.go", "router.go", "spec_file.go"}
UserFiles == {"notes.txt"}
Files == Owned \union UserFiles
Specs == {"s0", "s1"}

VARIABLES
  \* @type: Str -> Str;
  dir,
  \* @type: Str;
  pc,
  \* @type: { spec: Str, comp: Bool, client: Bool, api: Bool, dne: Bool };
  cur,
  \* @type: Int;
  i,
  \* @type: { spec: Str, comp: Bool, client: Bool, api: Bool, dne: Bool };
  last,
  \* @type: Str;
  res

Invs == { [spec |-> s, comp |-> (s = "s1"), client |-> c, api |-> a, dne |-> d] : s \in Specs, c \in BOOLEAN, a \in BOOLEAN, d \in BOOLEAN }

\* @type: ({ spec: Str, comp: Bool, client: Bool, api: Bool, dne: Bool }, Str) => Bool;
Wants(inv, f) == IF f = "components.go" THEN inv.comp ELSE IF f \in ApiFiles THEN inv.api ELSE IF f = "client.go" THEN inv.client ELSE FALSE
\* @type: ({ spec: Str, comp: Bool, client: Bool, api: Bool, dne: Bool }, Str) => Str;
ContentOf(inv, f) == IF inv.dne THEN (IF inv.spec = "s0" THEN "s0h" ELSE "s1h") ELSE (IF inv.spec = "s0" THEN "s0n" ELSE "s1n")
\* (file bytes abstracted to (spec, header option); the file name is the key of dir)
\* @type: ({ spec: Str, comp: Bool, client: Bool, api: Bool, dne: Bool }, Str) => Str;
FreshOf(inv, f) == IF Wants(inv, f) THEN ContentOf(inv, f) ELSE "absent"

\* the step sequence of Generate: 1 components, 2-4 api files, 5 remove client, 6 write client (if wanted)
\* @type: ({ spec: Str, comp: Bool, client: Bool, api: Bool, dne: Bool }) => Int;
NSteps(inv) == IF inv.client THEN 6 ELSE 5
\* @type: Int => Str;
FileOf(k) == IF k = 1 THEN "components.go" ELSE IF k = 2 THEN "handler.go" ELSE IF k = 3 THEN "router.go" ELSE IF k = 4 THEN "spec_file.go" ELSE "client.go"
\* what step k leaves in its file
\* @type: ({ spec: Str, comp: Bool, client: Bool, api: Bool, dne: Bool }, Int) => Str;
After(inv, k) == IF k = 5 THEN "absent" ELSE FreshOf(inv, FileOf(k))

Init == /\ dir = [f \in Files |-> IF f \in Owned THEN "absent" ELSE "user"]
        /\ pc = "idle" /\ cur \in Invs /\ i = 0 /\ last \in Invs /\ res = "none"

Start == /\ pc = "idle" /\ \E inv \in Invs : cur' = inv
         /\ pc' = "run" /\ i' = 1 /\ UNCHANGED <<dir, last, res>>
Step == /\ pc = "run" /\ i <= NSteps(cur)
        /\ dir' = [dir EXCEPT ![FileOf(i)] = After(cur, i)]
        /\ i' = i + 1 /\ UNCHANGED <<pc, cur, last, res>>
Return == /\ pc = "run" /\ i > NSteps(cur)
          /\ pc' = "idle" /\ res' = "ok" /\ last' = cur /\ UNCHANGED <<dir, cur, i>>
\* the user edits or deletes any file between two runs
Touch == /\ pc = "idle" /\ \E f \in Owned : \E t \in {"absent", "edited"} : dir' = [dir EXCEPT ![f] = t]
         /\ res' = "none" /\ UNCHANGED <<pc, cur, i, last>>
Next == Start \/ Step \/ Return \/ Touch

\* ---- the property and the inductive invariant ----
DirMatchesLast == (pc = "idle" /\ res = "ok") => \A f \in Owned : dir[f] = FreshOf(last, f)
UserUntouched  == \A u \in UserFiles : dir[u] = "user"
\* while a run is in progress, every file whose last step is behind us already holds what the run leaves there
\* @type: ({ spec: Str, comp: Bool, client: Bool, api: Bool, dne: Bool }, Str) => Int;
LastStepOf(inv, f) == IF f = "components.go" THEN 1 ELSE IF f = "handler.go" THEN 2 ELSE IF f = "router.go" THEN 3 ELSE IF f = "spec_file.go" THEN 4
                      ELSE (IF inv.client THEN 6 ELSE 5)
Progress == pc = "run" => /\ i >= 1 /\ i <= NSteps(cur) + 1
                          /\ \A f \in Owned : LastStepOf(cur, f) < i => dir[f] = FreshOf(cur, f)
TypeOK == /\ pc \in {"idle", "run"} /\ cur \in Invs /\ last \in Invs /\ res \in {"none", "ok"}
          /\ i \in 0..7 /\ DOMAIN dir = Files
          /\ \A f \in Files : dir[f] \in {"absent", "edited", "user", "s0h", "s1h", "s0n", "s1n"}
IndInv == TypeOK /\ DirMatchesLast /\ UserUntouched /\ Progress
IndInit == /\ dir \in [Files -> {"absent", "edited", "user", "s0h", "s1h", "s0n", "s1n"}]
           /\ pc \in {"idle", "run"} /\ cur \in Invs /\ last \in Invs /\ res \in {"none", "ok"} /\ i \in 0..7
           /\ IndInv
=============================================================================
