------------------------------- MODULE MC_Codec -------------------------------
(***************************************************************************)
(* (1) Design check of the generated object writer: for every allOf of two *)
(*     members (each inline or embedded) and every subset of their         *)
(*     properties being set, the token stream is a well-formed member list *)
(*     with exactly the set keys.                                          *)
(* (2) Enumeration of the schema universe of C06-C08 (nesting <= 1         *)
(*     exhaustively) as JSON lines in the ASpec schema format.             *)
(***************************************************************************)
EXTENDS Codec, TLC, Json

CONSTANTS FixedWriter,   \* TRUE: embedded members are written through a buffer (repaired), FALSE: as in the pinned tree
          Emit, Explore
VARIABLES st, m1, m2
vars == <<st, m1, m2>>

(* ---- writer design check ---- *)
KeySets == { << >>, <<"a">>, <<"a", "b">> }
KeySets2 == { << >>, <<"c">>, <<"c", "d">> }
Init == st = "pick" /\ m1 = [emb |-> FALSE, keys |-> << >>] /\ m2 = [emb |-> FALSE, keys |-> << >>]
Pick(e1, k1, e2, k2) == /\ st = "pick" /\ Explore
                        /\ m1' = [emb |-> e1, keys |-> k1] /\ m2' = [emb |-> e2, keys |-> k2] /\ st' = "done"

\* repaired writer: an embedded member goes through a buffer and takes part in the comma protocol
RECURSIVE WriteMembersFixed(_, _, _)
WriteMembersFixed(ms, toks, comma) ==
    IF ms = << >> THEN toks
    ELSE LET m == Head(ms) IN
         IF m.emb THEN LET body == WriteKeys(m.keys, << >>, FALSE).toks IN
                       IF body = << >> THEN WriteMembersFixed(Tail(ms), toks, comma)
                       ELSE WriteMembersFixed(Tail(ms), toks \o (IF comma THEN <<",">> ELSE << >>) \o body, TRUE)
         ELSE LET r == WriteKeys(m.keys, toks, comma) IN WriteMembersFixed(Tail(ms), r.toks, r.comma)

Out == IF FixedWriter THEN WriteMembersFixed(<<m1, m2>>, << >>, FALSE) ELSE WriteMembers(<<m1, m2>>, << >>, FALSE)
WriterCorrect == st = "done" =>
    /\ WellFormedBody(Out)
    /\ { Out[i] : i \in { k \in DOMAIN Out : Out[k] # "," } } = SeqToSet(m1.keys) \cup SeqToSet(m2.keys)

(* ---- schema universe ---- *)
Sc(k, n) == [k |-> k, nullable |-> n]
ScalarKinds == {"string", "int32", "int64", "double", "float", "bool", "datetime", "any"}
Scalars == { Sc(k, n) : k \in ScalarKinds, n \in BOOLEAN }
Arr(s)  == [k |-> "array", nullable |-> FALSE, items |-> s]
PropSchemas  == { Sc(k, n) : k \in {"string", "int64", "datetime", "any", "bool"}, n \in BOOLEAN } \cup { Arr(Sc("string", FALSE)), Arr(Sc("int64", FALSE)) }
PropSchemas2 == { Sc("string", FALSE), Sc("int32", TRUE), Sc("double", FALSE), Arr(Sc("string", FALSE)) }
P(name, s, r) == [name |-> name, schema |-> s, req |-> r]
Addls == { [addlK |-> ""], [addlK |-> "any"], [addlK |-> "schema", addl |-> Sc("string", FALSE)], [addlK |-> "schema", addl |-> Sc("int64", FALSE)],
           [addlK |-> "schema", addl |-> Sc("int64", TRUE)], [addlK |-> "schema", addl |-> Sc("string", TRUE)] }
Obj(props, ad) == [k |-> "object", nullable |-> FALSE, props |-> props] @@ ad
Objects == { Obj(<< >>, ad) : ad \in Addls }
           \cup { Obj(<< P("alpha", s, r) >>, ad) : s \in PropSchemas, r \in BOOLEAN, ad \in Addls }
           \cup { Obj(<< P("alpha", s, r), P("beta-two", s2, r2) >>, ad) : s \in PropSchemas, r \in BOOLEAN, s2 \in PropSchemas2, r2 \in BOOLEAN, ad \in Addls }
Ref(n) == [k |-> "ref", to |-> n]
\* pool components the harness provides: PoolA {name* : string, tag : string}, PoolB {id* : int64}, PoolC {flag : bool, when : datetime}
MemberA == Obj(<< P("name", Sc("string", FALSE), TRUE), P("tag", Sc("string", FALSE), FALSE) >>, [addlK |-> ""])
MemberB == Obj(<< P("id", Sc("int64", FALSE), TRUE) >>, [addlK |-> ""])
MemberC == Obj(<< P("flag", Sc("bool", FALSE), FALSE), P("when", Sc("datetime", FALSE), FALSE) >>, [addlK |-> ""])
Forms(x, n) == { x, Ref(n) }
AllOfs == { [k |-> "allOf", nullable |-> FALSE, of |-> << a, b >>] :
              a \in Forms(MemberA, "PoolA"), b \in Forms(MemberB, "PoolB") \cup Forms(MemberC, "PoolC") }
          \cup { [k |-> "allOf", nullable |-> FALSE, of |-> << a, b >>] : a \in Forms(MemberC, "PoolC"), b \in Forms(MemberB, "PoolB") }
          \cup { [k |-> "allOf", nullable |-> FALSE, of |-> << b, a >>] : a \in Forms(MemberA, "PoolA"), b \in Forms(MemberB, "PoolB") }
OneOfs == { [k |-> "oneOf", nullable |-> FALSE, of |-> << Ref("VarDog"), Ref("VarCat") >>, discProp |-> d] : d \in {"", "kind"} }
          \cup { [k |-> "oneOf", nullable |-> FALSE, of |-> << Ref("VarDog"), Ref("VarCat"), Ref("PoolB") >>, discProp |-> ""] }
Nested == { Obj(<< P("inner", x, r), P("list", Arr(x), FALSE) >>, [addlK |-> ""]) : x \in { Ref("PoolA"), Ref("PoolC"), MemberB }, r \in BOOLEAN }
          \cup { Arr(Ref("PoolA")), Arr(MemberB), Arr(Arr(Sc("int64", FALSE))) }
\* properties that are a $ref to a nullable component (PoolNullStr : nullable string, PoolNullObj : nullable object)
NullRefs == { Obj(<< P("owner", x, r), P("id", Sc("int64", FALSE), TRUE) >>, [addlK |-> ""]) : x \in { Ref("PoolNullStr"), Ref("PoolNullObj") }, r \in BOOLEAN }
            \cup { Arr(Ref("PoolNullStr")), Arr(Ref("PoolNullObj")) }
\* a component that is nothing but a $ref to another component (schema alias), and properties / items through it
Aliases == { Ref("PoolA"), Ref("PoolNames"), Obj(<< P("via", Ref("PoolAliasA"), TRUE), P("names", Ref("PoolNames"), TRUE), P("more", Ref("PoolNames"), FALSE) >>, [addlK |-> ""]),
             Arr(Ref("PoolAliasA")) }
Universe == Aliases \cup NullRefs \cup Scalars \cup { Arr(s) : s \in Scalars } \cup Objects \cup AllOfs \cup OneOfs \cup Nested

EmitSchema(s) == st = "pick" /\ Emit /\ PrintT(ToJson([schema |-> s])) /\ UNCHANGED vars

Next == \/ \E e1 \in BOOLEAN, k1 \in KeySets, e2 \in BOOLEAN, k2 \in KeySets2 : Pick(e1, k1, e2, k2)
        \/ \E s \in Universe : EmitSchema(s)
Spec == Init /\ [][Next]_vars
=============================================================================
