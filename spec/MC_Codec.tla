------------------------------- MODULE MC_Codec -------------------------------
(***************************************************************************)
(* (1) Design check of the generated object writer: for every allOf of two *)
(*     members (each inline or embedded) and every subset of their         *)
(*     properties being set, the token stream is a well-formed member list *)
(*     with exactly the set keys.                                          *)
(* (2) Enumeration of the schema universe of C06-C08 (nesting <= 1         *)
(*     exhaustively) as JSON lines in the ASpec schema format.             *)
(***************************************************************************)
EXTENDS Codec, TLC, Json

CONSTANTS FixedWriter,   \* TRUE: embedded members are written through a buffer (repaired), FALSE: as in the pinned tree
          Emit, Explore
VARIABLES st, m1, m2
vars == <<st, m1, m2>>

(* ---- writer design check ---- *)
\* every object of: up to two own properties (set / unset / null), up to two allOf members (inline or embedded, each
\* with up to two properties and optionally a nested embedded member), zero to two map entries
States == {"set", "unset", "null"}
Prop(n, s0) == [k |-> "prop", name |-> n, state |-> s0]
Leaf(names) == { [fields |-> fs, addl |-> << >>] : fs \in { << >> } \cup { << Prop(names[1], s1) >> : s1 \in States }
                                                        \cup { << Prop(names[1], s1), Prop(names[2], s2) >> : s1 \in States, s2 \in {"set", "unset"} } }
Mem(e, o) == [k |-> "member", emb |-> e, obj |-> o]
NestedObjs == { [fields |-> o.fields \o << Mem(TRUE, n) >>, addl |-> << >>] : o \in Leaf(<<"c", "d">>), n \in Leaf(<<"e", "f">>) }
MemberObjs == Leaf(<<"c", "d">>) \cup { x \in NestedObjs : Len(x.fields) <= 2 }
Init == st = "pick" /\ m1 = [emb |-> FALSE, keys |-> << >>] /\ m2 = [emb |-> FALSE, keys |-> << >>]
\* m1 holds the whole object under test (the variable names are kept from the first version of this module)
Pick(o) == st = "pick" /\ Explore /\ m1' = o /\ m2' = m2 /\ st' = "done"
Objects2 == { [fields |-> own.fields \o ms, addl |-> ad] :
                own \in Leaf(<<"a", "b">>),
                ms \in { << >> } \cup { << Mem(e, o) >> : e \in BOOLEAN, o \in MemberObjs }
                        \cup { << Mem(e1, o1), Mem(e2, o2) >> : e1 \in BOOLEAN, e2 \in BOOLEAN, o1 \in Leaf(<<"c", "d">>), o2 \in Leaf(<<"g", "h">>) },
                ad \in { << >>, <<"k1">>, <<"k1", "k2">> } }
WriterCorrect == st = "done" => WriterOK(m1, FixedWriter)

(* ---- schema universe ---- *)
Sc(k, n) == [k |-> k, nullable |-> n]
ScalarKinds == {"string", "int32", "int64", "double", "float", "bool", "datetime", "any"}
Scalars == { Sc(k, n) : k \in ScalarKinds, n \in BOOLEAN }
Arr(s)  == [k |-> "array", nullable |-> FALSE, items |-> s]
Ref(n) == [k |-> "ref", to |-> n]
PropSchemas  == { Sc(k, n) : k \in {"string", "int64", "datetime", "any", "bool"}, n \in BOOLEAN } \cup { Arr(Sc("string", FALSE)), Arr(Sc("int64", FALSE)) }
PropSchemas2 == { Sc("string", FALSE), Sc("int32", TRUE), Sc("double", FALSE), Arr(Sc("string", FALSE)) }
P(name, s, r) == [name |-> name, schema |-> s, req |-> r]
Addls == { [addlK |-> ""], [addlK |-> "any"], [addlK |-> "schema", addl |-> Sc("string", FALSE)], [addlK |-> "schema", addl |-> Sc("int64", FALSE)],
           [addlK |-> "schema", addl |-> Sc("int64", TRUE)], [addlK |-> "schema", addl |-> Sc("string", TRUE)],
           \* map values that are objects with optional properties (entries must not influence each other) and arrays
           [addlK |-> "schema", addl |-> Ref("PoolC")], [addlK |-> "schema", addl |-> Ref("PoolA")], [addlK |-> "schema", addl |-> Arr(Sc("int64", FALSE))],
           \* map values declared inline as an object (representative of the open finding codec-addl-inline-composite)
           [addlK |-> "schema", addl |-> [k |-> "object", nullable |-> FALSE, props |-> << [name |-> "extra", schema |-> Sc("string", FALSE), req |-> TRUE], [name |-> "more", schema |-> Sc("int32", FALSE), req |-> FALSE] >>, addlK |-> ""]] }
Obj(props, ad) == [k |-> "object", nullable |-> FALSE, props |-> props] @@ ad
Objects == { Obj(<< >>, ad) : ad \in Addls }
           \cup { Obj(<< P("alpha", s, r) >>, ad) : s \in PropSchemas, r \in BOOLEAN, ad \in Addls }
           \cup { Obj(<< P("alpha", s, r), P("beta-two", s2, r2) >>, ad) : s \in PropSchemas, r \in BOOLEAN, s2 \in PropSchemas2, r2 \in BOOLEAN, ad \in Addls }
\* pool components the harness provides: PoolA {name* : string, tag : string}, PoolB {id* : int64}, PoolC {flag : bool, when : datetime}
MemberA == Obj(<< P("name", Sc("string", FALSE), TRUE), P("tag", Sc("string", FALSE), FALSE) >>, [addlK |-> ""])
MemberB == Obj(<< P("id", Sc("int64", FALSE), TRUE) >>, [addlK |-> ""])
MemberC == Obj(<< P("flag", Sc("bool", FALSE), FALSE), P("when", Sc("datetime", FALSE), FALSE) >>, [addlK |-> ""])
Forms(x, n) == { x, Ref(n) }
AllOfs == { [k |-> "allOf", nullable |-> FALSE, of |-> << a, b >>] :
              a \in Forms(MemberA, "PoolA"), b \in Forms(MemberB, "PoolB") \cup Forms(MemberC, "PoolC") }
          \cup { [k |-> "allOf", nullable |-> FALSE, of |-> << a, b >>] : a \in Forms(MemberC, "PoolC"), b \in Forms(MemberB, "PoolB") }
          \cup { [k |-> "allOf", nullable |-> FALSE, of |-> << b, a >>] : a \in Forms(MemberA, "PoolA"), b \in Forms(MemberB, "PoolB") }
\* `required` written next to the allOf instead of inside a member (the "refine a base schema" idiom): the names it
\* lists are required of the merged object wherever they are declared.  goag refuses the form today (a clean error, the
\* pre-flight counts it); should it ever be accepted, the listed properties must be enforced like any required one
AllOfsAlsoReq == { [k |-> "allOf", nullable |-> FALSE, of |-> << a, b >>, alsoReq |-> rq] :
                     a \in Forms(MemberA, "PoolA"), b \in Forms(MemberC, "PoolC"),
                     rq \in { << "tag" >>, << "flag" >>, << "tag", "when" >>, << "name" >> } }
\* an allOf member that collects additional properties and is NOT the last thing decoded (PoolD {note : string,
\* additionalProperties : string}): the keys of the members after it are theirs, not its extras
MemberD == Obj(<< P("note", Sc("string", FALSE), FALSE) >>, [addlK |-> "schema", addl |-> Sc("string", FALSE)])
\* (the later member's properties are strings: for JSON Schema they are additional properties of the first member as
\* well and have to satisfy its value schema - with another type the allOf would admit no document at all)
AllOfsAddlFirst == { [k |-> "allOf", nullable |-> FALSE, of |-> << a, b >>] : a \in Forms(MemberD, "PoolD"), b \in Forms(MemberA, "PoolA") }
DM(k, v) == [k |-> k, v |-> v]
OneOf(vs, d, dm) == [k |-> "oneOf", nullable |-> FALSE, of |-> vs, discProp |-> d, discMap |-> dm]
Dog == Ref("VarDog")  Cat == Ref("VarCat")  Bird == Ref("VarBird")
\* discriminator mappings: none (implicit schema names), complete, partial (fewer entries than variants, on the first /
\* middle / last variant), several aliases for one variant
OneOfs == { OneOf(<< Dog, Cat >>, d, << >>) : d \in {"", "kind"} }
          \cup { OneOf(<< Dog, Cat, Ref("PoolB") >>, "", << >>) }
          \* variants sharing a property that sorts before the property on which the earlier variant fails
          \* (Memo {author, subject*} / Letter {author, recipient*}; Circle {kind*, radius*} / Square {kind*, side*})
          \cup { OneOf(<< Ref("VarMemo"), Ref("VarLetter") >>, "", << >>), OneOf(<< Ref("VarLetter"), Ref("VarMemo") >>, "", << >>) }
          \cup { OneOf(<< Ref("VarCircle"), Ref("VarSquare") >>, d, << >>) : d \in {"", "kind"} }
          \* variants declared inline as primitives (told apart by their JSON type), alone and next to an object variant
          \cup { OneOf(<< Sc("string", FALSE), Sc("int64", FALSE), Sc("bool", FALSE) >>, "", << >>),
                 OneOf(<< Sc("bool", FALSE), Sc("string", FALSE) >>, "", << >>),
                 OneOf(<< Sc("string", FALSE), Dog >>, "", << >>), OneOf(<< Cat, Sc("double", FALSE) >>, "", << >>) }
          \cup { OneOf(<< Dog, Cat >>, "kind", << DM("dog", "VarDog"), DM("cat", "VarCat"), DM("kitten", "VarCat") >>) }
          \cup { OneOf(<< Dog, Cat, Bird >>, "kind", dm) : dm \in { << >>, << DM("doggo", "VarDog") >>, << DM("kitty", "VarCat") >>, << DM("birdie", "VarBird") >>,
                                                                   << DM("doggo", "VarDog"), DM("birdie", "VarBird") >>,
                                                                   << DM("d", "VarDog"), DM("c", "VarCat"), DM("b", "VarBird"), DM("b2", "VarBird") >> } }
Nested == { Obj(<< P("inner", x, r), P("list", Arr(x), FALSE) >>, [addlK |-> ""]) : x \in { Ref("PoolA"), Ref("PoolC"), MemberB }, r \in BOOLEAN }
          \cup { Arr(Ref("PoolA")), Arr(MemberB), Arr(Arr(Sc("int64", FALSE))) }
          \cup { Obj(<< P("grid", Arr(Arr(Sc("int64", FALSE))), r), P("rows", Arr(Arr(Sc("string", FALSE))), FALSE) >>, [addlK |-> ""]) : r \in BOOLEAN }
\* properties that are a $ref to a nullable component (PoolNullStr : nullable string, PoolNullObj : nullable object)
NullRefs == { Obj(<< P("owner", x, r), P("id", Sc("int64", FALSE), TRUE) >>, [addlK |-> ""]) : x \in { Ref("PoolNullStr"), Ref("PoolNullObj") }, r \in BOOLEAN }
            \cup { Arr(Ref("PoolNullStr")), Arr(Ref("PoolNullObj")) }
\* a component that is nothing but a $ref to another component (schema alias), and properties / items through it
\* (AaAliasA / AaAliasNames are aliases whose names sort before their targets: declared before what they point to)
Aliases == { Ref("PoolA"), Ref("PoolNames"), Obj(<< P("via", Ref("PoolAliasA"), TRUE), P("names", Ref("PoolNames"), TRUE), P("more", Ref("PoolNames"), FALSE) >>, [addlK |-> ""]),
             Arr(Ref("PoolAliasA")),
             Ref("AaAliasA"), Arr(Ref("AaAliasA")), Obj(<< P("fwd", Ref("AaAliasA"), TRUE), P("names", Ref("AaAliasNames"), FALSE) >>, [addlK |-> ""]) }
\* the OpenAPI 3.0 idiom for a nullable reference: nullable next to an allOf with the $ref as its only member
\* (as a property, as items, as a component of its own), and the same without nullable
OneRef(n, nl) == [k |-> "allOf", nullable |-> nl, of |-> << Ref(n) >>]
NullableRefIdiom == { Obj(<< P("owner", OneRef("PoolA", nl), r), P("id", Sc("int64", FALSE), TRUE) >>, [addlK |-> ""]) : nl \in BOOLEAN, r \in BOOLEAN }
                    \cup { OneRef("PoolA", nl) : nl \in BOOLEAN } \cup { Arr(OneRef("PoolB", TRUE)) }
Universe == NullableRefIdiom \cup Aliases \cup NullRefs \cup Scalars \cup { Arr(s) : s \in Scalars } \cup Objects \cup AllOfs \cup AllOfsAddlFirst \cup AllOfsAlsoReq \cup OneOfs \cup Nested

EmitSchema(s) == st = "pick" /\ Emit /\ PrintT(ToJson([schema |-> s])) /\ UNCHANGED vars

Next == \/ \E o \in Objects2 : Pick(o)
        \/ \E s \in Universe : EmitSchema(s)
Spec == Init /\ [][Next]_vars
=============================================================================
