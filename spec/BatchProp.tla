----------------------------- MODULE BatchProp -----------------------------
(* The Prop layer of Batch.tla as predicates of an outcome (used by the design check and by the trace judge). *)
EXTENDS Naturals, Sequences

\* an item: [kind : "plain" | "cors" | "fail" | "nospec"]; what a lone invocation of it writes:
Fresh(it) == CASE it.kind = "plain" -> "out:plain"
               [] it.kind = "cors"  -> "out:cors"
               [] OTHER             -> "none"          \* refused by the generator / no spec file: nothing written
Fails(it) == it.kind \in {"fail", "nospec"}

R(st, e) == [st |-> st, err |-> e]

\* the properties as predicates of an outcome (the trace judge applies them to what the real GenerateDir left)
FirstFailingOf(its) == IF \E k \in DOMAIN its : Fails(its[k]) THEN CHOOSE k \in DOMAIN its : Fails(its[k]) /\ \A j \in 1..(k - 1) : ~Fails(its[j]) ELSE 0
IndependentP(its, w)  == \A k \in DOMAIN its : w[k] \in {"none", Fresh(its[k])}
FailsAtFirstP(its, r) == IF FirstFailingOf(its) = 0 THEN r = R("ok", 0) ELSE r = R("error", FirstFailingOf(its))
PrefixDoneP(its, w)   == \A k \in DOMAIN its :
                           IF FirstFailingOf(its) = 0 \/ k < FirstFailingOf(its) THEN w[k] = Fresh(its[k]) ELSE w[k] = "none"
=============================================================================
