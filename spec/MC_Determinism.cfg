SPECIFICATION Spec
CONSTANTS
  Keys = {1, 2, 3, 4}
  Version = "cur"
INVARIANT ScheduleIndependent
