SPECIFICATION Spec
CONSTANTS
  FixedWriter = TRUE
  Emit = FALSE
  Explore = TRUE
INVARIANT WriterCorrect
