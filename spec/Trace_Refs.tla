------------------------------ MODULE Trace_Refs ------------------------------
(***************************************************************************)
(* Judge for C18: paired observations of two generated packages whose      *)
(* specs differ only by inlining / hoisting references.                    *)
(*   Pair {case, kind : "build" | "wire" | "raw", variant, a, b}           *)
(***************************************************************************)
EXTENDS Refs, TLC, Json
VARIABLES l, stats
tvars == <<l, stats>>
Trace == ndJsonDeserialize("trace.ndjson")
Ev    == Trace[l]
Init == l = 1 /\ stats = [accepted |-> 0, nontrivial |-> 0, rejected |-> 0]
PairOK == CASE Ev.kind = "build" -> Ev.a.builds = Ev.b.builds /\ Ev.a.ok = Ev.b.ok
            [] Ev.kind = "wire"  -> WireEquiv(Ev.a, Ev.b)
            [] Ev.kind = "raw"   -> RawEquiv(Ev.a, Ev.b)
            [] OTHER -> FALSE
NonTrivial == CASE Ev.kind = "wire" -> VEqF(Ev.a.sent, Ev.b.sent)
                [] Ev.kind = "raw" -> Ev.a.handler # ""
                [] OTHER -> TRUE
Pair == /\ l <= Len(Trace) /\ Ev.ev = "Pair" /\ PairOK
        /\ stats' = [stats EXCEPT !.accepted = @ + 1, !.nontrivial = @ + (IF NonTrivial THEN 1 ELSE 0)]
        /\ l' = l + 1
\* known finding: hoisting an object property's / array item's non-object schema into a component stops the package from building
\* known finding: an array-typed response header hoisted into components.headers is refused by the generator
KF == IF Ev.kind = "build" /\ Ev.hoistsProps /\ Ev.a.builds /\ ~Ev.b.builds THEN "c18-ref-nonstruct"
      ELSE IF Ev.kind = "build" /\ Ev.hoistsHeaders /\ Ev.a.ok /\ ~Ev.b.ok /\ Ev.headerArrayError THEN "c18-header-component-array"
      ELSE IF Ev.kind \in {"wire", "raw"} /\ Ev.bodyVia = "componentInlineObject" THEN "c18-component-body-inline-object"
      ELSE IF Ev.kind = "wire" /\ {Ev.a.done.body, Ev.b.done.body} = {"[]", "null"} THEN "c18-nil-array-body-null"
      ELSE IF Ev.kind = "wire" /\ {Ev.a.wire.body, Ev.b.wire.body} = {"[]", "null"} THEN "c18-nil-array-body-null"
      ELSE ""
Skip == /\ l <= Len(Trace) /\ ~ENABLED Pair
        /\ PrintT(ToJson([verdict |-> "REJECT", case |-> Ev.case, at |-> l, event |-> [ev |-> Ev.ev, kind |-> Ev.kind, variant |-> Ev.variant], kf |-> KF]))
        /\ stats' = [stats EXCEPT !.rejected = @ + 1] /\ l' = l + 1
Finish == /\ l = Len(Trace) + 1
          /\ PrintT(ToJson([verdict |-> "END", at |-> l, accepted |-> stats.accepted, nontrivial |-> stats.nontrivial, rejected |-> stats.rejected]))
          /\ l' = l + 1 /\ UNCHANGED stats
Next == Pair \/ Skip \/ Finish
Spec == Init /\ [][Next]_tvars
=============================================================================
