-------------------------------- MODULE Reader --------------------------------
(***************************************************************************)
(* Impl layer of the generated JSON *reader* (file_components.gotmpl       *)
(* UnmarshalJSON / unmarshalJSONInnerBody, oneOf UnmarshalJSON), next to   *)
(* the writer machine of Codec.tla.                                        *)
(*                                                                         *)
(* A document is seen the way the generated code sees it after             *)
(* json.Unmarshal(bs, &m): a map from key to raw value; what matters of a  *)
(* raw value is whether it decodes into the declared type ("ok"), is an    *)
(* explicit null ("null") or does not decode ("bad").                      *)
(*   Doc    = [key -> {"ok", "null", "bad"}]                               *)
(*   Object = [fields : Seq(Field), addl : {"none", "typed"}]              *)
(*   Field  = [k : "prop", name, req : BOOLEAN, nullable : BOOLEAN]        *)
(*          | [k : "member", emb : BOOLEAN, obj : Object]   (allOf member) *)
(* unmarshalJSONInnerBody walks the fields in order; every key it decodes  *)
(* is deleted from m; an embedded member runs its own InnerBody on the     *)
(* same m; what is left at the end goes to AdditionalProperties when the   *)
(* schema declares them and is ignored otherwise.                          *)
(* The result is [ok, set : keys decoded into fields, nulls : keys decoded *)
(* as null, zeros : keys whose null was decoded into a non-nullable field  *)
(* (encoding/json leaves the zero value; C08 is silent about it), extras : *)
(* keys stored as additional properties, err : the key the error names,    *)
(* left : what remains of m].                                              *)
(***************************************************************************)
EXTENDS Naturals, Sequences, FiniteSets, TLC

DocKeys(m) == DOMAIN m
Del(m, k) == [x \in DOMAIN m \ {k} |-> m[x]]
Fail(r, k) == [r EXCEPT !.ok = FALSE, !.err = k]

RECURSIVE ReadFields(_, _)
\* r = [ok, set, nulls, extras, err, left]
ReadFields(fs, r) ==
    IF fs = << >> \/ ~r.ok THEN r
    ELSE LET f == Head(fs) IN
         IF f.k = "prop" THEN
              IF f.name \notin DocKeys(r.left) THEN (IF f.req THEN Fail(r, f.name) ELSE ReadFields(Tail(fs), r))
              ELSE LET v == r.left[f.name] IN
                   IF v = "bad" THEN Fail(r, f.name)
                   ELSE ReadFields(Tail(fs), [r EXCEPT !.left = Del(r.left, f.name),
                                                       !.set = IF v = "ok" THEN @ \cup {f.name} ELSE @,
                                                       !.nulls = IF v = "null" /\ f.nullable THEN @ \cup {f.name} ELSE @,
                                                       !.zeros = IF v = "null" /\ ~f.nullable THEN @ \cup {f.name} ELSE @])
         ELSE \* an allOf member: inline members' fields belong to this struct, embedded ones run their own InnerBody - on the same map
              ReadFields(Tail(fs), ReadFields(f.obj.fields, r))

ReadObj(o, doc) ==
    LET r0 == [ok |-> TRUE, set |-> {}, nulls |-> {}, zeros |-> {}, extras |-> {}, err |-> "", left |-> doc]
        r  == ReadFields(o.fields, r0) IN
    IF ~r.ok THEN r
    ELSE IF o.addl = "none" THEN r
    ELSE IF \E k \in DocKeys(r.left) : r.left[k] = "bad" THEN Fail(r, CHOOSE k \in DocKeys(r.left) : r.left[k] = "bad")
    ELSE [r EXCEPT !.extras = DocKeys(r.left), !.left = [x \in {} |-> "ok"]]      \* (a null extra becomes the zero value as well)

(* ---------------- Prop layer: what reading a document must amount to ---------------- *)
RECURSIVE Declared(_)
Declared(o) == UNION { IF o.fields[i].k = "prop" THEN { o.fields[i] } ELSE Declared(o.fields[i].obj) : i \in DOMAIN o.fields }
DeclNames(o) == { p.name : p \in Declared(o) }
\* the faults C08 speaks of: a required key missing, a non-null value of the wrong type (for additional properties
\* of a typed map as well: that is what keeps them "where the schema allows them")
Faulty(o, doc) == { p.name : p \in { q \in Declared(o) :
                       \/ (q.req /\ q.name \notin DocKeys(doc))
                       \/ (q.name \in DocKeys(doc) /\ doc[q.name] = "bad") } }
                  \cup (IF o.addl = "typed" THEN { k \in DocKeys(doc) \ DeclNames(o) : doc[k] = "bad" } ELSE {})
ReadRefinesProp(o, doc) ==
    LET r == ReadObj(o, doc) IN
    IF Faulty(o, doc) = {} THEN /\ r.ok
                               /\ r.set = { k \in DocKeys(doc) \cap DeclNames(o) : doc[k] = "ok" }
                               /\ r.nulls \cup r.zeros = { k \in DocKeys(doc) \cap DeclNames(o) : doc[k] = "null" }
                               /\ \A p \in Declared(o) : (p.name \in r.nulls => p.nullable) /\ (p.name \in r.zeros => ~p.nullable)
                               /\ r.extras = (IF o.addl = "typed" THEN DocKeys(doc) \ DeclNames(o) ELSE {})
    ELSE ~r.ok /\ r.err \in Faulty(o, doc)

(* ---------------- oneOf ---------------- *)
\* Without a discriminator the variants are tried in declaration order and the first that reads wins.
\* shared = FALSE: every attempt parses the bytes afresh (the pinned template);
\* shared = TRUE : the class of defect "parse once": all attempts work on one map, so what a failed attempt consumed is gone.
RECURSIVE TryVariants(_, _, _, _)
TryVariants(vs, doc, shared, i) ==
    IF vs = << >> THEN [ok |-> FALSE, variant |-> 0, read |-> [ok |-> FALSE]]
    ELSE LET r == ReadObj(Head(vs), doc) IN
         IF r.ok THEN [ok |-> TRUE, variant |-> i, read |-> r]
         ELSE TryVariants(Tail(vs), IF shared THEN r.left ELSE doc, shared, i + 1)
ReadOneOf(vs, doc, shared) == TryVariants(vs, doc, shared, 1)
\* With a discriminator the value of the discriminator property selects the variant: table[tag] = variant index.
ReadOneOfDisc(vs, table, tag, doc) ==
    IF tag \notin DOMAIN table THEN [ok |-> FALSE, variant |-> 0, read |-> [ok |-> FALSE]]
    ELSE LET r == ReadObj(vs[table[tag]], doc) IN [ok |-> r.ok, variant |-> IF r.ok THEN table[tag] ELSE 0, read |-> r]

\* Prop: a document that is fault-free for exactly one variant is read as that variant, completely
ValidFor(vs, doc) == { i \in DOMAIN vs : Faulty(vs[i], doc) = {} /\ (vs[i].addl = "none" => DocKeys(doc) \subseteq DeclNames(vs[i])) }
OneOfRefinesProp(vs, doc, shared) ==
    LET ok == { i \in DOMAIN vs : Faulty(vs[i], doc) = {} } IN       \* what the generated reader can accept (silent extras)
    (Cardinality(ok) = 1) =>
        LET i == CHOOSE x \in ok : TRUE
            r == ReadOneOf(vs, doc, shared) IN
        r.ok /\ r.variant = i /\ r.read.set = { k \in DocKeys(doc) \cap DeclNames(vs[i]) : doc[k] = "ok" }
=============================================================================
